#!/bin/bash
# tools/confirm_seed.sh <ID> <n>: confirms a candidate seeded change produced by a sub-agent in /tmp/seed$ROUND-<ID>/<n> against its
# scratch worktree /tmp/wt$ROUND-<ID>: the demonstration must FAIL with the patch and PASS without it.
ID=$1; N=$2; R=${ROUND:-}; WT=/tmp/wt$R-$ID; S=/tmp/seed$R-$ID/$N
export GOFLAGS=-mod=mod GOPROXY=off GOSUMDB=off GOTOOLCHAIN=local
cd $WT && git checkout -q -- . && git clean -fdq
RUN=$(ls $S/demo/run.sh 2>/dev/null)
if [ -z "$RUN" ]; then echo "no run.sh"; ls $S $S/demo; exit 2; fi
git apply $S/patch.diff || { echo "patch does not apply to worktree"; exit 2; }
go build ./... || { echo "does not build"; exit 2; }
(bash $RUN > /tmp/confirm_with.$$ 2>&1); rc_with=$?
git checkout -q -- . && git clean -fdq
(bash $RUN > /tmp/confirm_without.$$ 2>&1); rc_without=$?
echo "$ID/$N demo with change: rc=$rc_with ($(tail -1 /tmp/confirm_with.$$ | cut -c1-100)); without: rc=$rc_without ($(tail -1 /tmp/confirm_without.$$ | cut -c1-100))"
rm -f /tmp/confirm_with.$$ /tmp/confirm_without.$$
[ $rc_with -ne 0 ] && [ $rc_without -eq 0 ]
