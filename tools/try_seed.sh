#!/bin/bash
# tools/try_seed.sh <patch.diff> <check id>... : applies a seeded change to /repo, confirms that the repository's own
# suite still passes, runs the given checks (quick tier), and restores /repo. Prints one line per check.
set -u
PATCH="$1"; shift
cd /repo || exit 2
if [ -n "$(git status --short)" ]; then echo "try_seed: /repo is not clean" >&2; exit 2; fi
if ! git apply "$PATCH"; then echo "try_seed: patch does not apply" >&2; exit 2; fi
trap 'cd /repo && git checkout -q -- . && git clean -fdq' EXIT
export GOFLAGS=-mod=mod GOPROXY=off GOSUMDB=off GOTOOLCHAIN=local
if [ "${SKIP_SUITE:-}" = "" ]; then
  if go test -vet=off -count=1 ./... > /tmp/try_seed_suite.$$ 2>&1; then echo "suite: PASS"; else echo "suite: FAIL"; tail -5 /tmp/try_seed_suite.$$; fi
  rm -f /tmp/try_seed_suite.$$
  git checkout -q -- testdata 2>/dev/null
fi
cd /verif
for id in "$@"; do
  out=$(./check "$id" --tier "${TIER:-quick}" 2>&1); rc=$?
  nv=$(echo "$out" | grep -c '^VIOLATION')
  first=$(echo "$out" | grep -A1 '^VIOLATION' | grep signature | head -3 | tr '\n' ';')
  echo "$id rc=$rc violations=$nv $first"
done
