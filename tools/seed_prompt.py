#!/usr/bin/env python3
"""tools/seed_prompt.py <ID> <round>: prints the brief handed to a fresh sub-agent that is asked for
property-breaking changes. It contains the property's text (from properties.jsonl) and the location of the
agent's scratch worktree - nothing about /verif or what the checks look at."""
import json, sys

pid, rnd = sys.argv[1], sys.argv[2]
prop = None
for line in open('/verif/properties.jsonl'):
    p = json.loads(line)
    if p['id'] == pid:
        prop = p
assert prop, pid
wt = f"/tmp/wt{rnd}-{pid}"
out = f"/tmp/seed{rnd}-{pid}"
anch = prop.get('anchors', {})
mech = "\n".join(f"  - {m['name']}: {m['where']}" for m in anch.get('mechanism', []))
print(f"""You are helping test a verification effort for the Go project 200sc/bebop (a Go implementation of the Bebop
schema language: tokenizer, parser, validator, formatter, Go code generator emitting binary wire-format
encoders/decoders, and the `iohelp` runtime). You have your own scratch git worktree of the repository at

    {wt}

Work ONLY inside {wt} and {out} (create the latter). Never touch /repo or /verif, never read /verif.
The sandbox is offline. In every shell command first run:
    export GOFLAGS=-mod=mod GOPROXY=off GOSUMDB=off GOTOOLCHAIN=local
The repository's test suite is `cd {wt} && go test -vet=off -count=1 ./...` (it rewrites files under testdata/;
run `git checkout -- testdata && git clean -fdq testdata` afterwards so that they do not end up in your diff).

Here is a semantic property that users of the project rely on:

  Title: {prop['title']}
  Statement: {prop['statement']}
  Quantified over: {prop['quantifier']['text']}
  Why the existing tests cannot settle it: {prop.get('why_tests_cant','')}
  Code it is anchored in: {', '.join(anch.get('files', []))}
{mech}

YOUR TASK: produce TWO independent, realistic changes to the repository's non-test source (each a small patch a
tired maintainer could plausibly write: a refactor, an optimisation, a "simplification", an off-by-one, a reordered
statement, state hoisted or reused, a condition slightly wrong, two sites that each look fine alone) such that for
EACH change:
  1. the repository still compiles (`go build ./...`) and `go vet ./...` is no worse than before;
  2. the existing test suite still passes completely, unedited (do not touch *_test.go or testdata inputs; if the
     suite's golden/generated outputs under testdata change, the change is NOT acceptable);
  3. the property above is broken - and it is broken only under something SPECIFIC: a particular type shape or
     nesting, a particular value or size threshold, a particular option combination, a particular read/write
     fragmentation, fault or crash point, a particular interleaving, a multi-step sequence of calls, an unusual but
     legal input or layout, or two cooperating sites. Ordinary, first-thing-you-try use must still work. The subtler
     and more specific the trigger, the better - but it must be a real, deterministic (or reliably reproducible)
     violation of the property as stated, not of something stronger than the property says.
  4. the two changes should be in different mechanisms (different functions/templates/files) and have different
     kinds of trigger.
  5. Six earlier rounds of this exercise already produced about 240 changes. Ideas that are TAKEN (do not repeat
     them or close variants): anything in iohelp's EnsureLen / PreallocLen / ReadBytes / Drain / error latches /
     ErrorReader.Read / ErrorWriter retry / ReadByte (0,nil) / UTF-8 sanitising / shared-memory strings / date
     conversion / ReadFloat64Bytes bounds probe / WriteBoolBytes; Size() shortcuts; message fields or union members
     numbered by position; break-vs-continue at deprecated fields; minWireSizes (fix-point, uint8 overflow, keyed by
     value only, import aliases); the counted-struct analysis and its unchecked variant; enum : byte alias; NaN
     canonicalisation; template key typos; pending-state leaks in the parser ([deprecated], [opcode], [flags], blank
     lines, skipEndOfLineComments); [flags] precedence / grouping / shifts; negative hex literals; % in printf
     formats; long comments, ReadSlice, CRLF, tabs, non-ASCII identifiers, block-comment terminators, partial tokens on
     read errors, LimitReader wrappers (ReadFile, bebopfmt); import de-duplication keys, relative paths, case folding,
     early no-go_package errors, skipping files that declare nothing; Go import-block computation; importgraph edges;
     hard links, long lines, shared buffers, temp-file fallbacks, exit-status counts, dropped bufio Flush errors in the
     tools; sync.Once caches; aliasing through *FieldType / spare capacity / Tags slices; Validate's recursion
     fix-point (delta, DFS with shared walked set) and integer bit-size table; guid literal checks; uint8 loops that
     stop before 255; two-digit indices sorted as text; ln1 declared-before-assigned in nested maps; unsigned enum
     values printed through int64; const block emission keyed on the first const; the formatter's trailing-comment
     glue, line-end trimming, union-branch re-indentation, stripped parentheses.
     Find something genuinely different. Directions nobody has taken yet: the 14 map KEY templates one by one (guid,
     date, bool, float keys - encode order, duplicate keys on the wire, key/value size accounting); date and guid
     value templates (byte order of the guid's first three groups, ticks epoch, sub-microsecond rounding, negative
     dates); float32 vs float64 template mix-ups; readonly structs (getters returning internal slices/maps, New<T>
     argument order); pointer-receiver variants (AlwaysUsePointerReceivers) differing from value receivers; opcode
     constants for 4-character strings with high bytes; message decoders when the SAME index occurs twice on the
     wire, or when the length prefix is shorter/longer than the body; union decoders when the length prefix
     disagrees with the branch's real size; Make<T>/MustMake<T> wrappers and GetOpCode; PrivateDefinitions naming
     for nested/imported/union-branch names; a File built in code rather than by ReadFile (nil vs empty slices, empty
     FileName, fields out of index order); Generate called with PackageName vs go_package vs both; Validate's
     duplicate-name rules across enums/structs/unions/branches/consts and across imports; reserved Go words and
     predeclared identifiers as field / type / enum-member / package names; const forms (exponent floats, leading
     +, underscores, very long literals, -0, bool case); the formatter on attributes followed by comments, on
     enums with explicit base types and doc comments, on empty definitions, on files ending without newline or
     starting with a BOM; the tools' flag handling (-w with several paths, a path given twice, a directory containing
     a sub-directory or a non-.bop file or a symlink loop, stdout mode for several files, relative -o paths creating
     directories).
Read the code first; look for shortcuts, special cases, counters, cursors, shared buffers, thresholds, lookup tables
keyed by type name, pending-state flags, and places where two code paths must agree.

For each change n in {{1,2}} write into {out}/<n>/ :
  - patch.diff    : `git diff` of the change against the worktree's HEAD (source files only, must apply with
                    `git apply` to a clean checkout of the same commit)
  - demo/         : a demonstration - a small Go program or test in its own module directory (go.mod with
                    `replace github.com/200sc/bebop => {wt}`; only the standard library and the repo itself are
                    available offline) or a shell script - plus demo/run.sh which runs it against {wt} AS IT CURRENTLY
                    IS and exits NON-ZERO when the property is violated, ZERO when it holds. It must FAIL with your
                    change applied and PASS on the clean worktree. If it needs generated code, have run.sh generate
                    it freshly from the worktree each time (e.g. `go run {wt}/main/bebopc-go -i x.bop -o out.go
                    --package p`, check the flags in main/bebopc-go/main.go).
  - README.md     : what the change is, why it breaks the property, exactly what is needed to make it manifest,
                    and the commands you ran with their observed results (suite with the change; demo with and
                    without the change).
Verify all of this yourself before finishing: apply patch -> build -> suite passes -> demo fails; revert -> demo
passes. Leave the worktree CLEAN (git checkout -- . && git clean -fdq) when you are done; the patches live only in
{out}. Do not commit anything. Your final message should summarise, per change: files touched, the trigger, and
the demo's output with and without the change.""")
