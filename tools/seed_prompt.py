#!/usr/bin/env python3
"""tools/seed_prompt.py <ID> <round>: prints the brief handed to a fresh sub-agent that is asked for
property-breaking changes. It contains the property's text (from properties.jsonl) and the location of the
agent's scratch worktree - nothing about /verif or what the checks look at."""
import json, sys

pid, rnd = sys.argv[1], sys.argv[2]
prop = None
for line in open('/verif/properties.jsonl'):
    p = json.loads(line)
    if p['id'] == pid:
        prop = p
assert prop, pid
wt = f"/tmp/wt{rnd}-{pid}"
out = f"/tmp/seed{rnd}-{pid}"
anch = prop.get('anchors', {})
mech = "\n".join(f"  - {m['name']}: {m['where']}" for m in anch.get('mechanism', []))
print(f"""You are helping test a verification effort for the Go project 200sc/bebop (a Go implementation of the Bebop
schema language: tokenizer, parser, validator, formatter, Go code generator emitting binary wire-format
encoders/decoders, and the `iohelp` runtime). You have your own scratch git worktree of the repository at

    {wt}

Work ONLY inside {wt} and {out} (create the latter). Never touch /repo or /verif, never read /verif.
The sandbox is offline. In every shell command first run:
    export GOFLAGS=-mod=mod GOPROXY=off GOSUMDB=off GOTOOLCHAIN=local
The repository's test suite is `cd {wt} && go test -vet=off -count=1 ./...` (it rewrites files under testdata/;
run `git checkout -- testdata && git clean -fdq testdata` afterwards so that they do not end up in your diff).

Here is a semantic property that users of the project rely on:

  Title: {prop['title']}
  Statement: {prop['statement']}
  Quantified over: {prop['quantifier']['text']}
  Why the existing tests cannot settle it: {prop.get('why_tests_cant','')}
  Code it is anchored in: {', '.join(anch.get('files', []))}
{mech}

YOUR TASK: produce TWO independent, realistic changes to the repository's non-test source (each a small patch a
tired maintainer could plausibly write: a refactor, an optimisation, a "simplification", an off-by-one, a reordered
statement, state hoisted or reused, a condition slightly wrong, two sites that each look fine alone) such that for
EACH change:
  1. the repository still compiles (`go build ./...`) and `go vet ./...` is no worse than before;
  2. the existing test suite still passes completely, unedited (do not touch *_test.go or testdata inputs; if the
     suite's golden/generated outputs under testdata change, the change is NOT acceptable);
  3. the property above is broken - and it is broken only under something SPECIFIC: a particular type shape or
     nesting, a particular value or size threshold, a particular option combination, a particular read/write
     fragmentation, fault or crash point, a particular interleaving, a multi-step sequence of calls, an unusual but
     legal input or layout, or two cooperating sites. Ordinary, first-thing-you-try use must still work. The subtler
     and more specific the trigger, the better - but it must be a real, deterministic (or reliably reproducible)
     violation of the property as stated, not of something stronger than the property says.
  4. the two changes should be in different mechanisms (different functions/templates/files) and have different
     kinds of trigger.
  5. Seven earlier rounds of this exercise already produced about 280 changes. Ideas that are TAKEN (do not repeat
     them or close variants): anything in iohelp's EnsureLen / PreallocLen / ReadBytes / Drain / error latches /
     ErrorReader.Read / ErrorWriter retry / ReadByte-ReadBool-ReadUint8 fast paths through io.ByteReader or
     io.ByteWriter / UTF-8 sanitising or interning of strings / uint32 overflow in string bounds / shared-memory
     strings / date conversion / bounds probes / WriteBoolBytes / ReadString against a LimitedReader; Size()
     shortcuts; fields or union members numbered by position; break-vs-continue at deprecated fields; minWireSizes
     in any form; count checks for narrow-keyed maps, zero-size elements, enum arrays; constant strides for struct
     arrays; the counted-struct analysis; enum : byte alias; NaN canonicalisation and NaN map keys; template key
     typos; local-vs-imported template lookup; missing templates for imported unions / messages; fixed five-byte
     frames for empty messages; byte[] message fields read without ReadBytes; pending-state leaks in the parser;
     [flags] precedence / grouping / shifts / position memo; hex literals (negative, ending in e); index range
     checks (0, 256); opcode strings (escapes, bytes >= 0x80, bytes.Trim); const range off-by-one, string consts
     re-quoted; keyword-named enum options; % in printf formats; long comments, ReadSlice, CRLF, tabs, BOM,
     non-ASCII identifiers, block-comment terminators, partial tokens on read errors, LimitReader wrappers; import
     de-duplication keys, relative paths, case folding, early no-go_package errors, skipped index files, descriptors
     held by defer, parsed-import caches, importgraph DFS (edges, early returns, stack handling); Go import-block
     computation; /vN package names; hard links, long lines, shared buffers, temp-file fallbacks, exit-status
     counts, dropped Flush / write errors, lost look-ahead tokens in the tools and the formatter; sync.Once and
     other package-level caches (indent tables); aliasing through *FieldType / spare capacity / Tags; Validate's
     recursion fix-point, branch messages in it, integer bit-size table, deprecated fields skipped; guid literal
     checks; uint8 loops that stop before 255; two-digit indices sorted as text; ln1 declared-before-assigned;
     unsigned enum values through int64; const block emission; the formatter's trailing-comment glue, line-end
     trimming, union-branch re-indentation, stripped parentheses, zero-padded indices, blank-line state.
     Find something genuinely different. Directions nobody has taken yet: date values (ticks epoch, rounding of
     sub-100ns parts, negative / pre-1970 / far-future dates, time zones) in each of the four date templates; guid
     byte order in map KEYS and arrays; bool / guid / date / float keys in the map encoders (Size accounting per
     key type); readonly structs (getters returning internal slices or maps that alias, New<T> argument order,
     unexported field names under PrivateDefinitions); pointer-receiver variants (AlwaysUsePointerReceivers)
     differing from value receivers in ONE method; GetOpCode and the opcode constant for unions and messages;
     message decoders when the same index occurs twice, when the terminator is missing but the length is right,
     when the length prefix covers less / more than the fields; union decoders when the length prefix disagrees with
     the branch; Make<T> / MustMake<T> / Make<T>FromBytes wrappers and their error paths; a File built in code
     rather than by ReadFile (nil vs empty slices, empty FileName, Fields map with gaps); Generate with PackageName
     and go_package both set or both missing; Validate's duplicate-name rules between enums / structs / unions /
     branch names / consts, also across imports and under PrivateDefinitions; Go reserved words and predeclared
     identifiers (type, func, len, error, string) as field / record / enum-member names; const forms (exponent
     floats, leading +, -0, very long literals, bool case, guid case); comments in odd places (between a type and a
     field name, inside map[...] brackets, after the last brace without newline); the tools' argument handling
     (several paths, a path twice, directories with sub-directories, non-.bop files, unreadable files, output path
     equal to input path, -o into a missing directory, stdin/stdout modes); struct fields named like generated
     methods (Size, MarshalBebop); enum members named like generated constants; two records whose Go names
     collide only after capitalisation.
Read the code first; look for shortcuts, special cases, counters, cursors, shared buffers, thresholds, lookup tables
keyed by type name, pending-state flags, and places where two code paths must agree.

For each change n in {{1,2}} write into {out}/<n>/ :
  - patch.diff    : `git diff` of the change against the worktree's HEAD (source files only, must apply with
                    `git apply` to a clean checkout of the same commit)
  - demo/         : a demonstration - a small Go program or test in its own module directory (go.mod with
                    `replace github.com/200sc/bebop => {wt}`; only the standard library and the repo itself are
                    available offline) or a shell script - plus demo/run.sh which runs it against {wt} AS IT CURRENTLY
                    IS and exits NON-ZERO when the property is violated, ZERO when it holds. It must FAIL with your
                    change applied and PASS on the clean worktree. If it needs generated code, have run.sh generate
                    it freshly from the worktree each time (e.g. `go run {wt}/main/bebopc-go -i x.bop -o out.go
                    --package p`, check the flags in main/bebopc-go/main.go).
  - README.md     : what the change is, why it breaks the property, exactly what is needed to make it manifest,
                    and the commands you ran with their observed results (suite with the change; demo with and
                    without the change).
Verify all of this yourself before finishing: apply patch -> build -> suite passes -> demo fails; revert -> demo
passes. Leave the worktree CLEAN (git checkout -- . && git clean -fdq) when you are done; the patches live only in
{out}. Do not commit anything. Your final message should summarise, per change: files touched, the trigger, and
the demo's output with and without the change.""")
