#!/usr/bin/env python3
"""Regenerates /verif/MANIFEST.json from the table below (kept as code so it is always valid)."""
import json, os, sys

ROOT = os.path.dirname(os.path.dirname(os.path.abspath(__file__)))
props = [json.loads(l) for l in open(os.path.join(ROOT, "properties.jsonl")) if l.strip()]
ids = [p["id"] for p in props]

BASELINE = ("cd /repo && GOFLAGS=-mod=mod GOPROXY=off GOSUMDB=off GOTOOLCHAIN=local "
            "go test -json -vet=off -count=1 -timeout 25m ./...")

# id -> (category, technique, text, note, design_ref)
CHECKS = {}

def add(i, cat, technique, text, note, ref):
    CHECKS[i] = dict(cat=cat, technique=technique, text=text, note=note, ref=ref)

add("C20", "model_checking",
    "bounded-exhaustive enumeration of values x buffer lengths x stream fault points on the real iohelp package, against an encoding/binary reference",
    "Every 8- and 16-bit value, every 32/64-bit value over a 5-lane byte alphabet plus all single-bit patterns, every buffer length 0..w+2 "
    "with guard bytes, every string cut point near the boundaries, and every failure offset x error style x 5 scratch primings of every "
    "stream reader are executed on the real code; oracle = independent little-endian/GUID/tick reference and a differential "
    "'result after a failed read must not depend on what an earlier read left behind' check.",
    "little-endian host; values outside the lane alphabet for 32/64-bit types are not enumerated; dates within UnixNano range",
    "DESIGN.md#c20")

NOT_YET = {}

def main():
    checks = []
    for i in ids:
        if i not in CHECKS:
            continue
        c = CHECKS[i]
        checks.append({
            "property_id": i,
            "quick_cmd": f"./check {i} --tier quick",
            "thorough_cmd": f"./check {i} --tier thorough",
            "evidence_file": f"/verif/evidence/{i}.json",
            "replay_cmd_template": f"./check {i} --replay {{path}}",
            "engine": "harness",
            "level_claimed": {"category": c["cat"], "text": c["text"], "design_ref": c["ref"]},
            "level_note": c["note"],
            "technique": c["technique"],
        })
    na = []
    for i in ids:
        if i not in CHECKS:
            na.append({"property_id": i, "reason": NOT_YET.get(i, "check not built yet in this session (planned, see DESIGN.md section 2); nothing is claimed for it")})
    m = {
        "version": 1,
        "setup_cmd": "./setup.sh",
        "hooks": {
            "guard": "verif",
            "enable": "no source hooks are committed in /repo: all instrumentation (map-iteration seam in runtime, os fault seam, yield points) is generated at check time from the current working tree and injected with `go build -overlay`; the build tag `verif` is reserved and unused",
            "baseline_off_cmd": BASELINE,
            "source_commits": [],
            "add_only": True,
        },
        "engines": [
            {"name": "harness", "path": "/verif/harness", "serves_properties": sorted(CHECKS.keys()),
             "kind_free_text": "hand-written bounded-exhaustive explorers (Go) driving the real packages from /repo's working tree; reference models in /verif share no code with /repo"},
        ],
        "checks": checks,
        "notes": "All checks rebuild from /repo's current working tree through `replace github.com/200sc/bebop => /repo`. Exit 0 = held (KNOWN-FINDING lines possible), 1 = VIOLATION, 2 = harness error (never a verdict).",
        "not_applicable": na,
    }
    json.dump(m, open(os.path.join(ROOT, "MANIFEST.json"), "w"), indent=1)
    print("MANIFEST.json:", len(checks), "checks,", len(na), "not claimed")

if __name__ == "__main__":
    main()
