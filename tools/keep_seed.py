#!/usr/bin/env python3
"""tools/keep_seed.py <ID> <n> <round> <caught_by,comma> <first_run: caught|missed> <needs_to_manifest...>
Archives a confirmed seeded change from /tmp/seed<round>-<ID>/<n> as /verif/seeded/<ID>-<k>/ (next free k)."""
import json, os, shutil, subprocess, sys

pid, n, rnd, caught, first = sys.argv[1:6]
needs = " ".join(sys.argv[6:])
src = f"/tmp/seed{rnd}-{pid}/{n}"
k = 1
while os.path.exists(f"/verif/seeded/{pid}-{k}"):
    k += 1
dst = f"/verif/seeded/{pid}-{k}"
shutil.copytree(src, dst, ignore=shutil.ignore_patterns("*.exe", "*.test", "out", "bin"))
# drop built binaries (ELF files) from demos
for root, _, files in os.walk(dst):
    for f in files:
        p = os.path.join(root, f)
        try:
            with open(p, "rb") as fh:
                if fh.read(4) == b"\x7fELF":
                    os.remove(p)
        except OSError:
            pass
head = subprocess.run(["git", "-C", "/repo", "rev-parse", "--short", "HEAD"], capture_output=True, text=True).stdout.strip()
meta = {
    "property": pid,
    "breaks": pid,
    "round": int(rnd),
    "needs_to_manifest": needs,
    "first_run": first,
    "caught_by": [c for c in caught.split(",") if c],
    "produced_by": "fresh sub-agent given only the property text and a scratch worktree",
    "confirmed": {
        "compiles": True,
        "existing_suite_passes": "go test -vet=off -count=1 ./... (tools/try_seed.sh)",
        "demo_fails_with_change_and_passes_without": "tools/confirm_seed.sh against the scratch worktree",
        "checks_run": "git -C /repo apply patch.diff; ./check <id> --tier quick; git -C /repo checkout -- .",
    },
    "base_commit": f"b6153f6 (applied to /repo at {head})",
}
json.dump(meta, open(f"{dst}/meta.json", "w"), indent=1)
print(dst)
