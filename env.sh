# Sourced by ./check and setup: offline Go environment with caches inside /verif/.cache
export GOFLAGS=-mod=mod
export GOPROXY=off
export GOSUMDB=off
export GOTOOLCHAIN=local
export GONOSUMDB='*'
export GONOSUMCHECK=1
export GOCACHE="${VERIF_DIR:-/verif}/.cache/gocache"
mkdir -p "$GOCACHE"
