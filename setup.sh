#!/bin/bash
# Run once after a fresh restore, offline: pre-builds the harness binary of every check claimed in
# MANIFEST.json and the quick-tier codec workers into /verif/.cache, so that the first check does not
# pay the cold-cache compile. Everything comes from files on disk.
set -u
export VERIF_DIR="$(cd "$(dirname "$0")" && pwd)"
. "$VERIF_DIR/env.sh"
mkdir -p "$VERIF_DIR/.cache/bin" "$VERIF_DIR/evidence"
cd "$VERIF_DIR" || exit 1
rc=0
ids=$(python3 -c "import json;print(' '.join(c['property_id'] for c in json.load(open('MANIFEST.json'))['checks']))")
for id in $ids; do
  if ! ./check "$id" --build-only; then
    echo "setup: build for $id failed" >&2
    rc=1
  fi
done
if [ -x "$VERIF_DIR/.cache/bin/codec" ]; then
  "$VERIF_DIR/.cache/bin/codec" -prepare || rc=1
fi
exit $rc
