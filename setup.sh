#!/bin/bash
# Run once after a fresh restore, offline: pre-builds every harness binary into /verif/.cache so the
# first check does not pay the cold-cache compile. Everything comes from files on disk.
set -u
export VERIF_DIR="$(cd "$(dirname "$0")" && pwd)"
. "$VERIF_DIR/env.sh"
mkdir -p "$VERIF_DIR/.cache/bin" "$VERIF_DIR/evidence"
cd "$VERIF_DIR/harness" || exit 1
rc=0
for d in cmd/*/; do
  n=$(basename "$d")
  if ! go build -o "$VERIF_DIR/.cache/bin/$n" "./cmd/$n"; then
    echo "setup: build of cmd/$n failed" >&2
    rc=1
  fi
done
if [ -x "$VERIF_DIR/.cache/bin/codec" ]; then
  "$VERIF_DIR/.cache/bin/codec" -prepare || rc=1
fi
exit $rc
