//go:build go1.22

package overlay

// Two small whole-package analyses that keep provably private memory out of class S.
//
//   - init-only package variables: an unexported package-level variable whose every mention is a
//     plain read (v[k] of a non-reference element outside assignment targets, range v, len(v)) is never
//     written after package initialisation and never aliased, so reads of it cannot conflict with
//     anything. It is not a shared root and mentions of it are class L.
//   - owned variadic parameters: a variadic parameter p of an unexported function that is only ever
//     called directly, with explicit elements or with the forwarded variadic parameter of another such
//     function, and that is only indexed, ranged, len'd or forwarded inside the function, denotes a slice
//     freshly allocated for this call chain. Reads of p are local.

import (
	"go/ast"
	"go/token"
	"go/types"
)

type pkgFacts struct {
	initOnly map[*types.Var]bool
	owned    map[*types.Var]bool // variadic parameters
}

func walkStack(files []*ast.File, f func(n ast.Node, stack []ast.Node)) {
	for _, file := range files {
		var stack []ast.Node
		ast.Inspect(file, func(n ast.Node) bool {
			if n == nil {
				stack = stack[:len(stack)-1]
				return true
			}
			stack = append(stack, n)
			f(n, stack)
			return true
		})
	}
}

func isWriteContext(e ast.Expr, parent ast.Node) bool {
	switch p := parent.(type) {
	case *ast.AssignStmt:
		for _, l := range p.Lhs {
			if l == e {
				return true
			}
		}
	case *ast.IncDecStmt:
		return p.X == e
	case *ast.UnaryExpr:
		return p.Op == token.AND
	case *ast.SelectorExpr, *ast.IndexExpr, *ast.SliceExpr, *ast.StarExpr:
		return true // something is reached through the element: give up
	case *ast.RangeStmt:
		return p.Key == e || p.Value == e
	}
	return false
}

func elemOf(t types.Type) []types.Type {
	if t == nil {
		return nil
	}
	switch u := t.Underlying().(type) {
	case *types.Map:
		return []types.Type{u.Key(), u.Elem()}
	case *types.Slice:
		return []types.Type{u.Elem()}
	case *types.Array:
		return []types.Type{u.Elem()}
	}
	return nil
}

func plainElems(t types.Type) bool {
	es := elemOf(t)
	if es == nil {
		return false
	}
	for _, e := range es {
		if b, ok := e.Underlying().(*types.Basic); ok && b.Info()&types.IsString != 0 {
			continue
		}
		if isRef(e) {
			return false
		}
	}
	return true
}

// readOnlyUse reports whether the identifier at the top of the stack is used as a plain read of a container.
func readOnlyUse(info *types.Info, id *ast.Ident, stack []ast.Node, t types.Type) bool {
	if len(stack) < 2 {
		return false
	}
	parent := stack[len(stack)-2]
	switch p := parent.(type) {
	case *ast.IndexExpr:
		if p.X != id || !plainElems(t) {
			return false
		}
		if len(stack) >= 3 && isWriteContext(p, stack[len(stack)-3]) {
			return false
		}
		return true
	case *ast.RangeStmt:
		return p.X == id && plainElems(t)
	case *ast.CallExpr:
		if f, ok := p.Fun.(*ast.Ident); ok {
			if b, ok := info.Uses[f].(*types.Builtin); ok && (b.Name() == "len" || b.Name() == "cap") {
				return true
			}
		}
	}
	return false
}

func analyse(pkg *types.Package, info *types.Info, files []*ast.File) *pkgFacts {
	facts := &pkgFacts{initOnly: map[*types.Var]bool{}, owned: map[*types.Var]bool{}}
	scope := pkg.Scope()
	for _, name := range scope.Names() {
		if v, ok := scope.Lookup(name).(*types.Var); ok && !v.Exported() {
			facts.initOnly[v] = true
		}
	}
	// variadic candidates
	type cand struct {
		fn    *types.Func
		param *types.Var
		deps  []*types.Func
		ok    bool
	}
	cands := map[*types.Func]*cand{}
	byParam := map[*types.Var]*cand{}
	for _, file := range files {
		for _, d := range file.Decls {
			fd, ok := d.(*ast.FuncDecl)
			if !ok || fd.Body == nil || fd.Name.IsExported() {
				continue
			}
			fn, _ := info.Defs[fd.Name].(*types.Func)
			if fn == nil {
				continue
			}
			sig := fn.Type().(*types.Signature)
			if !sig.Variadic() {
				continue
			}
			p := sig.Params().At(sig.Params().Len() - 1)
			c := &cand{fn: fn, param: p, ok: plainElems(p.Type())}
			cands[fn] = c
			byParam[p] = c
		}
	}
	walkStack(files, func(n ast.Node, stack []ast.Node) {
		id, ok := n.(*ast.Ident)
		if !ok {
			return
		}
		switch o := info.Uses[id].(type) {
		case *types.Var:
			if _, tracked := facts.initOnly[o]; tracked {
				if !readOnlyUse(info, id, stack, o.Type()) {
					facts.initOnly[o] = false
				}
			}
			if c := byParam[o]; c != nil {
				if readOnlyUse(info, id, stack, o.Type()) {
					return
				}
				// forwarded as the variadic argument of a direct call of another candidate?
				if len(stack) >= 2 {
					if call, ok := stack[len(stack)-2].(*ast.CallExpr); ok && call.Ellipsis.IsValid() && len(call.Args) > 0 && call.Args[len(call.Args)-1] == id {
						if callee := calleeOf(info, call); callee != nil && cands[callee] != nil {
							c.deps = append(c.deps, callee)
							return
						}
					}
				}
				c.ok = false
			}
		case *types.Func:
			c := cands[o]
			if c == nil {
				return
			}
			// must be the function of a direct call
			var fun ast.Node = id
			k := len(stack) - 2
			if k >= 0 {
				if sel, ok := stack[k].(*ast.SelectorExpr); ok && sel.Sel == id {
					fun = sel
					k--
				}
			}
			if k < 0 {
				c.ok = false
				return
			}
			call, ok := stack[k].(*ast.CallExpr)
			if !ok || call.Fun != fun {
				c.ok = false
				return
			}
			if call.Ellipsis.IsValid() {
				last, ok := call.Args[len(call.Args)-1].(*ast.Ident)
				if !ok {
					c.ok = false
					return
				}
				pv, _ := info.Uses[last].(*types.Var)
				if src := byParam[pv]; src != nil {
					c.deps = append(c.deps, src.fn) // fresh only if the forwarding function's slice is
				} else {
					c.ok = false
				}
			}
		}
	})
	for changed := true; changed; {
		changed = false
		for _, c := range cands {
			if !c.ok {
				continue
			}
			for _, d := range c.deps {
				if dc := cands[d]; dc == nil || !dc.ok {
					c.ok = false
					changed = true
					break
				}
			}
		}
	}
	for _, c := range cands {
		if c.ok {
			facts.owned[c.param] = true
		}
	}
	for v, ok := range facts.initOnly {
		if !ok {
			delete(facts.initOnly, v)
		}
	}
	return facts
}

func calleeOf(info *types.Info, call *ast.CallExpr) *types.Func {
	switch f := ast.Unparen(call.Fun).(type) {
	case *ast.Ident:
		fn, _ := info.Uses[f].(*types.Func)
		return fn
	case *ast.SelectorExpr:
		fn, _ := info.Uses[f.Sel].(*types.Func)
		return fn
	}
	return nil
}
