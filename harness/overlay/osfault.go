package overlay

import (
	"fmt"
	"os"
	"path/filepath"
	"strings"
)

// osFaultRenames lists, per file of package os, the function headers that are renamed to
// verifOrig<Name>; the wrappers carrying the original names live in the generated verif_hook.go.
// Every header must occur exactly once in the installed source or OSFaultSeam fails.
var osFaultRenames = map[string][][2]string{
	"file.go": {
		{"func (f *File) ReadFrom(r io.Reader) (n int64, err error) {", "func (f *File) verifOrigReadFrom(r io.Reader) (n int64, err error) {"},
		{"func (f *File) Write(b []byte) (n int, err error) {", "func (f *File) verifOrigWrite(b []byte) (n int, err error) {"},
		{"func (f *File) WriteAt(b []byte, off int64) (n int, err error) {", "func (f *File) verifOrigWriteAt(b []byte, off int64) (n int, err error) {"},
		{"func Mkdir(name string, perm FileMode) error {", "func verifOrigMkdir(name string, perm FileMode) error {"},
		{"func OpenFile(name string, flag int, perm FileMode) (*File, error) {", "func verifOrigOpenFile(name string, flag int, perm FileMode) (*File, error) {"},
		{"func Rename(oldpath, newpath string) error {", "func verifOrigRename(oldpath, newpath string) error {"},
		{"func Chmod(name string, mode FileMode) error {", "func verifOrigChmod(name string, mode FileMode) error {"},
		{"func (f *File) Chmod(mode FileMode) error {", "func (f *File) verifOrigChmod(mode FileMode) error {"},
	},
	"file_posix.go": {
		{"func (f *File) Close() error {", "func (f *File) verifOrigClose() error {"},
		{"func (f *File) Truncate(size int64) error {", "func (f *File) verifOrigTruncate(size int64) error {"},
		{"func (f *File) Sync() error {", "func (f *File) verifOrigSync() error {"},
	},
	"file_unix.go": {
		{"func Truncate(name string, size int64) error {", "func verifOrigTruncateName(name string, size int64) error {"},
		{"func Remove(name string) error {", "func verifOrigRemove(name string) error {"},
		{"func Link(oldname, newname string) error {", "func verifOrigLink(oldname, newname string) error {"},
		{"func Symlink(oldname, newname string) error {", "func verifOrigSymlink(oldname, newname string) error {"},
	},
	"path.go": {
		{"func RemoveAll(path string) error {", "func verifOrigRemoveAll(path string) error {"},
	},
}

// osFaultRequired are identifiers the hook file relies on; they must be present in the installed
// package os (checked textually) so that a Go upgrade fails loudly here instead of at link time.
var osFaultRequired = map[string][]string{
	"file.go":       {"func genericReadFrom(f *File, r io.Reader) (int64, error) {", "func (f *File) wrapErr(op string, err error) error {"},
	"file_posix.go": {"func (f *File) checkValid(op string) error {"},
	"file_unix.go":  {"type file struct {", "\tname        string"},
}

// OSFaultOps documents which package-os entry points are numbered by the seam (for NOTES/evidence).
var OSFaultOps = []string{
	"OpenFile with any of O_WRONLY|O_RDWR|O_APPEND|O_CREATE|O_TRUNC (hence Create, WriteFile, CreateTemp)",
	"(*File).Write / WriteString", "(*File).WriteAt", "(*File).ReadFrom (forced onto the Write path, one numbered op per chunk)",
	"(*File).Close of a file opened with write flags", "(*File).Sync", "(*File).Truncate", "(*File).Chmod",
	"Truncate", "Rename", "Remove", "RemoveAll (one op)", "Chmod", "Mkdir (hence MkdirAll, MkdirTemp)", "Link", "Symlink",
}

// OSFaultSeam adds the file-operation fault seam to ov. Package os of the installed GOROOT is
// patched (renames above) and a new file verif_hook.go is added to it. In a binary built with the
// overlay every mutating file operation whose path lies below $VERIF_FAULT_DIR is numbered 1,2,...;
// one line "k<TAB>op<TAB>path<TAB>fault<TAB>path2" per numbered operation is appended to
// $VERIF_FAULT_LOG, and the operations listed in $VERIF_FAULT_AT (comma separated indices) suffer
// the fault of the same position in $VERIF_FAULT_KIND:
//
//	enospc | eio | eacces | efbig   the operation is not performed and fails with that errno
//	torn                            (write ops) the first half of the buffer is written, then ENOSPC
//	crash                           the process is killed (SIGKILL) before the operation
//	crash-after-torn                (write ops) the first half of the buffer is written, then SIGKILL
//
// Without VERIF_FAULT_DIR the binary behaves like an unpatched one. Patched sources are written
// below dir (which must not be a Go package directory).
func OSFaultSeam(ov *File, dir string) error {
	gr, err := GOROOT()
	if err != nil {
		return err
	}
	osdir := filepath.Join(gr, "src", "os")
	if err := os.MkdirAll(dir, 0o755); err != nil {
		return err
	}
	if ov.Replace == nil {
		ov.Replace = map[string]string{}
	}
	files := map[string]string{}
	load := func(name string) (string, error) {
		if s, ok := files[name]; ok {
			return s, nil
		}
		b, err := os.ReadFile(filepath.Join(osdir, name))
		if err != nil {
			return "", fmt.Errorf("os fault seam: %w", err)
		}
		files[name] = string(b)
		return files[name], nil
	}
	for name, pats := range osFaultRequired {
		src, err := load(name)
		if err != nil {
			return err
		}
		for _, p := range pats {
			if !strings.Contains(src, p) {
				return fmt.Errorf("os fault seam: required text %q not found in %s", p, filepath.Join(osdir, name))
			}
		}
	}
	for name, pats := range osFaultRenames {
		src, err := load(name)
		if err != nil {
			return err
		}
		for _, p := range pats {
			if strings.Count(src, p[0]) != 1 {
				return fmt.Errorf("os fault seam: pattern %q not found exactly once in %s", p[0], filepath.Join(osdir, name))
			}
			src = strings.Replace(src, p[0], p[1], 1)
		}
		out := filepath.Join(dir, "os_"+name+".txt")
		if err := os.WriteFile(out, []byte(src), 0o644); err != nil {
			return err
		}
		ov.Replace[filepath.Join(osdir, name)] = out
	}
	if _, err := os.Stat(filepath.Join(osdir, "verif_hook.go")); err == nil {
		return fmt.Errorf("os fault seam: %s already exists in the installed GOROOT", filepath.Join(osdir, "verif_hook.go"))
	}
	hook := filepath.Join(dir, "os_verif_hook.go.txt")
	if err := os.WriteFile(hook, []byte(osFaultHook), 0o644); err != nil {
		return err
	}
	ov.Replace[filepath.Join(osdir, "verif_hook.go")] = hook
	return nil
}

// osFaultHook is the file added to package os.
const osFaultHook = `// Code generated by verif/overlay (OSFaultSeam); added to package os through go build -overlay.

//go:build unix

package os

import (
	"io"
	"sync"
	"syscall"
)

const (
	verifActNone      = iota
	verifActErr       // do not perform, fail with the errno
	verifActTorn      // perform with half the buffer, then fail with the errno
	verifActTornCrash // perform with half the buffer, then die
)

var verifState struct {
	mu       sync.Mutex
	inited   bool
	on       bool
	dir      string
	cwd      string
	at       []int
	kind     []string
	logfd    int
	n        int
	suppress int
	writable map[*file]bool
}

func verifSplit(s string) []string {
	var out []string
	start := 0
	for i := 0; i <= len(s); i++ {
		if i == len(s) || s[i] == ',' {
			if i > start {
				out = append(out, s[start:i])
			}
			start = i + 1
		}
	}
	return out
}

func verifInit() {
	st := &verifState
	st.inited = true
	st.logfd = -1
	st.writable = map[*file]bool{}
	d, ok := syscall.Getenv("VERIF_FAULT_DIR")
	if !ok || d == "" {
		return
	}
	st.dir = verifClean(d)
	st.on = true
	st.cwd, _ = syscall.Getwd()
	if a, ok := syscall.Getenv("VERIF_FAULT_AT"); ok {
		for _, s := range verifSplit(a) {
			v := 0
			for i := 0; i < len(s); i++ {
				if s[i] < '0' || s[i] > '9' {
					v = -1
					break
				}
				v = v*10 + int(s[i]-'0')
			}
			st.at = append(st.at, v)
		}
	}
	if k, ok := syscall.Getenv("VERIF_FAULT_KIND"); ok {
		st.kind = verifSplit(k)
	}
	if l, ok := syscall.Getenv("VERIF_FAULT_LOG"); ok && l != "" {
		fd, err := syscall.Open(l, syscall.O_WRONLY|syscall.O_APPEND|syscall.O_CREAT|syscall.O_CLOEXEC, 0o644)
		if err == nil {
			st.logfd = fd
		}
	}
}

// verifClean is a lexical path clean for absolute paths (package path/filepath imports os).
func verifClean(p string) string {
	var parts []string
	start := 0
	for i := 0; i <= len(p); i++ {
		if i == len(p) || p[i] == '/' {
			seg := p[start:i]
			start = i + 1
			switch seg {
			case "", ".":
			case "..":
				if len(parts) > 0 {
					parts = parts[:len(parts)-1]
				}
			default:
				parts = append(parts, seg)
			}
		}
	}
	out := ""
	for _, s := range parts {
		out += "/" + s
	}
	if out == "" {
		out = "/"
	}
	return out
}

// verifAbs returns the cleaned absolute form of p and whether it lies below the fault directory.
// Caller holds the lock.
func verifAbs(p string) (string, bool) {
	st := &verifState
	if p == "" {
		return p, false
	}
	if p[0] != '/' {
		p = st.cwd + "/" + p
	}
	p = verifClean(p)
	if p == st.dir {
		return p, true
	}
	if len(p) > len(st.dir) && p[:len(st.dir)] == st.dir && p[len(st.dir)] == '/' {
		return p, true
	}
	return p, false
}

func verifItoa(v int) string {
	if v == 0 {
		return "0"
	}
	var b [20]byte
	i := len(b)
	for v > 0 {
		i--
		b[i] = byte('0' + v%10)
		v /= 10
	}
	return string(b[i:])
}

func verifDie() {
	_ = syscall.Kill(syscall.Getpid(), syscall.SIGKILL)
	syscall.Exit(137)
}

func verifTracked(p string) bool {
	st := &verifState
	st.mu.Lock()
	defer st.mu.Unlock()
	if !st.inited {
		verifInit()
	}
	if !st.on {
		return false
	}
	_, ok := verifAbs(p)
	return ok
}

// verifOp numbers one mutating operation (if its path is below the fault directory) and decides
// its fate. write reports whether the operation carries a buffer (torn writes apply).
func verifOp(op, path, path2 string, write bool) (int, error) {
	st := &verifState
	st.mu.Lock()
	defer st.mu.Unlock()
	if !st.inited {
		verifInit()
	}
	if !st.on || st.suppress > 0 {
		return verifActNone, nil
	}
	abs, ok := verifAbs(path)
	abs2 := ""
	if path2 != "" {
		var ok2 bool
		abs2, ok2 = verifAbs(path2)
		ok = ok || ok2
	}
	if !ok {
		return verifActNone, nil
	}
	st.n++
	kind := ""
	for i, k := range st.at {
		if k == st.n && i < len(st.kind) {
			kind = st.kind[i]
		}
	}
	act, errno, shown := verifActNone, syscall.Errno(0), kind
	switch kind {
	case "":
		shown = "-"
	case "enospc":
		act, errno = verifActErr, syscall.ENOSPC
	case "eio":
		act, errno = verifActErr, syscall.EIO
	case "eacces":
		act, errno = verifActErr, syscall.EACCES
	case "efbig":
		act, errno = verifActErr, syscall.EFBIG
	case "torn":
		if write {
			act, errno = verifActTorn, syscall.ENOSPC
		} else {
			shown = "NA:" + kind
		}
	case "crash-after-torn":
		if write {
			act = verifActTornCrash
		} else {
			shown = "NA:" + kind
		}
	case "crash":
	default:
		shown = "NA:" + kind
	}
	if st.logfd >= 0 {
		line := verifItoa(st.n) + "\t" + op + "\t" + abs + "\t" + shown + "\t" + abs2 + "\n"
		_, _ = syscall.Write(st.logfd, []byte(line))
	}
	if kind == "crash" {
		verifDie()
	}
	if act == verifActNone {
		return act, nil
	}
	return act, errno
}

func verifSuppress(d int) {
	verifState.mu.Lock()
	verifState.suppress += d
	verifState.mu.Unlock()
}

func verifMark(f *File, on bool) {
	st := &verifState
	st.mu.Lock()
	if on {
		if _, ok := verifAbs(f.name); ok {
			st.writable[f.file] = true
		}
	} else {
		delete(st.writable, f.file)
	}
	st.mu.Unlock()
}

func verifWritable(f *File) bool {
	st := &verifState
	st.mu.Lock()
	defer st.mu.Unlock()
	return st.writable[f.file]
}

func verifOpenName(flag int) string {
	s := "open("
	switch {
	case flag&O_RDWR != 0:
		s += "rdwr"
	case flag&O_WRONLY != 0:
		s += "wronly"
	default:
		s += "rdonly"
	}
	if flag&O_APPEND != 0 {
		s += "+append"
	}
	if flag&O_CREATE != 0 {
		s += "+create"
	}
	if flag&O_EXCL != 0 {
		s += "+excl"
	}
	if flag&O_TRUNC != 0 {
		s += "+trunc"
	}
	return s + ")"
}

func OpenFile(name string, flag int, perm FileMode) (*File, error) {
	mut := flag&(O_WRONLY|O_RDWR|O_APPEND|O_CREATE|O_TRUNC) != 0
	if mut {
		if act, e := verifOp(verifOpenName(flag), name, "", false); act != verifActNone {
			return nil, &PathError{Op: "open", Path: name, Err: e}
		}
	}
	f, err := verifOrigOpenFile(name, flag, perm)
	if err == nil && mut {
		verifMark(f, true)
	}
	return f, err
}

func (f *File) Write(b []byte) (n int, err error) {
	if f != nil && f.file != nil {
		act, e := verifOp("write", f.name, "", true)
		switch act {
		case verifActErr:
			return 0, f.wrapErr("write", e)
		case verifActTorn:
			n, _ = f.verifOrigWrite(b[:len(b)/2])
			return n, f.wrapErr("write", e)
		case verifActTornCrash:
			_, _ = f.verifOrigWrite(b[:len(b)/2])
			verifDie()
		}
	}
	return f.verifOrigWrite(b)
}

func (f *File) WriteAt(b []byte, off int64) (n int, err error) {
	if f != nil && f.file != nil {
		act, e := verifOp("writeat", f.name, "", true)
		switch act {
		case verifActErr:
			return 0, f.wrapErr("write", e)
		case verifActTorn:
			n, _ = f.verifOrigWriteAt(b[:len(b)/2], off)
			return n, f.wrapErr("write", e)
		case verifActTornCrash:
			_, _ = f.verifOrigWriteAt(b[:len(b)/2], off)
			verifDie()
		}
	}
	return f.verifOrigWriteAt(b, off)
}

// ReadFrom: for tracked files the kernel fast paths (copy_file_range, splice, sendfile) are bypassed so
// that every chunk goes through Write and is numbered there.
func (f *File) ReadFrom(r io.Reader) (n int64, err error) {
	if f != nil && f.file != nil && verifTracked(f.name) {
		if err := f.checkValid("write"); err != nil {
			return 0, err
		}
		return genericReadFrom(f, r)
	}
	return f.verifOrigReadFrom(r)
}

func (f *File) Close() error {
	if f != nil && f.file != nil && verifWritable(f) {
		if act, e := verifOp("close", f.name, "", false); act != verifActNone {
			return &PathError{Op: "close", Path: f.name, Err: e}
		}
		verifMark(f, false)
	}
	return f.verifOrigClose()
}

func (f *File) Sync() error {
	if f != nil && f.file != nil {
		if act, e := verifOp("sync", f.name, "", false); act != verifActNone {
			return f.wrapErr("sync", e)
		}
	}
	return f.verifOrigSync()
}

func (f *File) Truncate(size int64) error {
	if f != nil && f.file != nil {
		if act, e := verifOp("ftruncate", f.name, "", false); act != verifActNone {
			return f.wrapErr("truncate", e)
		}
	}
	return f.verifOrigTruncate(size)
}

func (f *File) Chmod(mode FileMode) error {
	if f != nil && f.file != nil {
		if act, e := verifOp("fchmod", f.name, "", false); act != verifActNone {
			return f.wrapErr("chmod", e)
		}
	}
	return f.verifOrigChmod(mode)
}

func Truncate(name string, size int64) error {
	if act, e := verifOp("truncate", name, "", false); act != verifActNone {
		return &PathError{Op: "truncate", Path: name, Err: e}
	}
	return verifOrigTruncateName(name, size)
}

func Rename(oldpath, newpath string) error {
	if act, e := verifOp("rename", oldpath, newpath, false); act != verifActNone {
		return &LinkError{Op: "rename", Old: oldpath, New: newpath, Err: e}
	}
	return verifOrigRename(oldpath, newpath)
}

func Remove(name string) error {
	if act, e := verifOp("remove", name, "", false); act != verifActNone {
		return &PathError{Op: "remove", Path: name, Err: e}
	}
	return verifOrigRemove(name)
}

func RemoveAll(path string) error {
	if act, e := verifOp("removeall", path, "", false); act != verifActNone {
		return &PathError{Op: "RemoveAll", Path: path, Err: e}
	}
	verifSuppress(1)
	defer verifSuppress(-1)
	return verifOrigRemoveAll(path)
}

func Chmod(name string, mode FileMode) error {
	if act, e := verifOp("chmod", name, "", false); act != verifActNone {
		return &PathError{Op: "chmod", Path: name, Err: e}
	}
	return verifOrigChmod(name, mode)
}

func Mkdir(name string, perm FileMode) error {
	if act, e := verifOp("mkdir", name, "", false); act != verifActNone {
		return &PathError{Op: "mkdir", Path: name, Err: e}
	}
	return verifOrigMkdir(name, perm)
}

func Link(oldname, newname string) error {
	if act, e := verifOp("link", oldname, newname, false); act != verifActNone {
		return &LinkError{Op: "link", Old: oldname, New: newname, Err: e}
	}
	return verifOrigLink(oldname, newname)
}

func Symlink(oldname, newname string) error {
	if act, e := verifOp("symlink", newname, "", false); act != verifActNone {
		return &LinkError{Op: "symlink", Old: oldname, New: newname, Err: e}
	}
	return verifOrigSymlink(oldname, newname)
}
`
