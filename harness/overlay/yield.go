//go:build go1.22

package overlay

// Yield seam: a build-time AST rewriter that inserts scheduling points (verif/sched.Yield /
// YieldL) into the non-test files of one package of the repository under test. Nothing is
// stored: the rewriter runs on the current working tree at every check and its output is handed
// to `go build -overlay`, so the repository itself is never modified.
//
// Site selection (statement granularity):
//   - a statement gets a yield when its own expressions (not nested blocks, not function-literal
//     bodies, which are handled on their own) contain a memory access that is not provably a read
//     of a local variable: a field selection through a pointer, an index into a slice/map/
//     pointed-to array, a pointer dereference, a range over a slice/map, append/copy/delete/clear,
//     len of a map, a conversion of a slice,
//     an implicit receiver load (*p).M(), a mention of a package-level variable, a call of a
//     function outside the package (or of a func value / interface method) that receives a
//     reference, a channel operation; and additionally (purely syntactic rule) every assignment or
//     ++/-- whose target is a selector/index/star expression even when it is a local struct copy.
//   - loops get a second yield at the top of every iteration when their header is such an access.
//   - class S ("may be shared"): the accessed memory has a type that is reachable from a shared
//     root - the package-level variables and the File type handed to concurrent calls - or is reached
//     through a pointer to a non-struct, or is a package-level variable, an os.* call or a channel.
//     If a shared root reaches an interface, func or channel type the analysis gives up and every
//     site becomes class S.
//   - class L ("type-local"): every other site. Still a scheduling point in the passes that
//     enable L sites.
//
// Being over-inclusive only costs exploration time.

import (
	"bytes"
	"encoding/json"
	"fmt"
	"go/ast"
	"go/importer"
	"go/parser"
	"go/printer"
	"go/token"
	"go/types"
	"io"
	"os"
	"os/exec"
	"path/filepath"
	"sort"
	"strconv"
	"strings"
)

// YieldSite describes one inserted scheduling point.
type YieldSite struct {
	ID    int    `json:"id"`
	Class string `json:"class"` // "S" or "L"
	Pos   string `json:"pos"`   // file.go:line in the repository
	Func  string `json:"func"`
	Kind  string `json:"kind"` // stmt, loop-iter
	Why   string `json:"why"`
}

// YieldInfo is the result of the rewrite.
type YieldInfo struct {
	Sites       []YieldSite `json:"sites"`
	NS          int         `json:"n_s"`
	NL          int         `json:"n_l"`
	Files       int         `json:"files"`
	Statements  int         `json:"statements"` // statements examined
	Opaque      bool        `json:"opaque"`     // shared roots reach interface/func/chan: every site is class S
	SharedTypes []string    `json:"shared_types"`
	Unsupported []string    `json:"unsupported"` // constructs the cooperative scheduler cannot model
	// package-level variables proven never written after init (not shared roots; mentions are class L)
	InitOnlyVars []string `json:"init_only_vars"`
	// variadic parameters proven to denote call-private slices (reads are local)
	OwnedVariadics []string `json:"owned_variadics"`
}

const schedAlias = "verifsched"

type listPkg struct {
	ImportPath string
	Dir        string
	Export     string
	GoFiles    []string
}

// YieldSeam rewrites package pkgPath (resolved from harnessDir's module) and adds the rewritten
// files to ov. sharedRoots names the package-level types whose values are shared between calls.
func YieldSeam(ov *File, dir, harnessDir, pkgPath, schedPath string, sharedRoots []string) (*YieldInfo, error) {
	cmd := exec.Command("go", "list", "-export", "-deps", "-json=ImportPath,Dir,Export,GoFiles", pkgPath)
	cmd.Dir = harnessDir
	var stderr bytes.Buffer
	cmd.Stderr = &stderr
	out, err := cmd.Output()
	if err != nil {
		return nil, fmt.Errorf("yield seam: go list failed: %v\n%s", err, stderr.String())
	}
	exports := map[string]string{}
	var target *listPkg
	dec := json.NewDecoder(bytes.NewReader(out))
	for {
		var p listPkg
		if err := dec.Decode(&p); err == io.EOF {
			break
		} else if err != nil {
			return nil, fmt.Errorf("yield seam: go list output: %v", err)
		}
		exports[p.ImportPath] = p.Export
		if p.ImportPath == pkgPath {
			q := p
			target = &q
		}
	}
	if target == nil {
		return nil, fmt.Errorf("yield seam: package %s not listed", pkgPath)
	}
	fset := token.NewFileSet()
	var files []*ast.File
	var paths []string
	for _, name := range target.GoFiles {
		if strings.HasSuffix(name, "_test.go") {
			continue
		}
		p := filepath.Join(target.Dir, name)
		src, err := os.ReadFile(p)
		if err != nil {
			return nil, err
		}
		f, err := parser.ParseFile(fset, p, src, parser.ParseComments)
		if err != nil {
			return nil, fmt.Errorf("yield seam: %v", err)
		}
		for _, cg := range f.Comments {
			for _, c := range cg.List {
				if strings.HasPrefix(c.Text, "//go:") && !strings.HasPrefix(c.Text, "//go:build") || strings.HasPrefix(c.Text, "//line") {
					return nil, fmt.Errorf("yield seam: %s carries the directive %q, which the rewriter would drop", p, c.Text)
				}
			}
		}
		files = append(files, f)
		paths = append(paths, p)
	}
	imp := importer.ForCompiler(fset, "gc", func(path string) (io.ReadCloser, error) {
		e := exports[path]
		if e == "" {
			return nil, fmt.Errorf("no export data for %s", path)
		}
		return os.Open(e)
	})
	info := &types.Info{
		Types:      map[ast.Expr]types.TypeAndValue{},
		Uses:       map[*ast.Ident]types.Object{},
		Defs:       map[*ast.Ident]types.Object{},
		Selections: map[*ast.SelectorExpr]*types.Selection{},
	}
	conf := types.Config{Importer: imp}
	pkg, err := conf.Check(pkgPath, fset, files, info)
	if err != nil {
		return nil, fmt.Errorf("yield seam: type check of %s: %v", pkgPath, err)
	}

	rw := &rewriter{fset: fset, info: info, pkg: pkg, out: &YieldInfo{}, facts: analyse(pkg, info, files)}
	// shared roots
	scope := pkg.Scope()
	for _, name := range scope.Names() {
		if v, ok := scope.Lookup(name).(*types.Var); ok {
			if rw.facts.initOnly[v] {
				rw.out.InitOnlyVars = append(rw.out.InitOnlyVars, name)
				continue
			}
			rw.addReach(v.Type())
		}
	}
	for v := range rw.facts.owned {
		rw.out.OwnedVariadics = append(rw.out.OwnedVariadics, v.Name())
	}
	sort.Strings(rw.out.OwnedVariadics)
	for _, name := range sharedRoots {
		o := scope.Lookup(name)
		if o == nil {
			return nil, fmt.Errorf("yield seam: shared root type %s not found in %s", name, pkgPath)
		}
		rw.addReach(o.Type())
	}
	for _, t := range rw.reach {
		rw.out.SharedTypes = append(rw.out.SharedTypes, types.TypeString(t, types.RelativeTo(pkg)))
	}
	rw.out.Opaque = rw.opaque
	for _, f := range files {
		for _, is := range f.Imports {
			p, _ := strconv.Unquote(is.Path.Value)
			if p == "sync" || p == "sync/atomic" {
				rw.unsupported(is.Pos(), "import of "+p+" (blocking/atomic synchronisation is not modelled)")
			}
		}
	}

	if err := os.MkdirAll(dir, 0o755); err != nil {
		return nil, err
	}
	if ov.Replace == nil {
		ov.Replace = map[string]string{}
	}
	for i, f := range files {
		before := len(rw.out.Sites)
		for _, d := range f.Decls {
			fd, ok := d.(*ast.FuncDecl)
			if !ok {
				// package-level initialisers run before main; function literals in them are still rewritten
				rw.fn = "init"
				ast.Inspect(d, rw.funcLits)
				continue
			}
			if fd.Body == nil {
				continue
			}
			rw.fn = fd.Name.Name
			if fd.Recv != nil && len(fd.Recv.List) == 1 {
				t := fd.Recv.List[0].Type
				if st, ok := t.(*ast.StarExpr); ok {
					t = st.X
				}
				if id, ok := t.(*ast.Ident); ok {
					rw.fn = id.Name + "." + fd.Name.Name
				}
			}
			fd.Body.List = rw.stmts(fd.Body.List)
		}
		if len(rw.out.Sites) == before {
			continue
		}
		rw.out.Files++
		// build constraints survive, every other comment is dropped (positions of inserted nodes are unknown)
		head := ""
		for _, cg := range f.Comments {
			if cg.End() < f.Package {
				for _, c := range cg.List {
					if strings.HasPrefix(c.Text, "//go:build") {
						head += c.Text + "\n\n"
					}
				}
			}
		}
		f.Comments = nil
		f.Doc = nil
		f.Decls = append([]ast.Decl{&ast.GenDecl{Tok: token.IMPORT, Specs: []ast.Spec{&ast.ImportSpec{
			Name: ast.NewIdent(schedAlias), Path: &ast.BasicLit{Kind: token.STRING, Value: strconv.Quote(schedPath)}}}}}, f.Decls...)
		var buf bytes.Buffer
		buf.WriteString(head)
		if err := printer.Fprint(&buf, fset, f); err != nil {
			return nil, fmt.Errorf("yield seam: print %s: %v", paths[i], err)
		}
		if _, err := parser.ParseFile(token.NewFileSet(), paths[i], buf.Bytes(), 0); err != nil {
			return nil, fmt.Errorf("yield seam: rewritten %s does not parse: %v", paths[i], err)
		}
		outp := filepath.Join(dir, "yield_"+filepath.Base(paths[i])+".txt")
		if err := os.WriteFile(outp, buf.Bytes(), 0o644); err != nil {
			return nil, err
		}
		ov.Replace[paths[i]] = outp
	}
	for _, s := range rw.out.Sites {
		if s.Class == "S" {
			rw.out.NS++
		} else {
			rw.out.NL++
		}
	}
	return rw.out, nil
}

type rewriter struct {
	fset   *token.FileSet
	info   *types.Info
	pkg    *types.Package
	out    *YieldInfo
	reach  []types.Type
	opaque bool
	facts  *pkgFacts
	fn     string

	// classification of the statement being examined
	cls int // 0 none, 1 L, 2 S
	why string
}

func (rw *rewriter) unsupported(pos token.Pos, what string) {
	p := rw.fset.Position(pos)
	rw.out.Unsupported = append(rw.out.Unsupported, fmt.Sprintf("%s:%d: %s", filepath.Base(p.Filename), p.Line, what))
}

func (rw *rewriter) addReach(t types.Type) {
	t = types.Unalias(t)
	if _, ok := t.(*types.Basic); ok {
		return
	}
	for _, u := range rw.reach {
		if types.Identical(u, t) {
			return
		}
	}
	rw.reach = append(rw.reach, t)
	switch u := t.(type) {
	case *types.Named:
		rw.addReach(u.Underlying())
	case *types.Pointer:
		rw.addReach(u.Elem())
	case *types.Slice:
		rw.addReach(u.Elem())
	case *types.Array:
		rw.addReach(u.Elem())
	case *types.Map:
		rw.addReach(u.Key())
		rw.addReach(u.Elem())
	case *types.Struct:
		for i := 0; i < u.NumFields(); i++ {
			rw.addReach(u.Field(i).Type())
		}
	case *types.Interface, *types.Signature, *types.Chan:
		rw.opaque = true
	default:
		rw.opaque = true
	}
}

func (rw *rewriter) ownedVar(e ast.Expr) bool {
	id, ok := ast.Unparen(e).(*ast.Ident)
	if !ok {
		return false
	}
	v, _ := rw.info.Uses[id].(*types.Var)
	return v != nil && rw.facts.owned[v]
}

func (rw *rewriter) shared(t types.Type) bool {
	if t == nil {
		return true
	}
	t = types.Unalias(t)
	if _, ok := t.(*types.Basic); ok {
		return false
	}
	for _, u := range rw.reach {
		if types.Identical(u, t) {
			return true
		}
	}
	return false
}

func (rw *rewriter) mark(cls int, why string) {
	if rw.opaque && cls == 1 {
		cls = 2
		why += " (shared roots are opaque)"
	}
	if cls > rw.cls {
		rw.cls = cls
		rw.why = why
	}
}

// heap records an access to heap memory living in (or being) a value of type t.
func (rw *rewriter) heap(t types.Type, what string) {
	ts := "?"
	if t != nil {
		ts = types.TypeString(t, types.RelativeTo(rw.pkg))
	}
	if rw.shared(t) {
		rw.mark(2, what+" "+ts)
	} else {
		rw.mark(1, what+" "+ts)
	}
}

func (rw *rewriter) typeOf(e ast.Expr) types.Type {
	if tv, ok := rw.info.Types[e]; ok && tv.Type != nil {
		return types.Unalias(tv.Type)
	}
	if id, ok := e.(*ast.Ident); ok {
		if o := rw.info.Uses[id]; o != nil {
			return types.Unalias(o.Type())
		}
		if o := rw.info.Defs[id]; o != nil {
			return types.Unalias(o.Type())
		}
	}
	return nil
}

func deref(t types.Type) (types.Type, bool) {
	if t == nil {
		return nil, false
	}
	if p, ok := t.Underlying().(*types.Pointer); ok {
		return types.Unalias(p.Elem()), true
	}
	return t, false
}

func isRef(t types.Type) bool {
	if t == nil {
		return true
	}
	switch u := t.Underlying().(type) {
	case *types.Basic:
		return u.Kind() == types.UnsafePointer
	case *types.Struct:
		for i := 0; i < u.NumFields(); i++ {
			if isRef(u.Field(i).Type()) {
				return true
			}
		}
		return false
	case *types.Array:
		return isRef(u.Elem())
	}
	return true
}

// scan classifies the accesses of one expression tree (function literal bodies excluded).
func (rw *rewriter) scan(n ast.Node) {
	if n == nil {
		return
	}
	ast.Inspect(n, func(n ast.Node) bool {
		switch e := n.(type) {
		case *ast.FuncLit:
			return false
		case *ast.Ident:
			if v, ok := rw.info.Uses[e].(*types.Var); ok && !v.IsField() && v.Pkg() != nil && v.Parent() == v.Pkg().Scope() {
				if v.Pkg() == rw.pkg && rw.facts.initOnly[v] {
					rw.mark(1, "init-only package variable "+e.Name)
				} else if v.Pkg() == rw.pkg {
					rw.mark(2, "package variable "+e.Name)
				} else {
					rw.mark(1, "variable of package "+v.Pkg().Name())
				}
			}
		case *ast.SelectorExpr:
			sel, ok := rw.info.Selections[e]
			if !ok {
				break // qualified identifier; the Ident case sees e.Sel
			}
			xt := rw.typeOf(e.X)
			switch sel.Kind() {
			case types.FieldVal:
				// every struct reached by dereferencing a pointer along the (possibly embedded) path
				t := xt
				for _, idx := range sel.Index() {
					if t == nil {
						break
					}
					if bt, isPtr := deref(t); isPtr {
						rw.heap(bt, "field "+e.Sel.Name+" through pointer to")
						t = bt
					}
					st, ok := t.Underlying().(*types.Struct)
					if !ok || idx >= st.NumFields() {
						break
					}
					t = types.Unalias(st.Field(idx).Type())
				}
			case types.MethodVal:
				// value-receiver method invoked through a pointer: implicit load of *p
				if f, ok := sel.Obj().(*types.Func); ok {
					sig := f.Type().(*types.Signature)
					if sig.Recv() != nil {
						_, recvPtr := deref(sig.Recv().Type())
						if bt, isPtr := deref(xt); !recvPtr && (isPtr || sel.Indirect()) {
							if _, isIface := sig.Recv().Type().Underlying().(*types.Interface); !isIface {
								rw.heap(bt, "implicit receiver load of")
							}
						}
					}
				}
			}
		case *ast.IndexExpr:
			xt := rw.typeOf(e.X)
			if xt == nil {
				break
			}
			if rw.ownedVar(e.X) {
				rw.mark(1, "index into call-private variadic slice")
				break
			}
			switch u := xt.Underlying().(type) {
			case *types.Slice, *types.Map:
				rw.heap(xt, "index into")
			case *types.Pointer:
				rw.heap(types.Unalias(u.Elem()), "index through pointer to")
			}
		case *ast.StarExpr:
			tv, ok := rw.info.Types[e]
			if ok && tv.IsType() {
				break
			}
			bt, _ := deref(rw.typeOf(e.X))
			if bt != nil {
				if _, isStruct := bt.Underlying().(*types.Struct); !isStruct {
					rw.mark(2, "dereference of pointer to non-struct "+types.TypeString(bt, types.RelativeTo(rw.pkg)))
					break
				}
			}
			rw.heap(bt, "dereference of pointer to")
		case *ast.UnaryExpr:
			if e.Op == token.ARROW {
				rw.mark(2, "channel receive")
			}
		case *ast.CallExpr:
			rw.call(e)
		}
		return true
	})
}

func (rw *rewriter) call(e *ast.CallExpr) {
	if tv, ok := rw.info.Types[e.Fun]; ok && tv.IsType() {
		// conversion; converting a slice (e.g. string(b)) reads its elements
		for _, a := range e.Args {
			if t := rw.typeOf(a); t != nil {
				if _, ok := t.Underlying().(*types.Slice); ok {
					rw.heap(t, "conversion of")
				}
			}
		}
		return
	}
	fun := ast.Unparen(e.Fun)
	var obj types.Object
	var recv ast.Expr
	switch f := fun.(type) {
	case *ast.Ident:
		obj = rw.info.Uses[f]
	case *ast.SelectorExpr:
		obj = rw.info.Uses[f.Sel]
		if _, ok := rw.info.Selections[f]; ok {
			recv = f.X
		}
	case *ast.IndexExpr: // generic instantiation
		if id, ok := f.X.(*ast.Ident); ok {
			obj = rw.info.Uses[id]
		}
	}
	switch o := obj.(type) {
	case *types.Builtin:
		switch o.Name() {
		case "append", "copy":
			for _, a := range e.Args {
				t := rw.typeOf(a)
				if t == nil {
					continue
				}
				if _, ok := t.Underlying().(*types.Slice); ok {
					rw.heap(t, o.Name()+" on")
				}
			}
		case "delete", "clear":
			if len(e.Args) > 0 {
				rw.heap(rw.typeOf(e.Args[0]), o.Name()+" on")
			}
		case "close":
			rw.mark(2, "channel close")
		case "len", "cap":
			// len of a map (or channel) reads the shared header; len of a slice/string/array reads a local value
			if len(e.Args) == 1 {
				if t := rw.typeOf(e.Args[0]); t != nil {
					switch t.Underlying().(type) {
					case *types.Map:
						rw.heap(t, "len of")
					case *types.Chan:
						rw.mark(2, "len of channel")
					case *types.Pointer:
						// len(*[N]T) is a constant
					}
				}
			}
		}
		return
	case *types.Func:
		if o.Pkg() == rw.pkg {
			if sig, ok := o.Type().(*types.Signature); ok && sig.Recv() != nil {
				if _, isIface := sig.Recv().Type().Underlying().(*types.Interface); !isIface {
					return // the callee is instrumented itself
				}
			} else {
				return
			}
		}
		if o.Pkg() != nil && o.Pkg().Path() == "os" {
			rw.mark(2, "call of os."+o.Name()+" (process/file-system state)")
		}
	}
	// function outside the package, interface method or func value: what can it reach?
	args := append([]ast.Expr{}, e.Args...)
	if recv != nil {
		args = append(args, recv)
	}
	name := "func value"
	if obj != nil {
		name = obj.Name()
		if obj.Pkg() != nil && obj.Pkg() != rw.pkg {
			name = obj.Pkg().Name() + "." + name
		}
	}
	for _, a := range args {
		t := rw.typeOf(a)
		if tv, ok := rw.info.Types[a]; ok && (tv.Value != nil || tv.IsNil()) {
			continue // constants
		}
		if !isRef(t) {
			continue
		}
		if t != nil {
			if b, ok := t.Underlying().(*types.Basic); ok && b.Info()&types.IsString != 0 {
				continue
			}
		}
		bt, _ := deref(t)
		if rw.shared(t) || rw.shared(bt) {
			rw.mark(2, "call of "+name+" with a reference to "+types.TypeString(bt, types.RelativeTo(rw.pkg)))
		} else {
			rw.mark(1, "call of "+name+" with a reference")
		}
	}
}

// target applies the purely syntactic rule for assignment / IncDec targets.
func (rw *rewriter) target(e ast.Expr) {
	switch t := ast.Unparen(e).(type) {
	case *ast.SelectorExpr:
		if _, ok := rw.info.Selections[t]; ok {
			rw.mark(1, "assignment to a selector expression")
		}
	case *ast.IndexExpr:
		rw.mark(1, "assignment to an index expression")
	case *ast.StarExpr:
		rw.mark(1, "assignment through a pointer")
	}
}

func (rw *rewriter) site(pos token.Pos, kind string) ast.Stmt {
	p := rw.fset.Position(pos)
	id := len(rw.out.Sites)
	cls, fn := "L", "YieldL"
	if rw.cls == 2 {
		cls, fn = "S", "Yield"
	}
	rw.out.Sites = append(rw.out.Sites, YieldSite{ID: id, Class: cls, Pos: fmt.Sprintf("%s:%d", filepath.Base(p.Filename), p.Line),
		Func: rw.fn, Kind: kind, Why: rw.why})
	return &ast.ExprStmt{X: &ast.CallExpr{
		Fun:  &ast.SelectorExpr{X: ast.NewIdent(schedAlias), Sel: ast.NewIdent(fn)},
		Args: []ast.Expr{&ast.BasicLit{Kind: token.INT, Value: strconv.Itoa(id)}},
	}}
}

func (rw *rewriter) funcLits(n ast.Node) bool {
	if fl, ok := n.(*ast.FuncLit); ok {
		fl.Body.List = rw.stmts(fl.Body.List)
		return false
	}
	return true
}

func (rw *rewriter) reset() { rw.cls, rw.why = 0, "" }

// stmts rewrites one statement list.
func (rw *rewriter) stmts(list []ast.Stmt) []ast.Stmt {
	var out []ast.Stmt
	for _, s := range list {
		rw.out.Statements++
		rw.reset()
		rw.header(s)
		var y ast.Stmt
		if rw.cls > 0 {
			y = rw.site(s.Pos(), "stmt")
		}
		out = append(out, rw.nested(s, y != nil)...) // declarations needed by the loop rewrite
		if y != nil {
			out = append(out, y)
		}
		out = append(out, s)
	}
	return out
}

// header classifies the expressions a statement evaluates itself.
func (rw *rewriter) header(s ast.Stmt) {
	switch s := s.(type) {
	case *ast.AssignStmt:
		for _, l := range s.Lhs {
			rw.target(l)
			rw.scan(l)
		}
		for _, r := range s.Rhs {
			rw.scan(r)
		}
	case *ast.IncDecStmt:
		rw.target(s.X)
		rw.scan(s.X)
	case *ast.ExprStmt:
		rw.scan(s.X)
	case *ast.ReturnStmt:
		for _, r := range s.Results {
			rw.scan(r)
		}
	case *ast.DeclStmt:
		rw.scan(s.Decl)
	case *ast.GoStmt:
		rw.unsupported(s.Pos(), "go statement (threads outside scheduler control)")
		rw.mark(2, "go statement")
		rw.scan(s.Call)
	case *ast.DeferStmt:
		rw.scan(s.Call)
	case *ast.SendStmt:
		rw.mark(2, "channel send")
		rw.scan(s.Chan)
		rw.scan(s.Value)
	case *ast.LabeledStmt:
		rw.header(s.Stmt)
	case *ast.IfStmt:
		for is := s; is != nil; {
			if is.Init != nil {
				rw.header(is.Init)
			}
			rw.scan(is.Cond)
			next, _ := is.Else.(*ast.IfStmt)
			is = next
		}
	case *ast.ForStmt:
		if s.Init != nil {
			rw.header(s.Init)
		}
		rw.scan(s.Cond)
		if s.Post != nil {
			rw.header(s.Post)
		}
	case *ast.RangeStmt:
		rw.rangeHeader(s)
	case *ast.SwitchStmt:
		if s.Init != nil {
			rw.header(s.Init)
		}
		rw.scan(s.Tag)
		for _, c := range s.Body.List {
			for _, e := range c.(*ast.CaseClause).List {
				rw.scan(e)
			}
		}
	case *ast.TypeSwitchStmt:
		if s.Init != nil {
			rw.header(s.Init)
		}
		rw.header(s.Assign)
	case *ast.SelectStmt:
		rw.unsupported(s.Pos(), "select statement")
		rw.mark(2, "select")
	}
}

func (rw *rewriter) rangeHeader(s *ast.RangeStmt) {
	if s.Tok == token.ASSIGN {
		if s.Key != nil {
			rw.target(s.Key)
			rw.scan(s.Key)
		}
		if s.Value != nil {
			rw.target(s.Value)
			rw.scan(s.Value)
		}
	}
	rw.scan(s.X)
	xt := rw.typeOf(s.X)
	if xt == nil {
		rw.mark(2, "range over untyped expression")
		return
	}
	if rw.ownedVar(s.X) {
		rw.mark(1, "range over call-private variadic slice")
		return
	}
	switch u := xt.Underlying().(type) {
	case *types.Slice, *types.Map:
		rw.heap(xt, "range over")
	case *types.Pointer:
		rw.heap(types.Unalias(u.Elem()), "range through pointer to")
	case *types.Chan:
		rw.mark(2, "range over channel")
	case *types.Signature:
		rw.mark(1, "range over func")
	}
}

// nested rewrites the statement lists nested in s and the function literals in its own expressions.
//
// Loops whose header accesses memory get a yield at the top of the body. When the loop statement itself is
// preceded by a yield (hasPre) the first iteration's yield would be back to back with it, so it is skipped
// with a flag variable declared just before the loop; the declaration is returned to the caller.
func (rw *rewriter) nested(s ast.Stmt, hasPre bool) (pre []ast.Stmt) {
	switch s := s.(type) {
	case *ast.BlockStmt:
		s.List = rw.stmts(s.List)
	case *ast.LabeledStmt:
		return rw.nested(s.Stmt, hasPre)
	case *ast.IfStmt:
		if s.Init != nil {
			ast.Inspect(s.Init, rw.funcLits)
		}
		ast.Inspect(s.Cond, rw.funcLits)
		s.Body.List = rw.stmts(s.Body.List)
		switch e := s.Else.(type) {
		case *ast.IfStmt:
			rw.nested(e, false)
		case *ast.BlockStmt:
			e.List = rw.stmts(e.List)
		}
	case *ast.ForStmt:
		// per-iteration yield when condition/post access memory
		rw.reset()
		rw.scan(s.Cond)
		if s.Post != nil {
			rw.header(s.Post)
		}
		var iter ast.Stmt
		if rw.cls > 0 {
			iter = rw.site(s.Pos(), "loop-iter")
		}
		if s.Init != nil {
			ast.Inspect(s.Init, rw.funcLits)
		}
		if s.Cond != nil {
			ast.Inspect(s.Cond, rw.funcLits)
		}
		if s.Post != nil {
			ast.Inspect(s.Post, rw.funcLits)
		}
		s.Body.List = rw.stmts(s.Body.List)
		if iter != nil {
			var head []ast.Stmt
			head, pre = rw.iterYield(iter, hasPre)
			s.Body.List = append(head, s.Body.List...)
		}
	case *ast.RangeStmt:
		rw.reset()
		rw.rangeHeader(s)
		var iter ast.Stmt
		if rw.cls > 0 {
			iter = rw.site(s.Pos(), "loop-iter")
		}
		ast.Inspect(s.X, rw.funcLits)
		s.Body.List = rw.stmts(s.Body.List)
		if iter != nil {
			var head []ast.Stmt
			head, pre = rw.iterYield(iter, hasPre)
			s.Body.List = append(head, s.Body.List...)
		}
	case *ast.SwitchStmt:
		if s.Init != nil {
			ast.Inspect(s.Init, rw.funcLits)
		}
		if s.Tag != nil {
			ast.Inspect(s.Tag, rw.funcLits)
		}
		for _, c := range s.Body.List {
			cc := c.(*ast.CaseClause)
			for _, e := range cc.List {
				ast.Inspect(e, rw.funcLits)
			}
			cc.Body = rw.stmts(cc.Body)
		}
	case *ast.TypeSwitchStmt:
		for _, c := range s.Body.List {
			cc := c.(*ast.CaseClause)
			cc.Body = rw.stmts(cc.Body)
		}
	case *ast.SelectStmt:
		for _, c := range s.Body.List {
			cc := c.(*ast.CommClause)
			cc.Body = rw.stmts(cc.Body)
		}
	default:
		ast.Inspect(s, rw.funcLits)
	}
	return pre
}

// iterYield builds the statements put at the top of a loop body.
func (rw *rewriter) iterYield(iter ast.Stmt, hasPre bool) (head, pre []ast.Stmt) {
	if !hasPre {
		return []ast.Stmt{iter}, nil
	}
	flag := fmt.Sprintf("verifIter%d", len(rw.out.Sites))
	// verifIterN := false            (before the loop)
	// if verifIterN { Yield(id) }; verifIterN = true   (top of the body)
	pre = []ast.Stmt{&ast.AssignStmt{Lhs: []ast.Expr{ast.NewIdent(flag)}, Tok: token.DEFINE, Rhs: []ast.Expr{ast.NewIdent("false")}}}
	head = []ast.Stmt{
		&ast.IfStmt{Cond: ast.NewIdent(flag), Body: &ast.BlockStmt{List: []ast.Stmt{iter}}},
		&ast.AssignStmt{Lhs: []ast.Expr{ast.NewIdent(flag)}, Tok: token.ASSIGN, Rhs: []ast.Expr{ast.NewIdent("true")}},
	}
	return head, pre
}
