// Package overlay generates `go build -overlay` files from the installed GOROOT at check time.
// Nothing here is stored: each seam is produced by pattern substitution on the installed sources
// and fails loudly if a pattern is absent.
package overlay

import (
	"encoding/json"
	"fmt"
	"os"
	"os/exec"
	"path/filepath"
	"regexp"
	"strings"
)

// File is the JSON document `go build -overlay` reads.
type File struct {
	Replace map[string]string
}

func GOROOT() (string, error) {
	out, err := exec.Command("go", "env", "GOROOT").Output()
	if err != nil {
		return "", err
	}
	return strings.TrimSpace(string(out)), nil
}

// MapSeam adds the map-iteration seam to ov: runtime/map.go is patched so that, once
// runtime.verifSetMapIter(v) has been called with v != 0, every map iteration starts at the
// bucket/offset encoded by v-1 and every new map uses a fixed hash seed. v == 0 restores the
// normal random behaviour. Patched sources are written below dir (which must not be a Go package dir).
func MapSeam(ov *File, dir string) error {
	gr, err := GOROOT()
	if err != nil {
		return err
	}
	p := filepath.Join(gr, "src", "runtime", "map.go")
	b, err := os.ReadFile(p)
	if err != nil {
		return fmt.Errorf("map seam: %w (this Go version has no runtime/map.go; seam unsupported)", err)
	}
	src := string(b)
	a := "\tr := uintptr(rand())\n"
	if strings.Count(src, a) != 1 {
		return fmt.Errorf("map seam: pattern %q not found exactly once in %s", a, p)
	}
	src = strings.Replace(src, a, a+"\tif verifMapIter != 0 {\n\t\tr = verifMapIter - 1\n\t\tverifMapCount++\n\t\tif verifMapCount == verifMapDevAt {\n\t\t\tr = verifMapDevVal\n\t\t}\n\t}\n", 1)
	re := regexp.MustCompile(`\n(\t+)h\.hash0 = uint32\(rand\(\)\)\n`)
	if len(re.FindAllString(src, -1)) < 2 {
		return fmt.Errorf("map seam: hash0 pattern not found in %s", p)
	}
	src = re.ReplaceAllString(src, "\n${1}h.hash0 = uint32(rand())\n${1}if verifMapIter != 0 {\n${1}\th.hash0 = 0x1f2e3d4c\n${1}}\n")
	src += `
// verifMapIter, when non-zero, replaces the random iteration start (value-1) and the per-map hash seed.
var verifMapIter uintptr

// verifMapCount counts the iterations begun since the last verifSetMapIter; the verifMapDevAt-th of them (1-based,
// 0 = none) starts at verifMapDevVal instead: one deviation from the uniform start, for deviation-bounded enumeration.
// Plain variables: the seam is meant for single-goroutine use.
var verifMapCount, verifMapDevAt, verifMapDevVal uintptr

//go:linkname verifSetMapIter
func verifSetMapIter(v uintptr) { verifMapIter, verifMapCount, verifMapDevAt = v, 0, 0 }

//go:linkname verifSetMapDev
func verifSetMapDev(at, val uintptr) { verifMapDevAt, verifMapDevVal = at, val }

//go:linkname verifMapIterCount
func verifMapIterCount() uintptr { return verifMapCount }
`
	if err := os.MkdirAll(dir, 0o755); err != nil {
		return err
	}
	out := filepath.Join(dir, "runtime_map.go.txt")
	if err := os.WriteFile(out, []byte(src), 0o644); err != nil {
		return err
	}
	if ov.Replace == nil {
		ov.Replace = map[string]string{}
	}
	ov.Replace[p] = out
	// maps that do not escape get their hash seed from compiler-generated code calling runtime.rand32
	pr := filepath.Join(gr, "src", "runtime", "rand.go")
	rb, err := os.ReadFile(pr)
	if err != nil {
		return fmt.Errorf("map seam: %w", err)
	}
	rsrc := string(rb)
	ra := "func rand32() uint32 {\n"
	if strings.Count(rsrc, ra) != 1 {
		return fmt.Errorf("map seam: pattern %q not found exactly once in %s", ra, pr)
	}
	rsrc = strings.Replace(rsrc, ra, ra+"\tif verifMapIter != 0 {\n\t\treturn 0x1f2e3d4c\n\t}\n", 1)
	rout := filepath.Join(dir, "runtime_rand.go.txt")
	if err := os.WriteFile(rout, []byte(rsrc), 0o644); err != nil {
		return err
	}
	ov.Replace[pr] = rout
	return nil
}

// Write stores the overlay document and returns its path.
func (ov *File) Write(dir string) (string, error) {
	if err := os.MkdirAll(dir, 0o755); err != nil {
		return "", err
	}
	b, _ := json.MarshalIndent(ov, "", " ")
	p := filepath.Join(dir, "overlay.json")
	return p, os.WriteFile(p, b, 0o644)
}
