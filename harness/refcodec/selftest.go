package refcodec

import (
	"bytes"
	"encoding/hex"
	"fmt"

	"verif/schema"
)

// SelfTest checks the reference encoder against hand-written vectors taken from the published wire
// format (the 12-byte message example the repository itself quotes, the .NET GUID layout, ...).
// The reference model is trusted only as far as these vectors and its simplicity go.
func SelfTest() error {
	type vec struct {
		name string
		rv   *RecValue
		hex  string
	}
	i32 := func(v uint32) *Value { return &Value{T: schema.P("int32"), Bits: uint64(v)} }
	msg := &schema.Record{Kind: schema.Message, Name: "ExampleMessage", Fields: []schema.Field{
		{Name: "x", Index: 1, Type: schema.P("byte")}, {Name: "y", Index: 2, Type: schema.P("int16")}, {Name: "z", Index: 3, Type: schema.P("int32")}}}
	st := func(fields ...*Value) *RecValue {
		r := &schema.Record{Kind: schema.Struct, Name: "S"}
		for i, f := range fields {
			r.Fields = append(r.Fields, schema.Field{Name: fmt.Sprintf("f%d", i), Type: f.T})
		}
		return &RecValue{R: r, Fields: fields}
	}
	en := &schema.Enum{Name: "E", Base: "uint16"}
	inner := &schema.Record{Kind: schema.Struct, Name: "B", Fields: []schema.Field{{Name: "v", Type: schema.P("int32")}}}
	un := &schema.Record{Kind: schema.Union, Name: "U", Branches: []schema.Branch{{Disc: 1, Rec: &schema.Record{Kind: schema.Struct, Name: "A"}}, {Disc: 2, Rec: inner}}}
	arr := schema.A(schema.P("uint16"))
	mp := schema.M("string", schema.P("int32"))
	vecs := []vec{
		{"published message example", &RecValue{R: msg, Fields: []*Value{{T: schema.P("byte"), Bits: 15}, nil, i32(5)}}, "08000000010f030500000000"},
		{"guid in .NET field order", st(&Value{T: schema.P("guid"), Guid: [16]byte{0x00, 0x11, 0x22, 0x33, 0x44, 0x55, 0x66, 0x77, 0x88, 0x99, 0xaa, 0xbb, 0xcc, 0xdd, 0xee, 0xff}}), "33221100554477668899aabbccddeeff"},
		{"string", st(&Value{T: schema.P("string"), Str: "hi"}), "020000006869"},
		{"little-endian scalars", st(&Value{T: schema.P("uint16"), Bits: 0x0102}, i32(0xfffffffe), &Value{T: schema.P("uint64"), Bits: 0x0102030405060708}, &Value{T: schema.P("bool"), Bits: 1}), "0201feffffff080706050403020101"},
		{"float32 1.5 / float64 -2", st(&Value{T: schema.P("float32"), Bits: 0x3fc00000}, &Value{T: schema.P("float64"), Bits: 0xc000000000000000}), "0000c03f00000000000000c0"},
		{"enum as base integer", st(&Value{T: schema.E(en), Bits: 0x0102}), "0201"},
		{"array", st(&Value{T: arr, Elems: []*Value{{T: schema.P("uint16"), Bits: 1}, {T: schema.P("uint16"), Bits: 2}}}), "0200000001000200"},
		{"map", st(&Value{T: mp, Keys: []*Value{{T: schema.P("string"), Str: "a"}}, Vals: []*Value{i32(1)}}), "01000000010000006101000000"},
		{"union: length excludes the discriminator", &RecValue{R: un, Branch: 1, Inner: &RecValue{R: inner, Fields: []*Value{i32(1)}}}, "040000000201000000"},
		{"empty message", &RecValue{R: &schema.Record{Kind: schema.Message, Name: "M"}}, "0100000000"},
		{"date ticks", st(&Value{T: schema.P("date"), Ticks: 0x0102030405060708}), "0807060504030201"},
	}
	for _, v := range vecs {
		var e Enc
		EncodeRec(&e, v.rv, nil)
		want, _ := hex.DecodeString(v.hex)
		if !bytes.Equal(e.B, want) {
			return fmt.Errorf("reference codec self-test %q: got %x want %s", v.name, e.B, v.hex)
		}
		if len(e.Roles) != len(e.B) {
			return fmt.Errorf("reference codec self-test %q: %d roles for %d bytes", v.name, len(e.Roles), len(e.B))
		}
	}
	return nil
}
