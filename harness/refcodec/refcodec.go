// Package refcodec is the reference model of the Bebop wire format: a dynamic value tree, a
// bounded value enumerator and an encoder written from the published format with
// encoding/binary only. It shares no code with the repository under test.
package refcodec

import (
	"encoding/binary"
	"fmt"
	"math"
	"sort"
	"strings"
	"sync"

	"verif/schema"
)

// Value is a dynamic value of a schema type.
type Value struct {
	T     *schema.Type
	Bits  uint64 // bool, integers, floats (IEEE bits), enums (bits of the base type)
	Str   string
	Guid  [16]byte
	Ticks int64 // date: 100ns ticks since the Unix epoch; 0 <=> zero time
	DateV int   // date injection variant: 0 UTC exact, 1 non-UTC zone, 2 extra sub-tick nanoseconds (both normalise to Ticks)
	Elems []*Value
	Keys  []*Value
	Vals  []*Value
	Rec   *RecValue
	NilC  bool // container injected as nil rather than empty (normalises to empty)
}

// RecValue is a value of a record.
type RecValue struct {
	R      *schema.Record
	Fields []*Value // struct: all non-nil; message: nil = absent
	Branch int      // union: index into R.Branches, -1 = none (outside the value domain, never generated)
	Inner  *RecValue
}

// Role of each encoded byte, for structure-aware corruption and cut-point classification.
type Role byte

const (
	RPayload Role = iota
	RCount        // u32 element count of string/array/map
	RLen          // u32 body length of message/union
	RIndex        // message field index
	RDisc         // union discriminator
	RTerm         // message terminator
)

func (r Role) String() string {
	return [...]string{"payload", "count", "length-prefix", "index", "discriminator", "terminator"}[r]
}

// Enc is an encoding with one role per byte.
type Enc struct {
	B     []byte
	Roles []Role
}

func (e *Enc) put(r Role, b ...byte) {
	e.B = append(e.B, b...)
	for range b {
		e.Roles = append(e.Roles, r)
	}
}

func le(v uint64, w int) []byte {
	b := make([]byte, 8)
	binary.LittleEndian.PutUint64(b, v)
	return b[:w]
}

// MapOrder decides the order in which map entries are emitted: it receives the number of entries
// and returns a permutation. nil = insertion order.
type MapOrder func(n int) []int

// Rotation mimics Go's small-map iteration under the runtime seam: insertion order rotated by r&7
// when n <= 8 and no deletions happened (slots 0..n-1 occupied; empty slots skipped).
func Rotation(r int) MapOrder {
	return func(n int) []int {
		out := make([]int, 0, n)
		off := r & 7
		for i := 0; i < 8; i++ {
			s := (i + off) & 7
			if s < n {
				out = append(out, s)
			}
		}
		return out
	}
}

// Encode appends the wire encoding of v.
func Encode(e *Enc, v *Value, mo MapOrder) {
	t := v.T
	switch t.Kind {
	case schema.Prim:
		switch t.Name {
		case "string":
			e.put(RCount, le(uint64(len(v.Str)), 4)...)
			e.put(RPayload, []byte(v.Str)...)
		case "guid":
			g := v.Guid
			// .NET Guid.ToByteArray: first three fields little-endian
			e.put(RPayload, g[3], g[2], g[1], g[0], g[5], g[4], g[7], g[6], g[8], g[9], g[10], g[11], g[12], g[13], g[14], g[15])
		case "date":
			e.put(RPayload, le(uint64(v.Ticks), 8)...)
		default:
			e.put(RPayload, le(v.Bits, schema.FixedSize[t.Name])...)
		}
	case schema.EnumT:
		e.put(RPayload, le(v.Bits, schema.FixedSize[t.Enum.BaseType()])...)
	case schema.ArrayT:
		e.put(RCount, le(uint64(len(v.Elems)), 4)...)
		for _, x := range v.Elems {
			Encode(e, x, mo)
		}
	case schema.MapT:
		e.put(RCount, le(uint64(len(v.Keys)), 4)...)
		n := len(v.Keys)
		var order []int
		if mo != nil {
			order = mo(n)
		} else {
			for i := 0; i < n; i++ {
				order = append(order, i)
			}
		}
		for _, i := range order {
			Encode(e, v.Keys[i], mo)
			Encode(e, v.Vals[i], mo)
		}
	case schema.RecT:
		EncodeRec(e, v.Rec, mo)
	}
}

// MessageFieldsDescending makes the encoder emit the present fields of every message in descending index order. The wire
// format tags each field with its index and fixes no order, so this is an equally conformant encoding of the same value.
var MessageFieldsDescending bool

// EncodeRec appends the encoding of a record value.
func EncodeRec(e *Enc, rv *RecValue, mo MapOrder) {
	switch rv.R.Kind {
	case schema.Struct:
		for _, f := range rv.Fields {
			Encode(e, f, mo)
		}
	case schema.Message:
		var body Enc
		idx := make([]int, 0, len(rv.Fields))
		for i := range rv.Fields {
			idx = append(idx, i)
		}
		if MessageFieldsDescending {
			sort.SliceStable(idx, func(a, b int) bool { return rv.R.Fields[idx[a]].Index > rv.R.Fields[idx[b]].Index })
		}
		for _, i := range idx {
			f := rv.Fields[i]
			if f == nil || rv.R.Fields[i].Deprecated {
				continue
			}
			body.put(RIndex, byte(rv.R.Fields[i].Index))
			Encode(&body, f, mo)
		}
		body.put(RTerm, 0)
		e.put(RLen, le(uint64(len(body.B)), 4)...)
		e.B = append(e.B, body.B...)
		e.Roles = append(e.Roles, body.Roles...)
	case schema.Union:
		var body Enc
		EncodeRec(&body, rv.Inner, mo)
		e.put(RLen, le(uint64(len(body.B)), 4)...)
		e.put(RDisc, byte(rv.R.Branches[rv.Branch].Disc))
		e.B = append(e.B, body.B...)
		e.Roles = append(e.Roles, body.Roles...)
	}
}

// Normal renders the normal form of a value as a canonical string: deprecated message fields
// dropped, nil ≡ empty containers, dates as ticks, map entries sorted by key; floats by bit pattern.
func Normal(v *Value) string {
	var b strings.Builder
	normal(&b, v)
	return b.String()
}

func NormalRec(rv *RecValue) string {
	var b strings.Builder
	normalRec(&b, rv)
	return b.String()
}

func normal(b *strings.Builder, v *Value) {
	t := v.T
	switch t.Kind {
	case schema.Prim:
		switch t.Name {
		case "string":
			fmt.Fprintf(b, "%q", v.Str)
		case "guid":
			fmt.Fprintf(b, "g%x", v.Guid)
		case "date":
			fmt.Fprintf(b, "d%d", v.Ticks)
		default:
			fmt.Fprintf(b, "%s:%x", t.Name, v.Bits)
		}
	case schema.EnumT:
		fmt.Fprintf(b, "e%x", v.Bits)
	case schema.ArrayT:
		b.WriteString("[")
		for _, x := range v.Elems {
			normal(b, x)
			b.WriteString(",")
		}
		b.WriteString("]")
	case schema.MapT:
		ents := make([]string, len(v.Keys))
		for i := range v.Keys {
			var eb strings.Builder
			normal(&eb, v.Keys[i])
			eb.WriteString("=>")
			normal(&eb, v.Vals[i])
			ents[i] = eb.String()
		}
		sort.Strings(ents)
		b.WriteString("{" + strings.Join(ents, ";") + "}")
	case schema.RecT:
		normalRec(b, v.Rec)
	}
}

func normalRec(b *strings.Builder, rv *RecValue) {
	switch rv.R.Kind {
	case schema.Struct:
		b.WriteString("S(")
		for _, f := range rv.Fields {
			normal(b, f)
			b.WriteString(",")
		}
		b.WriteString(")")
	case schema.Message:
		b.WriteString("M(")
		for i, f := range rv.Fields {
			if f == nil || rv.R.Fields[i].Deprecated {
				b.WriteString("-,")
				continue
			}
			normal(b, f)
			b.WriteString(",")
		}
		b.WriteString(")")
	case schema.Union:
		if rv.Branch < 0 {
			b.WriteString("U(none)")
			return
		}
		fmt.Fprintf(b, "U(%d:", rv.R.Branches[rv.Branch].Disc)
		normalRec(b, rv.Inner)
		b.WriteString(")")
	}
}

// ---- value enumeration -------------------------------------------------------------------

const (
	f32NaNq = 0x7fc00000
	f32NaNp = 0xffc12345
	f64NaNq = 0x7ff8000000000000
	f64NaNp = 0xfff8123456789abc
)

// LeafValues returns the boundary value set of a leaf type.
func LeafValues(t *schema.Type, depth int) []*Value {
	mk := func(bits ...uint64) []*Value {
		out := make([]*Value, len(bits))
		for i, b := range bits {
			out[i] = &Value{T: t, Bits: b}
		}
		return out
	}
	switch t.Kind {
	case schema.EnumT:
		var bits []uint64
		for _, m := range t.Enum.Members {
			bits = append(bits, m.Value)
		}
		// an undeclared value: enums are open on the wire
		w := schema.FixedSize[t.Enum.BaseType()]
		bits = append(bits, 0x0706050403020177&(^uint64(0)>>(64-8*w)))
		return mk(bits...)
	case schema.RecT:
		return recLeafValues(t, depth)
	}
	switch t.Name {
	case "bool":
		return mk(0, 1)
	case "byte", "uint8":
		return mk(0, 1, 0x7f, 0x80, 0xff)
	case "uint16":
		return mk(0, 1, 0x0102, 0x7fff, 0x8000, 0xffff)
	case "int16":
		return mk(0, 1, 0xffff, 0x0102, 0x7fff, 0x8000)
	case "uint32":
		return mk(0, 1, 0x01020304, 0x7fffffff, 0x80000000, 0xffffffff)
	case "int32":
		return mk(0, 1, 0xffffffff, 0x01020304, 0x7fffffff, 0x80000000)
	case "uint64":
		return mk(0, 1, 0x0102030405060708, 0x7fffffffffffffff, 0x8000000000000000, 0xffffffffffffffff)
	case "int64":
		return mk(0, 1, 0xffffffffffffffff, 0x0102030405060708, 0x7fffffffffffffff, 0x8000000000000000)
	case "float32":
		return mk(0, 0x80000000, uint64(math.Float32bits(1.5)), uint64(math.Float32bits(-3.25e10)), 0x7f800000, 0xff800000, f32NaNq, f32NaNp, 1, 0x7f7fffff)
	case "float64":
		return mk(0, 0x8000000000000000, math.Float64bits(1.5), math.Float64bits(-3.25e100), 0x7ff0000000000000, 0xfff0000000000000, f64NaNq, f64NaNp, 1, 0x7fefffffffffffff)
	case "string":
		out := []*Value{}
		for _, s := range []string{"", "a", "hello world", "h\x00l", "héllo ☃", "\xff\xfe\x80bad", strings.Repeat("0123456789", 30), "\xe9", "\x80", "\x00", "\xc3"} {
			out = append(out, &Value{T: t, Str: s})
		}
		return out
	case "guid":
		return []*Value{
			{T: t, Guid: [16]byte{}},
			{T: t, Guid: [16]byte{0, 1, 2, 3, 4, 5, 6, 7, 8, 9, 10, 11, 12, 13, 14, 15}},
			{T: t, Guid: [16]byte{0xff, 0xee, 0xdd, 0xcc, 0xbb, 0xaa, 0x99, 0x88, 0x77, 0x66, 0x55, 0x44, 0x33, 0x22, 0x11, 0x00}},
		}
	case "date":
		out := []*Value{
			{T: t, Ticks: 0},
			{T: t, Ticks: 16094592000000000},                     // 2021-01-01
			{T: t, Ticks: 16094592000000000 + 1234567, DateV: 1}, // non-UTC location
			{T: t, Ticks: 16094592001234567, DateV: 2},           // sub-tick nanoseconds truncated
			{T: t, Ticks: -8520336000 * 10000000},                // 1700-01-01, negative ticks
			{T: t, Ticks: 0x0102030405060708},
			{T: t, Ticks: 1},
		}
		if AmbiguousDates {
			// instants before 1970 that are not on the 100 ns grid: which neighbouring tick they normalise to is not
			// specified, so they are used only where the oracle is agreement between encoders (C02)
			out = append(out, &Value{T: t, Ticks: -8520336000*10000000 - 3, DateV: 3}, &Value{T: t, Ticks: -5, DateV: 3})
		}
		return out
	}
	panic("no values for " + t.String())
}

func recLeafValues(t *schema.Type, depth int) []*Value {
	var out []*Value
	for _, rv := range RecValues(t.Rec, depth+1, 3) {
		out = append(out, &Value{T: t, Rec: rv})
	}
	return out
}

// Values enumerates the bounded value set of any type. depth guards recursive records.
func Values(t *schema.Type, depth int) []*Value {
	switch t.Kind {
	case schema.ArrayT:
		ev := Values(t.Elem, depth+1)
		out := []*Value{{T: t, NilC: true}, {T: t}}
		// singletons then pairs, covering every element value at least once
		i := 0
		if len(ev) > 0 {
			out = append(out, &Value{T: t, Elems: []*Value{ev[0]}})
			i = 1
		}
		for i < len(ev) {
			if i+1 < len(ev) {
				out = append(out, &Value{T: t, Elems: []*Value{ev[i], ev[i+1]}})
				i += 2
			} else {
				out = append(out, &Value{T: t, Elems: []*Value{ev[i], ev[0]}})
				i++
			}
		}
		if len(ev) >= 3 {
			out = append(out, &Value{T: t, Elems: []*Value{ev[2], ev[1], ev[0]}})
		}
		return out
	case schema.MapT:
		kv := keyValues(t.Key)
		vv := Values(t.Elem, depth+1)
		out := []*Value{{T: t, NilC: true}, {T: t}}
		if len(vv) == 0 {
			return out
		}
		// one entry, then two entries, then three (permutation tests), cycling through keys and values
		out = append(out, &Value{T: t, Keys: []*Value{kv[0]}, Vals: []*Value{vv[0]}})
		vi := 1
		for ki := 1; ki+1 < len(kv) || vi < len(vv); {
			k1, k2 := kv[ki%len(kv)], kv[(ki+1)%len(kv)]
			if Normal(k1) == Normal(k2) {
				break
			}
			out = append(out, &Value{T: t, Keys: []*Value{k1, k2}, Vals: []*Value{vv[vi%len(vv)], vv[(vi+1)%len(vv)]}})
			ki += 2
			vi += 2
			if ki > len(kv)+1 && vi >= len(vv) {
				break
			}
			if len(out) > 12 {
				break
			}
		}
		if len(kv) >= 3 {
			out = append(out, &Value{T: t, Keys: []*Value{kv[2], kv[0], kv[1]}, Vals: []*Value{vv[0], vv[len(vv)-1], vv[len(vv)/2]}})
		}
		return out
	}
	return LeafValues(t, depth)
}

// keyValues returns distinct map keys of a primitive type (±0 floats collide as keys, only +0 is used; of the NaNs only
// the quiet one is used, at most once per map).
func keyValues(key string) []*Value {
	t := schema.P(key)
	all := LeafValues(t, 0)
	var out []*Value
	seen := map[string]bool{}
	for _, v := range all {
		// one NaN key per map is in the domain (a Go map holds it, the encoders write it, the decoders must cope with an
		// entry that cannot be looked up again); it is moved to the second position below so that small maps contain it
		if key == "float32" && (v.Bits == f32NaNp || v.Bits == 0x80000000) {
			continue
		}
		if key == "float64" && (v.Bits == f64NaNp || v.Bits == 0x8000000000000000) {
			continue
		}
		if key == "date" && v.DateV != 0 {
			// non-normal dates as keys would collide after normalisation only by accident; keep keys normal
			continue
		}
		n := Normal(v)
		if !seen[n] {
			seen[n] = true
			out = append(out, v)
		}
	}
	for i, v := range out {
		if (key == "float32" && v.Bits == f32NaNq || key == "float64" && v.Bits == f64NaNq) && i > 1 {
			copy(out[2:i+1], out[1:i])
			out[1] = v
			break
		}
	}
	return out
}

// RecValues enumerates values of a record: structs = field-wise covering (each field cycles through
// its value set); messages = all presence subsets (≤ maxSubsetFields fields) × covering values; unions = every branch.
func RecValues(r *schema.Record, depth int, limit int) []*RecValue {
	out := recValues(r, depth, limit)
	if depth == 0 && IsBig(r) {
		out = append(out, BigValues(r, ThoroughBig)...)
	}
	return out
}

// spread picks the k-th of n values out of l. Without a limit it cycles through all of them; when a nested record is cut
// down to a few values (limit > 0) it takes the first, the LAST (containers list their fullest values last) and values
// spread in between, so that nested containers are not left empty.
func spread(k, n, l, limit int) int {
	if limit <= 0 || l <= n || n < 2 || k >= n {
		return k % l
	}
	switch k {
	case 0:
		return 0
	case 1:
		return l - 1
	}
	return (k - 1) * (l - 1) / (n - 1)
}

var (
	selfRefMu sync.Mutex
	selfRef   = map[*schema.Record]bool{}
)

// selfReferential reports whether r can reach itself through its fields / branches (such records need a depth guard;
// all others are finite by construction and are enumerated in full however deeply they are nested).
func selfReferential(r *schema.Record) bool {
	selfRefMu.Lock()
	defer selfRefMu.Unlock()
	if v, ok := selfRef[r]; ok {
		return v
	}
	seen := map[*schema.Record]bool{}
	var reach func(x *schema.Record) bool
	var reachT func(t *schema.Type) bool
	reachT = func(t *schema.Type) bool {
		switch t.Kind {
		case schema.ArrayT, schema.MapT:
			return reachT(t.Elem)
		case schema.RecT:
			if t.Rec == r {
				return true
			}
			return reach(t.Rec)
		}
		return false
	}
	reach = func(x *schema.Record) bool {
		if seen[x] {
			return false
		}
		seen[x] = true
		for _, f := range x.Fields {
			if reachT(f.Type) {
				return true
			}
		}
		for _, b := range x.Branches {
			if b.Rec == r || reach(b.Rec) {
				return true
			}
		}
		return false
	}
	v := reach(r)
	selfRef[r] = v
	return v
}

// reaches reports whether target occurs somewhere inside x.
func reaches(x, target *schema.Record) bool {
	seen := map[*schema.Record]bool{}
	var rec func(x *schema.Record) bool
	var typ func(t *schema.Type) bool
	typ = func(t *schema.Type) bool {
		switch t.Kind {
		case schema.ArrayT, schema.MapT:
			return typ(t.Elem)
		case schema.RecT:
			return t.Rec == target || rec(t.Rec)
		}
		return false
	}
	rec = func(x *schema.Record) bool {
		if seen[x] {
			return false
		}
		seen[x] = true
		for _, f := range x.Fields {
			if typ(f.Type) {
				return true
			}
		}
		for _, b := range x.Branches {
			if b.Rec == target || rec(b.Rec) {
				return true
			}
		}
		return false
	}
	return rec(x)
}

func recValues(r *schema.Record, depth int, limit int) []*RecValue {
	if (depth > 3 && selfReferential(r)) || depth > 12 {
		// recursion guard for self-referential records: only the smallest values
		switch r.Kind {
		case schema.Message:
			return []*RecValue{{R: r, Fields: make([]*Value, len(r.Fields))}}
		case schema.Union:
			// pick the first non-recursive branch
			for i, b := range r.Branches {
				if b.Rec.Kind == schema.Struct && !reaches(b.Rec, r) {
					vs := RecValues(b.Rec, depth+1, 1)
					if len(vs) > 0 {
						return []*RecValue{{R: r, Branch: i, Inner: vs[0]}}
					}
				}
			}
			return nil
		}
	}
	switch r.Kind {
	case schema.Struct:
		fv := make([][]*Value, len(r.Fields))
		n := 1
		for i, f := range r.Fields {
			fv[i] = Values(f.Type, depth)
			if len(fv[i]) > n {
				n = len(fv[i])
			}
		}
		if limit > 0 && n > limit {
			n = limit
		}
		var out []*RecValue
		for k := 0; k < n; k++ {
			rv := &RecValue{R: r, Fields: make([]*Value, len(r.Fields))}
			for i := range r.Fields {
				if len(fv[i]) == 0 {
					return nil
				}
				rv.Fields[i] = fv[i][spread(k, n, len(fv[i]), limit)]
			}
			out = append(out, rv)
		}
		return out
	case schema.Message:
		fv := make([][]*Value, len(r.Fields))
		n := 1
		for i, f := range r.Fields {
			fv[i] = Values(f.Type, depth)
			if len(fv[i]) > n {
				n = len(fv[i])
			}
		}
		if limit > 0 && n > limit {
			n = limit
		}
		nf := len(r.Fields)
		var out []*RecValue
		subsets := 1 << nf
		if nf > 4 {
			subsets = 0 // too many: none, all, each single, each all-but-one
		}
		addSubset := func(mask uint64, k int) {
			rv := &RecValue{R: r, Fields: make([]*Value, nf)}
			for i := range r.Fields {
				if mask&(1<<i) != 0 && len(fv[i]) > 0 {
					rv.Fields[i] = fv[i][spread(k, n, len(fv[i]), limit)]
				}
			}
			out = append(out, rv)
		}
		if subsets > 0 {
			for m := 0; m < subsets; m++ {
				addSubset(uint64(m), m)
			}
		} else {
			full := uint64(1)<<nf - 1
			addSubset(0, 0)
			addSubset(full, 0)
			for i := 0; i < nf; i++ {
				addSubset(1<<i, i)
				addSubset(full&^(1<<i), i+1)
			}
		}
		// all fields present, cycling through every value
		full := uint64(1)<<nf - 1
		for k := 0; k < n; k++ {
			addSubset(full, k)
		}
		return out
	case schema.Union:
		var out []*RecValue
		for i, b := range r.Branches {
			for _, iv := range RecValues(b.Rec, depth+1, limit) {
				out = append(out, &RecValue{R: r, Branch: i, Inner: iv})
			}
		}
		return out
	}
	return nil
}

// BigSizes are the element / byte counts around the decoders' pre-allocation threshold (4096).
var BigSizes = []int{4096, 4097, 8193}
var BigSizesThorough = []int{4095, 4096, 4097, 5000, 8192, 8193, 12289}

// IsBig reports whether the record is one of the dedicated large-value cases.
func IsBig(r *schema.Record) bool { return strings.HasPrefix(r.Name, "CXBig") }

func bigValue(t *schema.Type, n int) *Value {
	switch t.Kind {
	case schema.Prim:
		if t.Name == "string" {
			return &Value{T: t, Str: strings.Repeat("0123456789abcdef", n/16+1)[:n]}
		}
	case schema.ArrayT:
		v := &Value{T: t}
		ev := Values(t.Elem, 1)
		if t.Elem.Name == "string" {
			ev = []*Value{{T: t.Elem, Str: ""}, {T: t.Elem, Str: "x"}}
		}
		for i := 0; i < n; i++ {
			v.Elems = append(v.Elems, ev[i%len(ev)])
		}
		return v
	case schema.MapT:
		v := &Value{T: t}
		vv := Values(t.Elem, 1)
		// one-byte keys: the map is filled to its whole key space (256 entries), whatever size was asked for
		switch t.Key {
		case "byte", "uint8":
			n = 256
		case "bool":
			n = 2
		}
		for i := 0; i < n; i++ {
			v.Keys = append(v.Keys, &Value{T: schema.P(t.Key), Bits: uint64(i)})
			v.Vals = append(v.Vals, vv[i%len(vv)])
		}
		return v
	case schema.RecT:
		// a nested big record: its smallest big value for the smaller sizes, its largest for the largest size
		if IsBig(t.Rec) {
			if bv := BigValues(t.Rec, false); len(bv) > 0 {
				if n >= BigSizes[len(BigSizes)-1] {
					return &Value{T: t, Rec: bv[len(bv)-1]}
				}
				return &Value{T: t, Rec: bv[0]}
			}
		}
	}
	return nil
}

// BigValues builds, for each size, a value of the record in which every string/array/map field holds that many
// elements (messages: one field at a time as well as all together; unions: each branch).
func BigValues(r *schema.Record, thorough bool) []*RecValue {
	sizes := BigSizes
	if thorough {
		sizes = BigSizesThorough
	}
	var out []*RecValue
	for _, n := range sizes {
		switch r.Kind {
		case schema.Struct:
			rv := &RecValue{R: r, Fields: make([]*Value, len(r.Fields))}
			for i, f := range r.Fields {
				if b := bigValue(f.Type, n); b != nil {
					rv.Fields[i] = b
				} else {
					rv.Fields[i] = Values(f.Type, 1)[1]
				}
			}
			out = append(out, rv)
		case schema.Message:
			all := &RecValue{R: r, Fields: make([]*Value, len(r.Fields))}
			for i, f := range r.Fields {
				if b := bigValue(f.Type, n); b != nil {
					all.Fields[i] = b
					one := &RecValue{R: r, Fields: make([]*Value, len(r.Fields))}
					one.Fields[i] = b
					out = append(out, one)
				}
			}
			out = append(out, all)
		case schema.Union:
			for bi, br := range r.Branches {
				for _, iv := range BigValues(br.Rec, false) {
					if len(out) < 64 {
						out = append(out, &RecValue{R: r, Branch: bi, Inner: iv})
					}
				}
			}
			return out
		}
	}
	return out
}

// HugeSize is a payload length well above the decoders' allocation budget (1 MiB + 64 B per input byte): a decoder
// that sizes an allocation from the announced length of a truncated huge payload is out of proportion to its input.
const HugeSize = 3 << 20

func hugeValue(t *schema.Type) *Value {
	switch t.Kind {
	case schema.Prim:
		if t.Name == "string" {
			return &Value{T: t, Str: strings.Repeat("0123456789abcdef", HugeSize/16)}
		}
	case schema.ArrayT:
		if t.Elem.Kind == schema.Prim && (t.Elem.Name == "byte" || t.Elem.Name == "uint8") {
			return bigValue(t, HugeSize)
		}
	case schema.RecT:
		if hv := HugeValues(t.Rec); len(hv) > 0 {
			return &Value{T: t, Rec: hv[0]}
		}
	}
	return nil
}

// HugeValues builds values of the record in which one string / byte-array field (possibly inside a nested record)
// holds HugeSize bytes and everything else is small. Used for truncation near the header only.
func HugeValues(r *schema.Record) []*RecValue {
	var out []*RecValue
	switch r.Kind {
	case schema.Struct, schema.Message:
		for i, f := range r.Fields {
			h := hugeValue(f.Type)
			if h == nil {
				continue
			}
			rv := &RecValue{R: r, Fields: make([]*Value, len(r.Fields))}
			for j, g := range r.Fields {
				if j == i {
					rv.Fields[j] = h
				} else if r.Kind == schema.Struct {
					rv.Fields[j] = Values(g.Type, 1)[1]
				}
			}
			out = append(out, rv)
		}
	case schema.Union:
		for bi, br := range r.Branches {
			for _, iv := range HugeValues(br.Rec) {
				out = append(out, &RecValue{R: r, Branch: bi, Inner: iv})
			}
		}
	}
	return out
}

// HugeArrayValue builds a value of r (struct or message) whose field named field - an array - holds n elements, everything
// else small. Used for truncation near the header: a decoder must not size an allocation from the count alone.
func HugeArrayValue(r *schema.Record, field string, n int) *RecValue {
	rv := &RecValue{R: r, Fields: make([]*Value, len(r.Fields))}
	found := false
	for j, g := range r.Fields {
		if g.Name == field && (g.Type.Kind == schema.ArrayT || (g.Type.Kind == schema.MapT && g.Type.Key == "uint32")) {
			rv.Fields[j] = bigValue(g.Type, n)
			found = true
		} else if r.Kind == schema.Struct {
			rv.Fields[j] = Values(g.Type, 1)[1]
		}
	}
	if !found {
		return nil
	}
	return rv
}

// ThoroughBig selects the larger size list for BigValues inside RecValues (set once by the worker).
var ThoroughBig bool

// AmbiguousDates adds date values whose normal form is unspecified (negative, off the 100 ns grid); set by C02 only.
var AmbiguousDates bool
