package refcodec

import "testing"

func TestSelf(t *testing.T) {
	if err := SelfTest(); err != nil {
		t.Fatal(err)
	}
}
