// Package vlib is the shared plumbing of every check: tier/seed handling, evidence files,
// violation signatures, known-finding matching, replay files and a parallel map helper.
// It does not import the repository under test.
package vlib

import (
	"crypto/sha256"
	"encoding/hex"
	"encoding/json"
	"fmt"
	"os"
	"path/filepath"
	"runtime"
	"sort"
	"strconv"
	"strings"
	"sync"
	"time"
)

// VerifDir is the root of the verification tree (overridable for runs from a snapshot).
func VerifDir() string {
	if d := os.Getenv("VERIF_DIR"); d != "" {
		return d
	}
	return "/verif"
}

// RepoDir is the repository under test.
func RepoDir() string {
	if d := os.Getenv("VERIF_REPO"); d != "" {
		return d
	}
	return "/repo"
}

type Run struct {
	Property string
	Tier     string
	Seed     int64
	Level    string
	start    time.Time

	mu         sync.Mutex
	violations []*Violation
	known      map[string]*KnownFinding // by id
	knownSeen  map[string]int
	fixedSeen  map[string]bool
	Coverage   map[string]any
	Assume     []string
	samples    []any
	sampleCap  int
	deadline   time.Time
	capHit     string
}

// Violation is one observed failure of the property.
type Violation struct {
	Property  string         `json:"property"`
	Signature string         `json:"signature"`
	Message   string         `json:"message"`
	Case      map[string]any `json:"case"`
	count     int
}

// KnownFinding is one entry of /verif/known_findings.json.
type KnownFinding struct {
	ID         string   `json:"id"`
	Property   string   `json:"property"`
	Status     string   `json:"status"` // "open" or "fixed"
	What       string   `json:"what"`
	Signatures []string `json:"signatures"` // exact signatures or prefix patterns ending in '*'
	Witness    any      `json:"witness,omitempty"`
	Commit     string   `json:"commit,omitempty"`
}

type knownFile struct {
	Findings []KnownFinding `json:"findings"`
	Fixed    []string       `json:"fixed"`
}

func NewRun(property, level string) *Run {
	r := &Run{Property: property, Level: level, start: time.Now(), Coverage: map[string]any{},
		known: map[string]*KnownFinding{}, knownSeen: map[string]int{}, fixedSeen: map[string]bool{}, sampleCap: 12}
	r.Tier = os.Getenv("VERIF_TIER")
	if r.Tier != "thorough" {
		r.Tier = "quick"
	}
	if s := os.Getenv("VERIF_SEED"); s != "" {
		if v, err := strconv.ParseInt(s, 10, 64); err == nil {
			r.Seed = v
		}
	}
	b, err := os.ReadFile(filepath.Join(VerifDir(), "known_findings.json"))
	if err == nil {
		var kf knownFile
		if err := json.Unmarshal(b, &kf); err != nil {
			fmt.Fprintf(os.Stderr, "HARNESS-ERROR: known_findings.json unreadable: %v\n", err)
			os.Exit(2)
		}
		for i := range kf.Findings {
			f := &kf.Findings[i]
			if f.Property == property && f.Status == "open" {
				r.known[f.ID] = f
			}
		}
	}
	// internal deadline: exit 0 with exhaustive:false
	budget := 10 * time.Minute
	if r.Tier == "thorough" {
		budget = 60 * time.Minute
	}
	if s := os.Getenv("VERIF_BUDGET_S"); s != "" {
		if v, err := strconv.Atoi(s); err == nil {
			budget = time.Duration(v) * time.Second
		}
	}
	r.deadline = r.start.Add(budget)
	return r
}

func (r *Run) Thorough() bool { return r.Tier == "thorough" }

// TimeUp reports whether the internal deadline passed; callers stop enumerating and mark the cap.
func (r *Run) TimeUp(what string) bool {
	if time.Now().After(r.deadline) {
		r.mu.Lock()
		if r.capHit == "" {
			r.capHit = "internal time budget reached during " + what
		}
		r.mu.Unlock()
		return true
	}
	return false
}

func (r *Run) Cap(what string) {
	r.mu.Lock()
	if r.capHit == "" {
		r.capHit = what
	}
	r.mu.Unlock()
}

func matchSig(pat, sig string) bool {
	if strings.HasSuffix(pat, "*") {
		return strings.HasPrefix(sig, strings.TrimSuffix(pat, "*"))
	}
	return pat == sig
}

// Report records one violation. The signature must name the failure class (never only the id).
func (r *Run) Report(sig, msg string, c map[string]any) {
	msg = Short(msg, 1500)
	r.mu.Lock()
	defer r.mu.Unlock()
	for id, k := range r.known {
		for _, p := range k.Signatures {
			if matchSig(p, sig) {
				r.knownSeen[id]++
				return
			}
		}
	}
	for _, v := range r.violations {
		if v.Signature == sig {
			v.count++
			return
		}
	}
	r.violations = append(r.violations, &Violation{Property: r.Property, Signature: sig, Message: msg, Case: c, count: 1})
}

// Sample keeps a few explored cases for the evidence file.
func (r *Run) Sample(s any) {
	r.mu.Lock()
	if len(r.samples) < r.sampleCap {
		r.samples = append(r.samples, s)
	}
	r.mu.Unlock()
}

func (r *Run) NumViolations() int {
	r.mu.Lock()
	defer r.mu.Unlock()
	return len(r.violations)
}

// Finish writes the evidence file, prints KNOWN-FINDING / VIOLATION lines, and exits.
func (r *Run) Finish() {
	wall := time.Since(r.start).Seconds()
	cov := r.Coverage
	if _, ok := cov["samples"]; !ok {
		cov["samples"] = r.samples
	}
	// the evidence file is a record to read, not an archive: a sample that embeds a multi-megabyte input
	// (C19's padded files) is written with the middle of every long string elided; replays keep full cases
	cov["samples"] = compactStrings(cov["samples"], 4096)
	if r.capHit != "" {
		cov["exhaustive"] = false
		cov["cap_hit"] = r.capHit
	} else if _, ok := cov["exhaustive"]; !ok {
		cov["exhaustive"] = true
	}
	ids := make([]string, 0, len(r.knownSeen))
	for id := range r.knownSeen {
		ids = append(ids, id)
	}
	sort.Strings(ids)
	kf := []map[string]any{}
	for _, id := range ids {
		kf = append(kf, map[string]any{"id": id, "cases_matched": r.knownSeen[id]})
		fmt.Printf("KNOWN-FINDING: property=%s %s: %s (%d cases)\n", r.Property, id, r.known[id].What, r.knownSeen[id])
	}
	cov["known_findings_reobserved"] = kf
	vs := r.violations
	sort.Slice(vs, func(i, j int) bool { return vs[i].Signature < vs[j].Signature })
	maxPrint := 25
	sigs := []string{}
	for i, v := range vs {
		sigs = append(sigs, fmt.Sprintf("%s (x%d)", v.Signature, v.count))
		if i >= maxPrint {
			continue
		}
		path := r.writeReplay(v)
		fmt.Printf("VIOLATION property=%s replay=%s\n", r.Property, path)
		fmt.Printf("  signature: %s (x%d)\n  %s\n", v.Signature, v.count, v.Message)
	}
	if len(vs) > maxPrint {
		fmt.Printf("  ... and %d more violation signatures (see evidence file)\n", len(vs)-maxPrint)
	}
	cov["violation_signatures"] = sigs
	ev := map[string]any{
		"property_id": r.Property,
		"tier":        r.Tier,
		"seed":        r.Seed,
		"level":       r.Level,
		"coverage":    cov,
		"assumptions": r.Assume,
		"wall_s":      wall,
		"violations":  len(vs),
	}
	b, _ := json.MarshalIndent(ev, "", " ")
	dir := filepath.Join(VerifDir(), "evidence")
	_ = os.MkdirAll(dir, 0o755)
	if err := os.WriteFile(filepath.Join(dir, r.Property+".json"), b, 0o644); err != nil {
		fmt.Fprintf(os.Stderr, "HARNESS-ERROR: cannot write evidence: %v\n", err)
		os.Exit(2)
	}
	fmt.Printf("%s tier=%s wall=%.1fs violations=%d known=%d exhaustive=%v\n", r.Property, r.Tier, wall, len(vs), len(ids), cov["exhaustive"])
	if len(vs) > 0 {
		os.Exit(1)
	}
	os.Exit(0)
}

// compactStrings returns v as generic JSON data in which every string longer than max bytes keeps its first
// and last max/2 bytes around a note giving the elided length and the SHA-256 of the whole string.
func compactStrings(v any, max int) any {
	b, err := json.Marshal(v)
	if err != nil {
		return v
	}
	var g any
	dec := json.NewDecoder(strings.NewReader(string(b)))
	dec.UseNumber()
	if err := dec.Decode(&g); err != nil {
		return v
	}
	var walk func(x any) any
	walk = func(x any) any {
		switch t := x.(type) {
		case string:
			if len(t) <= max {
				return t
			}
			h := sha256.Sum256([]byte(t))
			head, tail := strings.ToValidUTF8(t[:max/2], ""), strings.ToValidUTF8(t[len(t)-max/2:], "")
			return fmt.Sprintf("%s ...[%d of %d bytes elided in the evidence file; sha256 of the whole string %s]... %s", head, len(t)-len(head)-len(tail), len(t), hex.EncodeToString(h[:]), tail)
		case []any:
			for i := range t {
				t[i] = walk(t[i])
			}
			return t
		case map[string]any:
			for k := range t {
				t[k] = walk(t[k])
			}
			return t
		}
		return x
	}
	return walk(g)
}

func (r *Run) writeReplay(v *Violation) string {
	b, _ := json.MarshalIndent(v, "", " ")
	h := sha256.Sum256([]byte(v.Signature))
	dir := filepath.Join(VerifDir(), "replays", r.Property)
	_ = os.MkdirAll(dir, 0o755)
	p := filepath.Join(dir, hex.EncodeToString(h[:6])+".json")
	_ = os.WriteFile(p, b, 0o644)
	return p
}

// Fatal reports a harness error (never a verdict) and exits 2.
func Fatal(format string, a ...any) {
	fmt.Fprintf(os.Stderr, "HARNESS-ERROR: "+format+"\n", a...)
	os.Exit(2)
}

// ParallelFor runs f(i) for i in [0,n) on all cores.
func ParallelFor(n int, f func(i int)) {
	w := runtime.NumCPU()
	if w > n {
		w = n
	}
	if w < 1 {
		w = 1
	}
	var wg sync.WaitGroup
	ch := make(chan int, 256)
	for k := 0; k < w; k++ {
		wg.Add(1)
		go func() {
			defer wg.Done()
			for i := range ch {
				f(i)
			}
		}()
	}
	for i := 0; i < n; i++ {
		ch <- i
	}
	close(ch)
	wg.Wait()
}

// Counter is a concurrency-safe set/counter used for "distinct outcomes" numbers.
type Counter struct {
	mu sync.Mutex
	m  map[string]int
}

func NewCounter() *Counter { return &Counter{m: map[string]int{}} }
func (c *Counter) Add(k string) {
	c.mu.Lock()
	c.m[k]++
	c.mu.Unlock()
}
func (c *Counter) Distinct() int {
	c.mu.Lock()
	defer c.mu.Unlock()
	return len(c.m)
}
func (c *Counter) Top(n int) map[string]int {
	c.mu.Lock()
	defer c.mu.Unlock()
	type kv struct {
		k string
		v int
	}
	l := []kv{}
	for k, v := range c.m {
		l = append(l, kv{k, v})
	}
	sort.Slice(l, func(i, j int) bool {
		if l[i].v != l[j].v {
			return l[i].v > l[j].v
		}
		return l[i].k < l[j].k
	})
	out := map[string]int{}
	for i := 0; i < len(l) && i < n; i++ {
		out[l[i].k] = l[i].v
	}
	return out
}

// Hex renders bytes compactly for samples and messages.
func Hex(b []byte) string {
	if len(b) > 96 {
		return hex.EncodeToString(b[:96]) + fmt.Sprintf("...(%d bytes)", len(b))
	}
	return hex.EncodeToString(b)
}

// Short truncates long strings in messages.
func Short(s string, n int) string {
	if len(s) > n {
		return s[:n] + fmt.Sprintf("...(%d bytes)", len(s))
	}
	return s
}
