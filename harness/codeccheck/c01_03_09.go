package codeccheck

import (
	"bytes"
	"fmt"

	"github.com/200sc/bebop"
	"verif/driver"
	"verif/refcodec"
	"verif/vlib"
)

type decoder struct {
	name string
	run  func(rec bebop.Record, b []byte) (ran bool, o driver.Outcome)
}

var decoders = []decoder{
	{"UnmarshalBebop", func(rec bebop.Record, b []byte) (bool, driver.Outcome) {
		in := append([]byte{}, b...)
		return true, driver.Guard(func() error { return rec.UnmarshalBebop(in) })
	}},
	{"MustUnmarshalBebop", func(rec bebop.Record, b []byte) (bool, driver.Outcome) {
		if !driver.HasMust(rec) {
			return false, driver.Outcome{}
		}
		in := append([]byte{}, b...)
		return true, driver.Guard(func() error { driver.MustUnmarshal(rec, in); return nil })
	}},
	{"DecodeBebop", func(rec bebop.Record, b []byte) (bool, driver.Outcome) {
		return true, driver.Guard(func() error { return rec.DecodeBebop(bytes.NewReader(b)) })
	}},
}

// chunkedDecoders read the stream through a harness reader that fragments every read (C05 explores schedules
// exhaustively; here the two uniform ones make the round-trip checks independent of full reads).
var chunkedDecoders = []decoder{
	{"DecodeBebop(1-byte reads)", func(rec bebop.Record, b []byte) (bool, driver.Outcome) {
		cr := driver.NewChunkReader(b)
		cr.Choose = pickOption(driver.OptOne)
		return true, driver.Guard(func() error { return rec.DecodeBebop(cr) })
	}},
	{"DecodeBebop(half reads)", func(rec bebop.Record, b []byte) (bool, driver.Outcome) {
		cr := driver.NewChunkReader(b)
		cr.Choose = pickOption(driver.OptHalf)
		return true, driver.Guard(func() error { return rec.DecodeBebop(cr) })
	}},
}

func pickOption(want int) func(opts []int) int {
	return func(opts []int) int {
		for i, o := range opts {
			if o == want {
				return i
			}
		}
		return 0
	}
}

func outcomeStr(o driver.Outcome) string {
	if o.Panicked {
		return "panic(" + o.PanicKind + " in " + o.Site + "): " + vlib.Short(o.PanicMsg, 120)
	}
	if o.Err != nil {
		return "error: " + o.Err.Error()
	}
	return "ok"
}

// ---- C01: encode ∘ decode = identity, 3×3 pairings --------------------------------------------

func (w *W) c01(groups [][]*driver.Bound) {
	for _, g := range groups {
		if isEvo(g) {
			continue
		}
		for _, b := range g {
			if !w.begin(b) {
				continue
			}
			vals := refcodec.RecValues(b.Case.Rec, 0, 0)
			for vi, rv := range vals {
				if w.slow(b) {
					break
				}
				w.res.States++
				want := refcodec.NormalRec(rv)
				rec, err := b.Fresh(rv)
				if err != nil {
					w.res.HarnessErr = err.Error()
					return
				}
				e := encodeAll(rec)
				encsList := []struct {
					name string
					b    []byte
					o    driver.Outcome
				}{{"MarshalBebop", e.marshal, e.oM}, {"MarshalBebopTo", e.to, e.oT}, {"EncodeBebop", e.stream, e.oS}}
				for _, en := range encsList {
					if en.o.Panicked || en.o.Err != nil {
						w.report(fmt.Sprintf("C01|encode-fails|%s|%s|%s", en.name, b.Case.Class, failKind(en.o)),
							fmt.Sprintf("%s of a valid value failed: %s", en.name, outcomeStr(en.o)), caseInfo(b, rv))
						continue
					}
					w.distinctKey(b.Case.ID + string(en.b))
					decs := decoders
					if en.name == "EncodeBebop" {
						decs = append(append([]decoder{}, decoders...), chunkedDecoders...)
					}
					for _, d := range decs {
						out := b.New()
						ran, o := d.run(out, en.b)
						if !ran {
							continue
						}
						w.res.Transitions++
						if o.Panicked || o.Err != nil {
							w.report(fmt.Sprintf("C01|decode-fails|%s>%s|%s|%s", en.name, d.name, b.Case.Class, failKind(o)),
								fmt.Sprintf("%s of the bytes %s produced failed: %s (bytes %s)", d.name, en.name, outcomeStr(o), vlib.Hex(en.b)), caseInfo(b, rv))
							continue
						}
						got, err := b.Extract(out)
						if err != nil {
							w.res.HarnessErr = err.Error()
							return
						}
						if g := refcodec.NormalRec(got); g != want {
							w.report(fmt.Sprintf("C01|value-differs|%s>%s|%s", en.name, d.name, b.Case.Class),
								fmt.Sprintf("%s∘%s changed the value: want %s got %s (bytes %s)", d.name, en.name, vlib.Short(want, 300), vlib.Short(g, 300), vlib.Hex(en.b)), caseInfo(b, rv))
						}
					}
				}
				if vi == 1 && b.Opt == 0 {
					w.sample(map[string]any{"case": b.Case.ID, "class": b.Case.Class, "value": vlib.Short(want, 200), "bytes": vlib.Hex(e.marshal), "pairings": "3 encoders x 3 decoders"})
				}
			}
		}
	}
}

func failKind(o driver.Outcome) string {
	if o.Panicked {
		return "panic:" + o.PanicKind + "@" + o.Site
	}
	if o.Err != nil {
		return "error"
	}
	return "ok"
}

// ---- C02: three encoders agree, Size() exact, MarshalBebopTo stays inside Size() ----------------

func (w *W) c02(groups [][]*driver.Bound) {
	refcodec.AmbiguousDates = true
	for _, g := range groups {
		if isEvo(g) {
			continue
		}
		for _, b := range g {
			if !w.begin(b) {
				continue
			}
			vals := refcodec.RecValues(b.Case.Rec, 0, 0)
			for vi, rv := range vals {
				if w.slow(b) {
					break
				}
				rots := []int{0}
				if hasMultiMap(rv) {
					rots = []int{0, 1, 2, 3, 4, 5, 6, 7}
				}
				for _, r := range rots {
					w.res.States++
					SetMapRotation(r)
					rec, err := b.Fresh(rv)
					if err != nil {
						SetMapRotation(0)
						w.res.HarnessErr = err.Error()
						return
					}
					var size int
					var m []byte
					oS := driver.Guard(func() error { size = rec.Size(); return nil })
					oM := driver.Guard(func() error { m = rec.MarshalBebop(); return nil })
					var sb bytes.Buffer
					oE := driver.Guard(func() error { return rec.EncodeBebop(&sb) })
					w.res.Transitions += 3
					ci := caseInfo(b, rv)
					ci["map_rotation"] = r
					if oS.Panicked || oM.Panicked || oE.Panicked || oE.Err != nil {
						w.report(fmt.Sprintf("C02|encoder-fails|%s|%s", b.Case.Class, failKind(firstBad(oS, oM, oE))), "an encoder failed on a valid value: "+outcomeStr(firstBad(oS, oM, oE)), ci)
						continue
					}
					w.distinctKey(b.Case.ID + string(m))
					if len(m) != size {
						w.report("C02|size-vs-marshal|"+b.Case.Class, fmt.Sprintf("len(MarshalBebop()) = %d but Size() = %d", len(m), size), ci)
					}
					if !bytes.Equal(sb.Bytes(), m) {
						w.report("C02|stream-vs-marshal|"+b.Case.Class, fmt.Sprintf("EncodeBebop wrote %s, MarshalBebop returned %s", vlib.Hex(sb.Bytes()), vlib.Hex(m)), ci)
					}
					for _, fill := range []byte{0x00, 0xFF, 0xA5} {
						for _, extra := range []int{0, 8} {
							buf := bytes.Repeat([]byte{fill}, size+extra)
							if fill == 0xA5 {
								for i := range buf {
									if i%2 == 1 {
										buf[i] = 0x5A
									}
								}
							}
							orig := append([]byte{}, buf...)
							var n int
							oT := driver.Guard(func() error { n = rec.MarshalBebopTo(buf); return nil })
							w.res.Transitions++
							ci2 := caseInfo(b, rv)
							ci2["map_rotation"] = r
							ci2["buffer_fill"] = fmt.Sprintf("%#x", fill)
							ci2["buffer_extra"] = extra
							if oT.Panicked {
								w.report(fmt.Sprintf("C02|marshalto-panics|%s|%s", b.Case.Class, failKind(oT)), "MarshalBebopTo into a Size()-byte buffer panicked: "+outcomeStr(oT), ci2)
								continue
							}
							if n != size {
								w.report("C02|marshalto-return|"+b.Case.Class, fmt.Sprintf("MarshalBebopTo returned %d, Size() is %d", n, size), ci2)
							}
							if !bytes.Equal(buf[size:], orig[size:]) {
								w.report("C02|marshalto-writes-past-size|"+b.Case.Class, fmt.Sprintf("MarshalBebopTo modified bytes beyond Size()=%d: %s -> %s", size, vlib.Hex(orig[size:]), vlib.Hex(buf[size:])), ci2)
							}
							if !bytes.Equal(buf[:size], m[:min(size, len(m))]) {
								w.report("C02|marshalto-vs-marshal|"+b.Case.Class, fmt.Sprintf("MarshalBebopTo into a %#x-filled buffer gave %s, MarshalBebop gave %s (a byte the encoder never writes keeps the buffer's old content)", fill, vlib.Hex(buf[:size]), vlib.Hex(m)), ci2)
							}
						}
					}
					if vi == 1 && b.Opt == 0 && r == 0 {
						w.sample(map[string]any{"case": b.Case.ID, "class": b.Case.Class, "size": size, "bytes": vlib.Hex(m), "buffer_prestates": "00/ff/a55a x extra 0/8", "map_rotations": len(rots)})
					}
				}
				SetMapRotation(0)
			}
		}
	}
}

func firstBad(os ...driver.Outcome) driver.Outcome {
	for _, o := range os {
		if o.Panicked || o.Err != nil {
			return o
		}
	}
	return driver.Outcome{}
}

// ---- C03: bytes are the wire format; decoders accept every conformant encoding -------------------

func permutations(n int) [][]int {
	if n <= 1 {
		return [][]int{seq(n)}
	}
	var out [][]int
	var rec func(cur []int, used []bool)
	rec = func(cur []int, used []bool) {
		if len(cur) == n {
			out = append(out, append([]int{}, cur...))
			return
		}
		for i := 0; i < n; i++ {
			if !used[i] {
				used[i] = true
				rec(append(cur, i), used)
				used[i] = false
			}
		}
	}
	rec(nil, make([]bool, n))
	return out
}

func seq(n int) []int {
	s := make([]int, n)
	for i := range s {
		s[i] = i
	}
	return s
}

func maxMapLen(rv *refcodec.RecValue) int {
	mx := 0
	var rec func(v *refcodec.Value)
	var recR func(r *refcodec.RecValue)
	rec = func(v *refcodec.Value) {
		if v == nil {
			return
		}
		if len(v.Keys) > mx {
			mx = len(v.Keys)
		}
		for _, e := range v.Elems {
			rec(e)
		}
		for _, e := range v.Vals {
			rec(e)
		}
		if v.Rec != nil {
			recR(v.Rec)
		}
	}
	recR = func(r *refcodec.RecValue) {
		for _, f := range r.Fields {
			rec(f)
		}
		if r.Inner != nil {
			recR(r.Inner)
		}
	}
	recR(rv)
	return mx
}

func (w *W) c03(groups [][]*driver.Bound) {
	for _, g := range groups {
		if isEvo(g) {
			continue
		}
		for _, b := range g {
			if !w.begin(b) {
				continue
			}
			vals := refcodec.RecValues(b.Case.Rec, 0, 0)
			for vi, rv := range vals {
				if w.slow(b) {
					break
				}
				want := refcodec.NormalRec(rv)
				rots := []int{0}
				if hasMultiMap(rv) {
					rots = []int{0, 1, 2, 5}
				}
				// encode direction: implementation bytes == reference bytes under the same map order
				for _, r := range rots {
					w.res.States++
					SetMapRotation(r)
					rec, err := b.Fresh(rv)
					if err != nil {
						SetMapRotation(0)
						w.res.HarnessErr = err.Error()
						return
					}
					var ref refcodec.Enc
					if maxMapLen(rv) > 8 {
						refcodec.EncodeRec(&ref, rv, nil)
					} else {
						refcodec.EncodeRec(&ref, rv, refcodec.Rotation(r))
					}
					e := encodeAll(rec)
					w.res.Transitions += 3
					ci := caseInfo(b, rv)
					ci["map_rotation"] = r
					for _, en := range []struct {
						name string
						b    []byte
						o    driver.Outcome
					}{{"MarshalBebop", e.marshal, e.oM}, {"EncodeBebop", e.stream, e.oS}, {"MarshalBebopTo(reused buffer)", e.to, e.oT}} {
						if en.b == nil && !en.o.Panicked {
							continue // Size() unusable: C02 reports it
						}
						if en.o.Panicked || en.o.Err != nil {
							w.report(fmt.Sprintf("C03|encode-fails|%s|%s|%s", en.name, b.Case.Class, failKind(en.o)), en.name+" failed: "+outcomeStr(en.o), ci)
							continue
						}
						if maxMapLen(rv) > 8 {
							// iteration order of maps with more than 8 entries is not the rotation the reference models:
							// compare the length only (entry contents are covered by the decode direction and by C01)
							if len(en.b) != len(ref.B) {
								w.report(fmt.Sprintf("C03|length-differs|%s|%s", en.name, b.Case.Class), fmt.Sprintf("%s emitted %d bytes, the wire encoding has %d", en.name, len(en.b), len(ref.B)), ci)
							}
							continue
						}
						if !bytes.Equal(en.b, ref.B) {
							w.report(fmt.Sprintf("C03|bytes-differ|%s|%s|%s", en.name, b.Case.Class, diffRole(en.b, &ref)),
								fmt.Sprintf("%s emitted %s; the Bebop wire encoding is %s (first difference at byte %d, role %s)", en.name, vlib.Hex(en.b), vlib.Hex(ref.B), firstDiff(en.b, ref.B), diffRole(en.b, &ref)), ci)
						}
					}
					w.distinctKey(b.Case.ID + string(ref.B))
				}
				SetMapRotation(0)
				// decode direction: every permutation of map entries the reference encoder can produce
				perms := permutations(min(maxMapLen(rv), 3))
				// ... and, once more, with the fields of every message in descending index order (fields are tagged, not ordered)
				perms = append(perms, perms[0])
				for pi, p := range perms {
					p := p
					var ref refcodec.Enc
					refcodec.MessageFieldsDescending = pi == len(perms)-1
					refcodec.EncodeRec(&ref, rv, func(n int) []int {
						if n == len(p) {
							return p
						}
						if n > 8 {
							// big maps: insertion order, or reversed
							o := seq(n)
							if pi%2 == 1 {
								for i, j := 0, n-1; i < j; i, j = i+1, j-1 {
									o[i], o[j] = o[j], o[i]
								}
							}
							return o
						}
						// smaller maps: rotate by the permutation ordinal
						return refcodec.Rotation(pi % max(n, 1))(n)
					})
					refcodec.MessageFieldsDescending = false
					for _, d := range decoders {
						out := b.New()
						ran, o := d.run(out, ref.B)
						if !ran {
							continue
						}
						w.res.Transitions++
						ci := caseInfo(b, rv)
						ci["permutation"] = p
						ci["message_fields_descending"] = pi == len(perms)-1
						ci["bytes"] = vlib.Hex(ref.B)
						if o.Panicked || o.Err != nil {
							w.report(fmt.Sprintf("C03|decode-rejects-conformant|%s|%s|%s", d.name, b.Case.Class, failKind(o)),
								fmt.Sprintf("%s rejected the reference encoding %s: %s", d.name, vlib.Hex(ref.B), outcomeStr(o)), ci)
							continue
						}
						got, err := b.Extract(out)
						if err != nil {
							w.res.HarnessErr = err.Error()
							return
						}
						if gs := refcodec.NormalRec(got); gs != want {
							w.report(fmt.Sprintf("C03|decode-value-differs|%s|%s", d.name, b.Case.Class),
								fmt.Sprintf("%s of the reference encoding %s gave %s, want %s", d.name, vlib.Hex(ref.B), vlib.Short(gs, 300), vlib.Short(want, 300)), ci)
						}
					}
				}
				if vi == 2 && b.Opt == 0 {
					var ref refcodec.Enc
					refcodec.EncodeRec(&ref, rv, nil)
					w.sample(map[string]any{"case": b.Case.ID, "class": b.Case.Class, "value": vlib.Short(want, 160), "reference_bytes": vlib.Hex(ref.B), "map_permutations": len(perms)})
				}
			}
		}
	}
}

func firstDiff(a, b []byte) int {
	n := min(len(a), len(b))
	for i := 0; i < n; i++ {
		if a[i] != b[i] {
			return i
		}
	}
	return n
}

func diffRole(got []byte, ref *refcodec.Enc) string {
	i := firstDiff(got, ref.B)
	if i < len(ref.Roles) {
		return ref.Roles[i].String()
	}
	return "length"
}

// ---- C09: generator options never change the wire -------------------------------------------------

func (w *W) c09(groups [][]*driver.Bound) {
	for _, g := range groups {
		if isEvo(g) || len(g) < 2 {
			continue
		}
		base := g[0] // lowest option mask present (0 when the empty option set built)
		if !w.begin(base) {
			continue
		}
		vals := refcodec.RecValues(base.Case.Rec, 0, 0)
		for vi, rv := range vals {
			if w.slow(base) {
				break
			}
			w.res.States++
			want := refcodec.NormalRec(rv)
			r := vi & 7
			SetMapRotation(r)
			var baseBytes []byte
			for _, b := range g {
				rec, err := b.Fresh(rv)
				if err != nil {
					SetMapRotation(0)
					w.res.HarnessErr = err.Error()
					return
				}
				e := encodeAll(rec)
				w.res.Transitions += 3
				ci := caseInfo(b, rv)
				ci["map_rotation"] = r
				ci["baseline_options"] = driver.OptName(base.Opt)
				bad := firstBad(e.oSize, e.oM, e.oT, e.oS)
				if bad.Panicked || bad.Err != nil {
					w.report(fmt.Sprintf("C09|encode-fails|%s|%s|%s", driver.OptName(b.Opt), b.Case.Class, failKind(bad)), "encoder failed under options "+driver.OptName(b.Opt)+": "+outcomeStr(bad), ci)
					continue
				}
				if b == base {
					baseBytes = e.marshal
					w.distinctKey(b.Case.ID + string(e.marshal))
				}
				if baseBytes == nil {
					continue
				}
				for _, en := range []struct {
					name string
					b    []byte
				}{{"MarshalBebop", e.marshal}, {"EncodeBebop", e.stream}} {
					if !bytes.Equal(en.b, baseBytes) {
						w.report(fmt.Sprintf("C09|bytes-differ|%s|%s|%s", optDiff(b.Opt, base.Opt), en.name, b.Case.Class),
							fmt.Sprintf("%s under options [%s] emitted %s; under [%s] it emitted %s", en.name, driver.OptName(b.Opt), vlib.Hex(en.b), driver.OptName(base.Opt), vlib.Hex(baseBytes)), ci)
					}
				}
			}
			SetMapRotation(0)
			if baseBytes == nil {
				continue
			}
			// decode the common encoding under every option set
			for _, b := range g {
				var unm string
				for _, d := range decoders {
					out := b.New()
					ran, o := d.run(out, baseBytes)
					if !ran {
						continue
					}
					w.res.Transitions++
					ci := caseInfo(b, rv)
					ci["bytes"] = vlib.Hex(baseBytes)
					if o.Panicked || o.Err != nil {
						w.report(fmt.Sprintf("C09|decode-fails|%s|%s|%s|%s", optDiff(b.Opt, base.Opt), d.name, b.Case.Class, failKind(o)),
							fmt.Sprintf("%s under options [%s] failed on bytes valid under [%s]: %s", d.name, driver.OptName(b.Opt), driver.OptName(base.Opt), outcomeStr(o)), ci)
						continue
					}
					got, err := b.Extract(out)
					if err != nil {
						w.res.HarnessErr = err.Error()
						return
					}
					gs := refcodec.NormalRec(got)
					if d.name == "UnmarshalBebop" {
						unm = gs
					}
					if d.name == "MustUnmarshalBebop" && unm != "" && gs != unm {
						w.report(fmt.Sprintf("C09|must-vs-unmarshal|%s|%s", driver.OptName(b.Opt), b.Case.Class),
							fmt.Sprintf("MustUnmarshalBebop gave %s, UnmarshalBebop gave %s on %s", vlib.Short(gs, 200), vlib.Short(unm, 200), vlib.Hex(baseBytes)), ci)
					}
					if gs != want {
						w.report(fmt.Sprintf("C09|decode-value-differs|%s|%s|%s", optDiff(b.Opt, base.Opt), d.name, b.Case.Class),
							fmt.Sprintf("%s under options [%s] decoded %s as %s, want %s", d.name, driver.OptName(b.Opt), vlib.Hex(baseBytes), vlib.Short(gs, 200), vlib.Short(want, 200)), ci)
					}
				}
			}
			if vi == 1 {
				w.sample(map[string]any{"case": base.Case.ID, "class": base.Case.Class, "option_sets": len(g), "bytes": vlib.Hex(baseBytes)})
			}
		}
	}
}

// optDiff names the options that differ from the baseline.
func optDiff(o, base int) string { return driver.OptName(o ^ base) }
