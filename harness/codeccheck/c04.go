package codeccheck

import (
	"fmt"
	"strings"

	"verif/driver"
	"verif/refcodec"
	"verif/schema"
	"verif/vlib"
)

// ---- C04: forward compatibility wherever the evolved message is nested ---------------------------
//
// Every scenario k defines an old and a new version of one message and places both in the same
// nesting contexts. Old and new records live side by side under different names: only the wire
// matters. A v2 value is encoded with the v2 types and decoded with the v1 types.

type evoScenario struct {
	name     string
	old, new *schema.Record
}

func evoScenarios(sup *schema.Support) []evoScenario {
	base := func(name string) *schema.Record {
		return &schema.Record{Kind: schema.Message, Name: name, Support: true, Label: "message:evolved",
			Fields: []schema.Field{{Name: "a", Index: 1, Type: schema.P("int32")}, {Name: "s", Index: 2, Type: schema.P("string")}}}
	}
	var out []evoScenario
	add := func(name string, extra ...schema.Field) {
		o := base("Ev" + name + "Old")
		n := base("Ev" + name + "New")
		n.Fields = append(n.Fields, extra...)
		out = append(out, evoScenario{name, o, n})
	}
	add("Int", schema.Field{Name: "x", Index: 3, Type: schema.P("int32")})
	add("Str", schema.Field{Name: "x", Index: 3, Type: schema.P("string")})
	add("Bytes", schema.Field{Name: "x", Index: 3, Type: schema.A(schema.P("byte"))})
	add("Msg", schema.Field{Name: "x", Index: 3, Type: sup.Leaf("SupMsg")})
	add("MsgArr", schema.Field{Name: "x", Index: 3, Type: schema.A(sup.Leaf("SupMsg"))})
	add("Two", schema.Field{Name: "x", Index: 3, Type: schema.P("int32")}, schema.Field{Name: "y", Index: 9, Type: schema.P("string")})
	add("Hi", schema.Field{Name: "x", Index: 200, Type: schema.P("uint16")})
	// two-digit indices next to one-digit ones (10 and 11 sort before 2 as text)
	add("TwoDigit", schema.Field{Name: "x", Index: 10, Type: schema.P("int32")}, schema.Field{Name: "y", Index: 11, Type: schema.P("string")}, schema.Field{Name: "z", Index: 100, Type: schema.P("byte")})
	// the reader has deprecated a field the writer still sends
	o := base("EvDepOld")
	o.Fields[1].Deprecated = true
	o.Fields = append(o.Fields, schema.Field{Name: "c", Index: 3, Type: schema.P("int32")})
	n := base("EvDepNew")
	n.Fields = append(n.Fields, schema.Field{Name: "c", Index: 3, Type: schema.P("int32")})
	out = append(out, evoScenario{"Dep", o, n})
	// both versions carry a retired field with the LOWEST index (the usual shape once an old field has been deprecated)
	depLow := func(name string, extra ...schema.Field) *schema.Record {
		r := &schema.Record{Kind: schema.Message, Name: name, Support: true, Label: "message:evolved", Fields: []schema.Field{
			{Name: "nick", Index: 1, Type: schema.P("string"), Deprecated: true}, {Name: "a", Index: 2, Type: schema.P("int32")}, {Name: "s", Index: 3, Type: schema.P("string")}}}
		r.Fields = append(r.Fields, extra...)
		return r
	}
	out = append(out, evoScenario{"DepLow", depLow("EvDepLowOld"), depLow("EvDepLowNew", schema.Field{Name: "email", Index: 4, Type: schema.P("string")})})
	// the reader's version has no field that is ever written: empty, or every field deprecated
	mk := func(name string, fields ...schema.Field) *schema.Record {
		return &schema.Record{Kind: schema.Message, Name: name, Support: true, Label: "message:evolved", Fields: fields}
	}
	out = append(out, evoScenario{"Empty", mk("EvEmptyOld"),
		mk("EvEmptyNew", schema.Field{Name: "a", Index: 1, Type: schema.P("int32")}, schema.Field{Name: "s", Index: 2, Type: schema.P("string")})})
	out = append(out, evoScenario{"AllDep", mk("EvAllDepOld", schema.Field{Name: "s", Index: 1, Type: schema.P("string"), Deprecated: true}),
		mk("EvAllDepNew", schema.Field{Name: "s", Index: 1, Type: schema.P("string")})})
	return out
}

// EvoExtra lists the evolved message definitions (support records of the evolution batch).
func EvoExtra(sup *schema.Support) []*schema.Record {
	var out []*schema.Record
	for _, s := range evoScenarios(sup) {
		out = append(out, s.old, s.new)
	}
	return out
}

func evoContainers(id string, e *schema.Record) []*schema.Case {
	after := schema.Field{Name: "after", Type: schema.P("int32")}
	et := schema.R(e)
	mk := func(ctx string, r *schema.Record) *schema.Case {
		r.Name = id + ctx
		return &schema.Case{ID: r.Name, Ctx: "EV", Class: "EV|" + ctx, Rec: r}
	}
	var out []*schema.Case
	out = append(out, &schema.Case{ID: e.Name, Ctx: "EV", Class: "EV|top", Rec: e})
	sf := mk("SF", &schema.Record{Kind: schema.Struct, Fields: []schema.Field{{Name: "m", Type: et}, after}})
	out = append(out, sf)
	out = append(out, mk("AR", &schema.Record{Kind: schema.Struct, Fields: []schema.Field{{Name: "ms", Type: schema.A(et)}, after}}))
	out = append(out, mk("MV", &schema.Record{Kind: schema.Struct, Fields: []schema.Field{{Name: "mm", Type: schema.M("string", et)}, after}}))
	out = append(out, mk("MF", &schema.Record{Kind: schema.Message, Fields: []schema.Field{{Name: "m", Index: 1, Type: et}, {Name: "after", Index: 2, Type: schema.P("int32")}}}))
	ua := &schema.Record{Kind: schema.Struct, Inline: true, Name: id + "UNA", Fields: []schema.Field{{Name: "m", Type: et}, after}}
	ub := &schema.Record{Kind: schema.Message, Inline: true, Name: id + "UNB", Fields: []schema.Field{{Name: "m", Index: 1, Type: et}, {Name: "after", Index: 2, Type: schema.P("int32")}}}
	out = append(out, mk("UN", &schema.Record{Kind: schema.Union, Branches: []schema.Branch{{Disc: 1, Rec: ua}, {Disc: 2, Rec: ub}}}))
	out = append(out, mk("DP", &schema.Record{Kind: schema.Struct, Fields: []schema.Field{{Name: "inner", Type: schema.A(schema.R(sf.Rec))}, after}}))
	// structs (no length prefix of their own) that hold the evolved message, nested one and two levels deep
	// in every container kind, always with something after them
	ar := out[3].Rec // struct{ array[Ev] ms; after }
	dp := out[len(out)-1].Rec
	sfT := schema.R(sf.Rec)
	out = append(out, mk("DS", &schema.Record{Kind: schema.Struct, Fields: []schema.Field{{Name: "inner", Type: sfT}, after}}))
	out = append(out, mk("DM", &schema.Record{Kind: schema.Struct, Fields: []schema.Field{{Name: "mm", Type: schema.M("uint32", sfT)}, after}}))
	out = append(out, mk("DF", &schema.Record{Kind: schema.Message, Fields: []schema.Field{{Name: "inner", Index: 1, Type: sfT}, {Name: "after", Index: 2, Type: schema.P("int32")}}}))
	out = append(out, mk("DAA", &schema.Record{Kind: schema.Struct, Fields: []schema.Field{{Name: "xs", Type: schema.A(schema.A(sfT))}, after}}))
	out = append(out, mk("DPA", &schema.Record{Kind: schema.Struct, Fields: []schema.Field{{Name: "inner", Type: schema.A(schema.R(ar))}, after}}))
	out = append(out, mk("D3", &schema.Record{Kind: schema.Struct, Fields: []schema.Field{{Name: "inner", Type: schema.A(schema.R(dp))}, {Name: "one", Type: schema.R(dp)}, after}}))
	// holders that reach the evolved message only through nested containers (map of arrays, array of maps, map of maps)
	hma := mk("HMA", &schema.Record{Kind: schema.Struct, Fields: []schema.Field{{Name: "mm", Type: schema.M("string", schema.A(et))}, after}})
	ham := mk("HAM", &schema.Record{Kind: schema.Struct, Fields: []schema.Field{{Name: "am", Type: schema.A(schema.M("uint32", et))}, after}})
	hmm := mk("HMM", &schema.Record{Kind: schema.Struct, Fields: []schema.Field{{Name: "mm", Type: schema.M("string", schema.M("uint32", et))}, after}})
	out = append(out, hma, ham, hmm)
	for _, h := range []*schema.Case{hma, ham, hmm} {
		ctx := strings.TrimPrefix(h.Rec.Name, id)
		out = append(out, mk("N"+ctx+"A", &schema.Record{Kind: schema.Struct, Fields: []schema.Field{{Name: "hs", Type: schema.A(schema.R(h.Rec))}, after}}))
		out = append(out, mk("N"+ctx+"F", &schema.Record{Kind: schema.Message, Fields: []schema.Field{{Name: "h", Index: 1, Type: schema.R(h.Rec)}, {Name: "after", Index: 2, Type: schema.P("int32")}}}))
	}
	// a holder struct DECLARED as a union branch and reused by name as a field type elsewhere
	bh := &schema.Record{Kind: schema.Struct, Inline: true, Name: id + "BH", Fields: []schema.Field{{Name: "m", Type: et}, after}}
	bo := &schema.Record{Kind: schema.Struct, Inline: true, Name: id + "BO", Fields: []schema.Field{{Name: "v", Type: schema.P("int32")}}}
	out = append(out, mk("BHU", &schema.Record{Kind: schema.Union, Branches: []schema.Branch{{Disc: 1, Rec: bh}, {Disc: 2, Rec: bo}}}))
	bhT := schema.R(bh)
	out = append(out, mk("BHS", &schema.Record{Kind: schema.Struct, Fields: []schema.Field{{Name: "h", Type: bhT}, after}}))
	out = append(out, mk("BHA", &schema.Record{Kind: schema.Struct, Fields: []schema.Field{{Name: "hs", Type: schema.A(bhT)}, after}}))
	out = append(out, mk("BHM", &schema.Record{Kind: schema.Message, Fields: []schema.Field{{Name: "h", Index: 1, Type: bhT}, {Name: "after", Index: 2, Type: schema.P("int32")}}}))
	// the union holding the evolved message, itself nested with something after it
	un := out[5].Rec
	out = append(out, mk("NUS", &schema.Record{Kind: schema.Struct, Fields: []schema.Field{{Name: "u", Type: schema.R(un)}, after}}))
	out = append(out, mk("NUA", &schema.Record{Kind: schema.Struct, Fields: []schema.Field{{Name: "us", Type: schema.A(schema.R(un))}, after}}))
	out = append(out, mk("NUM", &schema.Record{Kind: schema.Message, Fields: []schema.Field{{Name: "u", Index: 1, Type: schema.R(un)}, {Name: "after", Index: 2, Type: schema.P("int32")}}}))
	return out
}

// EvoCases enumerates the evolution cases (old and new versions of every scenario in every context).
func EvoCases(sup *schema.Support) []*schema.Case {
	var out []*schema.Case
	for _, s := range evoScenarios(sup) {
		out = append(out, evoContainers("CEv"+s.name+"Old", s.old)...)
		out = append(out, evoContainers("CEv"+s.name+"New", s.new)...)
	}
	// the evolved message declared INLINE as a union branch and referenced by name from other records
	for _, ver := range []string{"Old", "New"} {
		m := &schema.Record{Kind: schema.Message, Inline: true, Name: "EvBr" + ver + "Msg", Label: "message:evolved-union-member",
			Fields: []schema.Field{{Name: "a", Index: 1, Type: schema.P("int32")}, {Name: "s", Index: 2, Type: schema.P("string")}}}
		if ver == "New" {
			m.Fields = append(m.Fields, schema.Field{Name: "x", Index: 3, Type: schema.P("string")}, schema.Field{Name: "y", Index: 4, Type: schema.P("int32")})
		}
		other := &schema.Record{Kind: schema.Struct, Inline: true, Name: "EvBr" + ver + "Other", Fields: []schema.Field{{Name: "v", Type: schema.P("int32")}}}
		id := "CEvBr" + ver
		u := &schema.Record{Kind: schema.Union, Name: id + "U", Branches: []schema.Branch{{Disc: 1, Rec: m}, {Disc: 2, Rec: other}}}
		after := schema.Field{Name: "after", Type: schema.P("int32")}
		mt := schema.R(m)
		out = append(out,
			&schema.Case{ID: u.Name, Ctx: "EV", Class: "EV|BR-union", Rec: u},
			&schema.Case{ID: id + "SF", Ctx: "EV", Class: "EV|BR-SF", Rec: &schema.Record{Kind: schema.Struct, Name: id + "SF", Fields: []schema.Field{{Name: "m", Type: mt}, after}}},
			&schema.Case{ID: id + "AR", Ctx: "EV", Class: "EV|BR-AR", Rec: &schema.Record{Kind: schema.Struct, Name: id + "AR", Fields: []schema.Field{{Name: "ms", Type: schema.A(mt)}, after}}},
			&schema.Case{ID: id + "MF", Ctx: "EV", Class: "EV|BR-MF", Rec: &schema.Record{Kind: schema.Message, Name: id + "MF", Fields: []schema.Field{{Name: "m", Index: 1, Type: mt}, {Name: "after", Index: 2, Type: schema.P("int32")}}}},
		)
	}
	return out
}

// restrict maps a value of the new version onto the old version: message fields are matched by index
// (unknown ones dropped), struct fields by position, union branches by discriminator.
func restrict(v *refcodec.Value, ot *schema.Type) *refcodec.Value {
	out := &refcodec.Value{T: ot, Bits: v.Bits, Str: v.Str, Guid: v.Guid, Ticks: v.Ticks, DateV: v.DateV, NilC: v.NilC}
	switch ot.Kind {
	case schema.ArrayT:
		for _, e := range v.Elems {
			out.Elems = append(out.Elems, restrict(e, ot.Elem))
		}
	case schema.MapT:
		for i := range v.Keys {
			out.Keys = append(out.Keys, restrict(v.Keys[i], schema.P(ot.Key)))
			out.Vals = append(out.Vals, restrict(v.Vals[i], ot.Elem))
		}
	case schema.RecT:
		out.Rec = restrictRec(v.Rec, ot.Rec)
	}
	return out
}

func restrictRec(rv *refcodec.RecValue, or *schema.Record) *refcodec.RecValue {
	out := &refcodec.RecValue{R: or, Branch: -1}
	switch or.Kind {
	case schema.Struct:
		for i, f := range or.Fields {
			out.Fields = append(out.Fields, restrict(rv.Fields[i], f.Type))
		}
	case schema.Message:
		out.Fields = make([]*refcodec.Value, len(or.Fields))
		for oi, of := range or.Fields {
			for ni, nf := range rv.R.Fields {
				if nf.Index == of.Index && rv.Fields[ni] != nil {
					out.Fields[oi] = restrict(rv.Fields[ni], of.Type)
				}
			}
		}
	case schema.Union:
		d := rv.R.Branches[rv.Branch].Disc
		for bi, b := range or.Branches {
			if b.Disc == d {
				out.Branch = bi
				out.Inner = restrictRec(rv.Inner, b.Rec)
			}
		}
	}
	return out
}

func (w *W) c04(groups [][]*driver.Bound, byID map[string]*schema.Case) {
	// index bounds of evolution cases by (ID, opt)
	idx := map[string]*driver.Bound{}
	for _, g := range groups {
		for _, b := range g {
			idx[fmt.Sprintf("%s@%d", b.Case.ID, b.Opt)] = b
		}
	}
	ord := 0
	for _, g := range groups {
		if !isEvo(g) {
			continue
		}
		ord++
		if w.sn > 1 && ord%w.sn != w.si {
			continue
		}
		for _, nb := range g {
			id := nb.Case.ID
			// new-version cases only; find the old twin
			var oldID string
			switch {
			case len(id) > 3 && containsNew(id):
				oldID = replaceNew(id)
			default:
				continue
			}
			ob := idx[fmt.Sprintf("%s@%d", oldID, nb.Opt)]
			if ob == nil {
				// the twin may live in another shard: evolution cases are few, every shard binds all of them
				continue
			}
			if !w.begin(nb) {
				continue
			}
			vals := refcodec.RecValues(nb.Case.Rec, 0, 0)
			for vi, rv := range vals {
				if w.slow(nb) {
					break
				}
				w.res.States++
				enc, err := implEncoding(nb, rv)
				if err != nil {
					w.res.HarnessErr = err.Error()
					return
				}
				if enc == nil {
					continue
				}
				want := refcodec.NormalRec(restrictRec(rv, ob.Case.Rec))
				w.distinctKey(id + string(enc))
				for _, d := range append(append([]decoder{}, decoders...), chunkedDecoders...) {
					out := ob.New()
					var ran bool
					var o driver.Outcome
					var cr *driver.ChunkReader
					if strings.HasPrefix(d.name, "DecodeBebop") {
						cr = driver.NewChunkReader(enc)
						switch d.name {
						case "DecodeBebop(1-byte reads)":
							cr.Choose = pickOption(driver.OptOne)
						case "DecodeBebop(half reads)":
							cr.Choose = pickOption(driver.OptHalf)
						}
						ran, o = true, driver.Guard(func() error { return out.DecodeBebop(cr) })
					} else {
						ran, o = d.run(out, enc)
					}
					if !ran {
						continue
					}
					w.res.Transitions++
					ci := func() map[string]any {
						m := caseInfo(ob, nil)
						m["writer_case"] = id
						m["writer_value"] = vlib.Short(refcodec.NormalRec(rv), 300)
						m["bytes"] = vlib.Hex(enc)
						m["decoder"] = d.name
						return m
					}
					if o.Panicked || o.Err != nil {
						w.report(fmt.Sprintf("C04|%s|decode-fails|%s|%s", d.name, nb.Case.Class, failKind(o)),
							fmt.Sprintf("%s of bytes written under the newer schema failed under the older one: %s", d.name, outcomeStr(o)), ci())
						continue
					}
					got, err := ob.Extract(out)
					if err != nil {
						w.res.HarnessErr = err.Error()
						return
					}
					if gs := refcodec.NormalRec(got); gs != want {
						w.report(fmt.Sprintf("C04|%s|value-differs|%s", d.name, nb.Case.Class),
							fmt.Sprintf("%s under the older schema gave %s, want %s (bytes %s)", d.name, vlib.Short(gs, 250), vlib.Short(want, 250), vlib.Hex(enc)), ci())
					}
					if cr != nil && cr.Pos != len(enc) {
						w.report(fmt.Sprintf("C04|DecodeBebop|consumed|%s", nb.Case.Class),
							fmt.Sprintf("the stream decoder consumed %d of the %d bytes of the newer encoding", cr.Pos, len(enc)), ci())
					}
				}
				if vi == 3 && nb.Opt == 0 {
					w.sample(map[string]any{"writer": id, "reader": oldID, "context": nb.Case.Class, "bytes": vlib.Hex(enc), "expected_under_v1": vlib.Short(want, 200)})
				}
			}
		}
	}
}

func containsNew(id string) bool {
	for i := 0; i+3 <= len(id); i++ {
		if id[i:i+3] == "New" {
			return true
		}
	}
	return false
}

func replaceNew(id string) string {
	for i := len(id) - 3; i >= 0; i-- {
		if id[i:i+3] == "New" {
			return id[:i] + "Old" + id[i+3:]
		}
	}
	return id
}
