package codeccheck

import (
	"verif/driver"
	"verif/schema"
)

func EvoCases(sup *schema.Support) []*schema.Case { return nil }

func (w *W) c04(groups [][]*driver.Bound, byID map[string]*schema.Case) {}
func (w *W) c05(groups [][]*driver.Bound)                                {}
func (w *W) c06(groups [][]*driver.Bound)                                {}
func (w *W) c07(groups [][]*driver.Bound)                                {}
func (w *W) c08(groups [][]*driver.Bound)                                {}
