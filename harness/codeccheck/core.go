// Package codeccheck holds the decision procedures for C01–C09. It is linked into the worker
// binary together with the packages generated from the working tree; the orchestrator
// (cmd/codec) shards the case space over worker processes and aggregates their JSON results.
package codeccheck

import (
	"bytes"
	"encoding/json"
	"flag"
	"fmt"
	"os"
	"sort"
	"strings"
	"sync"
	"time"
	_ "unsafe"

	"github.com/200sc/bebop"
	"verif/driver"
	"verif/refcodec"
	"verif/schema"
	"verif/vlib"
)

//go:linkname setMapIter runtime.verifSetMapIter
func setMapIter(v uintptr)

// SetMapRotation makes every map iteration start at offset r (seam in runtime/map.go); -1 restores randomness.
func SetMapRotation(r int) {
	if r < 0 {
		setMapIter(0)
		return
	}
	setMapIter(uintptr(r&7) + 1)
}

// Pkg is one generated package.
type Pkg struct {
	Opt int
	Reg map[string]func() bebop.Record
}

// Finding is one violation observed by a worker.
type Finding struct {
	Sig  string         `json:"sig"`
	Msg  string         `json:"msg"`
	Case map[string]any `json:"case"`
	N    int            `json:"n"`
}

// Result is what a worker prints.
type Result struct {
	Property    string         `json:"property"`
	Shard       string         `json:"shard"`
	Findings    []*Finding     `json:"findings"`
	States      int64          `json:"states"`
	Transitions int64          `json:"transitions"`
	Evaluations int64          `json:"evaluations"`
	Distinct    int64          `json:"distinct"`
	Samples     []any          `json:"samples"`
	Extra       map[string]int `json:"extra"`
	Capped      string         `json:"capped,omitempty"`
	HarnessErr  string         `json:"harness_error,omitempty"`
	Outcomes    map[string]int `json:"outcomes"`
}

type W struct {
	mu          sync.Mutex
	res         *Result
	seen        map[string]*Finding
	distinct    map[string]struct{}
	thorough    bool
	progress    *os.File
	skip        map[string]bool
	resumeAfter string
	abortBound  bool
	phase       string // sub-phase of a case (e.g. which decoder), part of the progress marker
	si, sn      int
	boundStart  time.Time
}

func (w *W) report(sig, msg string, c map[string]any) {
	w.mu.Lock()
	defer w.mu.Unlock()
	if f, ok := w.seen[sig]; ok {
		f.N++
		return
	}
	if len(msg) > 1200 {
		msg = msg[:1200] + "..."
	}
	f := &Finding{Sig: sig, Msg: msg, Case: c, N: 1}
	w.seen[sig] = f
	w.res.Findings = append(w.res.Findings, f)
	// emitted at once so that findings survive a fatal crash of this worker
	if b, err := json.Marshal(map[string]any{"finding": f}); err == nil {
		os.Stdout.Write(append(b, '\n'))
	}
}

// begin marks the start of work on one bound case (progress marker for crash attribution) and
// reports whether the case is on the skip list of a restarted worker.
func (w *W) begin(b *driver.Bound) bool {
	key := fmt.Sprintf("%s@%d", b.Case.ID, b.Opt)
	m := fmt.Sprintf("%s|%s", key, b.Case.Class)
	if w.phase != "" {
		key += "#" + w.phase
		m = fmt.Sprintf("%s|%s|%s", key, w.phase, b.Case.Class)
	}
	if w.resumeAfter != "" {
		// a restarted worker: everything up to and including the case that killed its predecessor was already handled
		if key == w.resumeAfter {
			w.resumeAfter = ""
		}
		return false
	}
	if w.skip[key] {
		return false
	}
	// counters so far, so that a fatal crash does not lose them
	w.res.Distinct = int64(len(w.distinct))
	if pb, err := json.Marshal(map[string]any{"partial": w.res}); err == nil {
		os.Stdout.Write(append(pb, '\n'))
	}
	w.start(m)
	w.boundStart = time.Now()
	w.abortBound = false
	return true
}

// slowCall is told how long one guarded call took; a call that needs more than 300 ms (a decode normally
// takes microseconds) ends the work on the current case: what it found so far is kept and reported.
func (w *W) slowCall(b *driver.Bound, d time.Duration) {
	if d > 300*time.Millisecond && !w.abortBound {
		w.abortBound = true
		w.res.Capped = "a single call on case " + b.Case.Class + " took " + d.String() + " (pathological allocation); the remaining inputs of that case were skipped"
	}
}

// slow reports whether the current bound case has used up its wall budget (normally a case takes
// milliseconds); the rest of its values are skipped and the run is marked as capped.
func (w *W) slow(b *driver.Bound) bool {
	if w.abortBound {
		return true
	}
	if time.Since(w.boundStart) > 10*time.Second {
		w.abortBound = true
		w.res.Capped = "case " + b.Case.Class + " exceeded its 20 s wall budget (pathologically slow calls); its remaining values were skipped"
		return true
	}
	return false
}

func (w *W) sample(s any) {
	if len(w.res.Samples) < 3 {
		w.res.Samples = append(w.res.Samples, s)
	}
}

func (w *W) outcome(k string) { w.res.Outcomes[k]++ }

func (w *W) distinctKey(k string) {
	if _, ok := w.distinct[k]; !ok {
		w.distinct[k] = struct{}{}
	}
}

// start writes a progress marker so that a fatal crash (OOM) can be attributed to one case.
func (w *W) start(marker string) {
	if w.progress != nil {
		fmt.Fprintln(w.progress, marker)
	}
}

// caseInfo renders a case for replay files.
func caseInfo(b *driver.Bound, rv *refcodec.RecValue) map[string]any {
	var sb strings.Builder
	schema.RenderRecord(&sb, b.Case.Rec, "")
	m := map[string]any{"case": b.Case.ID, "class": b.Case.Class, "options": driver.OptName(b.Opt), "opt": b.Opt, "record": sb.String()}
	if rv != nil {
		// replays re-enumerate the case (case id + option set); the value is there for the reader, so long ones are cut
		m["value"] = vlib.Short(refcodec.NormalRec(rv), 4096)
	}
	return m
}

// Main is the worker entry point.
func Main(pkgs []Pkg) {
	prop := flag.String("property", "", "")
	shard := flag.String("shard", "0/1", "")
	tier := flag.String("tier", "quick", "")
	only := flag.String("only", "", "restrict to one case ID (replay)")
	onlyOpt := flag.Int("opt", -1, "restrict to one option set (replay)")
	progress := flag.String("progress", "", "progress marker file")
	skipList := flag.String("skip", "", "comma-separated case@opt markers to skip (cases that killed an earlier worker)")
	resume := flag.String("resume-after", "", "skip every case up to and including this case@opt marker (restart after a fatal crash)")
	flag.Parse()
	var si, sn int
	fmt.Sscanf(*shard, "%d/%d", &si, &sn)
	if sn < 1 {
		sn = 1
	}
	w := &W{res: &Result{Property: *prop, Shard: *shard, Extra: map[string]int{}, Outcomes: map[string]int{}}, seen: map[string]*Finding{}, distinct: map[string]struct{}{}, thorough: *tier == "thorough"}
	w.skip = map[string]bool{}
	w.resumeAfter = *resume
	for _, m := range strings.Split(*skipList, ",") {
		if m != "" {
			w.skip[m] = true
		}
	}
	if *progress != "" {
		f, err := os.OpenFile(*progress, os.O_CREATE|os.O_WRONLY|os.O_TRUNC, 0o644)
		if err == nil {
			w.progress = f
		}
	}
	driver.SingleThreaded()
	refcodec.ThoroughBig = w.thorough
	// map iteration is deterministic throughout (insertion order, rotation 0) unless a check rotates it
	SetMapRotation(0)
	sup := schema.NewSupport()
	cases := sup.Cases(w.thorough)
	cases = append(cases, EvoCases(sup)...)
	cases = append(cases, schema.ImportCases().Cases...)
	byID := map[string]*schema.Case{}
	for _, c := range cases {
		byID[c.ID] = c
	}
	// bind
	var bounds []*driver.Bound
	for _, p := range pkgs {
		ids := make([]string, 0, len(p.Reg))
		for id := range p.Reg {
			ids = append(ids, id)
		}
		sort.Strings(ids)
		for _, id := range ids {
			c, ok := byID[id]
			if !ok {
				w.res.HarnessErr = "generated package has case " + id + " unknown to the enumerator (tier mismatch?)"
				emit(w)
				return
			}
			bounds = append(bounds, &driver.Bound{Case: c, Opt: p.Opt, New: p.Reg[id]})
		}
	}
	sort.SliceStable(bounds, func(i, j int) bool {
		if bounds[i].Case.ID != bounds[j].Case.ID {
			return bounds[i].Case.ID < bounds[j].Case.ID
		}
		return bounds[i].Opt < bounds[j].Opt
	})
	// group by case; shard by case ordinal so all option sets of a case are in one worker (C09)
	var groups [][]*driver.Bound
	for i := 0; i < len(bounds); {
		j := i
		for j < len(bounds) && bounds[j].Case.ID == bounds[i].Case.ID {
			j++
		}
		groups = append(groups, bounds[i:j])
		i = j
	}
	var mine [][]*driver.Bound
	for gi, g := range groups {
		if gi%sn != si {
			continue
		}
		if *only != "" && g[0].Case.ID != *only {
			continue
		}
		if *onlyOpt >= 0 {
			var f []*driver.Bound
			for _, b := range g {
				if b.Opt == *onlyOpt {
					f = append(f, b)
				}
			}
			g = f
		}
		if len(g) > 0 {
			mine = append(mine, g)
		}
	}
	defer func() {
		if r := recover(); r != nil {
			w.res.HarnessErr = fmt.Sprintf("worker panic: %v", r)
			emit(w)
			os.Exit(3)
		}
	}()
	if err := refcodec.SelfTest(); err != nil {
		w.res.HarnessErr = err.Error()
		emit(w)
		return
	}
	switch *prop {
	case "C01":
		w.c01(mine)
	case "C02":
		w.c02(mine)
	case "C03":
		w.c03(mine)
	case "C04":
		// old and new twins must be bound in the same worker: every shard sees all evolution groups
		w.si, w.sn = si, sn
		w.c04(groups, byID)
	case "C05":
		w.c05(mine)
	case "C06":
		w.c06(mine)
	case "C07":
		w.c07(mine)
	case "C08":
		w.c08(mine)
	case "C09":
		w.c09(mine)
	default:
		w.res.HarnessErr = "unknown property " + *prop
	}
	emit(w)
}

func emit(w *W) {
	w.res.Distinct = int64(len(w.distinct))
	b, _ := json.Marshal(map[string]any{"result": w.res})
	os.Stdout.Write(b)
	os.Stdout.Write([]byte("\n"))
}

// mainOpts filters a group to the option sets a stream/byte-path check uses by default.
func pickOpts(g []*driver.Bound, opts ...int) []*driver.Bound {
	var out []*driver.Bound
	for _, b := range g {
		for _, o := range opts {
			if b.Opt == o {
				out = append(out, b)
			}
		}
	}
	if len(out) == 0 && len(g) > 0 {
		out = g[:1]
	}
	return out
}

// isEvo reports whether a group belongs to the schema-evolution cases (C04 only).
func isEvo(g []*driver.Bound) bool { return g[0].Case.Ctx == "EV" }

// hasMultiMap reports whether the value holds a map with two or more entries.
func hasMultiMap(rv *refcodec.RecValue) bool {
	var rec func(v *refcodec.Value) bool
	var recR func(r *refcodec.RecValue) bool
	rec = func(v *refcodec.Value) bool {
		if v == nil {
			return false
		}
		if len(v.Keys) >= 2 {
			return true
		}
		for _, e := range v.Elems {
			if rec(e) {
				return true
			}
		}
		for _, e := range v.Vals {
			if rec(e) {
				return true
			}
		}
		if v.Rec != nil {
			return recR(v.Rec)
		}
		return false
	}
	recR = func(r *refcodec.RecValue) bool {
		for _, f := range r.Fields {
			if rec(f) {
				return true
			}
		}
		if r.Inner != nil {
			return recR(r.Inner)
		}
		return false
	}
	return recR(rv)
}

// encodeAll runs the three encoders; each is guarded.
type encs struct {
	size                int
	marshal, to, stream []byte
	toN                 int
	oM, oT, oS, oSize   driver.Outcome
}

func encodeAll(rec bebop.Record) encs {
	var e encs
	e.oSize = driver.Guard(func() error { e.size = rec.Size(); return nil })
	e.oM = driver.Guard(func() error { e.marshal = rec.MarshalBebop(); return nil })
	if !e.oSize.Panicked && e.size >= 0 && e.size < 1<<26 {
		// a caller-owned, reused buffer: not zeroed (0x01 is the byte a stale "true" / count / index would leave behind)
		e.to = bytes.Repeat([]byte{0x01}, e.size)
		e.oT = driver.Guard(func() error { e.toN = rec.MarshalBebopTo(e.to); return nil })
	}
	var buf bytes.Buffer
	e.oS = driver.Guard(func() error { return rec.EncodeBebop(&buf) })
	e.stream = buf.Bytes()
	return e
}
