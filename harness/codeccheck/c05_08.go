package codeccheck

import (
	"bytes"
	"errors"
	"fmt"
	"io"
	"os"
	"strings"
	"time"

	bebop "github.com/200sc/bebop"

	"verif/driver"
	"verif/explore"
	"verif/refcodec"
	"verif/schema"
	"verif/vlib"
)

// streamOpts are the option sets the stream/byte-path fault checks run under (none, all five).
var streamOpts = []int{0, 31}

// encodeRef returns the (annotated) reference encoding of a value; C03 establishes that it equals
// what the generated encoders emit, and each check re-verifies that on the values it uses.
func encodeRef(rv *refcodec.RecValue) *refcodec.Enc {
	var e refcodec.Enc
	refcodec.EncodeRec(&e, rv, nil)
	return &e
}

// pickValues selects up to n values whose encodings are at most maxLen bytes, spread over the value list.
func pickValues(vals []*refcodec.RecValue, n, maxLen int) []*refcodec.RecValue {
	var ok []*refcodec.RecValue
	for _, v := range vals {
		if l := len(encodeRef(v).B); l <= maxLen && l > 0 {
			ok = append(ok, v)
		}
	}
	if len(ok) <= n {
		return ok
	}
	var out []*refcodec.RecValue
	seen := map[*refcodec.RecValue]bool{}
	for i := 0; i < n; i++ {
		v := ok[i*(len(ok)-1)/(n-1)]
		out = append(out, v)
		seen[v] = true
	}
	// and the value with the most content (longest encoding within the limit): empty strings and containers hide size errors
	var longest *refcodec.RecValue
	best := -1
	for _, v := range ok {
		if l := len(encodeRef(v).B); l > best {
			best, longest = l, v
		}
	}
	if longest != nil && !seen[longest] {
		out = append(out, longest)
	}
	return out
}

// implEncoding returns the implementation's own encoding (single-entry maps aside, equal to the reference).
func implEncoding(b *driver.Bound, rv *refcodec.RecValue) ([]byte, error) {
	rec, err := b.Fresh(rv)
	if err != nil {
		return nil, err
	}
	var out []byte
	o := driver.Guard(func() error { out = rec.MarshalBebop(); return nil })
	if o.Panicked {
		return nil, nil
	}
	return out, nil
}

// streamEncoding returns what EncodeBebop writes for the value (nil if it panics or fails: C01/C02/C08 report that).
func streamEncoding(b *driver.Bound, rv *refcodec.RecValue) ([]byte, error) {
	rec, err := b.Fresh(rv)
	if err != nil {
		return nil, err
	}
	var buf bytes.Buffer
	o := driver.Guard(func() error { return rec.EncodeBebop(&buf) })
	if o.Panicked || o.Err != nil {
		return nil, nil
	}
	return buf.Bytes(), nil
}

// ---- C05: DecodeBebop consumes exactly one record under any read fragmentation -------------------

// osFileStream decodes the records of data one after the other from a regular file (checking the file offset after each
// record) and from a pipe (checking that nothing is left in it).
func (w *W) osFileStream(data []byte, ends []int, wants []string, mk func(i int) bebop.Record, norm func(i int, r bebop.Record) (string, error)) (string, string) {
	fh, err := os.CreateTemp("", "verif-c05-*")
	if err != nil {
		return "harness", err.Error()
	}
	defer os.Remove(fh.Name())
	defer fh.Close()
	if _, err := fh.Write(data); err != nil {
		return "harness", err.Error()
	}
	if _, err := fh.Seek(0, io.SeekStart); err != nil {
		return "harness", err.Error()
	}
	for i := range ends {
		out := mk(i)
		o := driver.Guard(func() error { return out.DecodeBebop(fh) })
		if o.Panicked || o.Err != nil {
			return "decode-fails|" + failKind(o), fmt.Sprintf("record %d read from an *os.File: DecodeBebop failed: %s", i, outcomeStr(o))
		}
		pos, _ := fh.Seek(0, io.SeekCurrent)
		if int(pos) != ends[i] {
			return "position", fmt.Sprintf("after record %d the *os.File is at offset %d, the record ends at %d", i, pos, ends[i])
		}
		gs, err := norm(i, out)
		if err != nil {
			return "harness", err.Error()
		}
		if gs != wants[i] {
			return "value", fmt.Sprintf("record %d read from an *os.File decoded as %s, want %s", i, vlib.Short(gs, 200), vlib.Short(wants[i], 200))
		}
	}
	w.res.Extra["os_file_streams"]++
	if len(data) > 32<<10 {
		return "", "" // a pipe buffer holds 64 KiB; larger streams would need a writer goroutine
	}
	pr, pw, err := os.Pipe()
	if err != nil {
		return "harness", err.Error()
	}
	defer pr.Close()
	if _, err := pw.Write(data); err != nil {
		pw.Close()
		return "harness", err.Error()
	}
	pw.Close()
	for i := range ends {
		out := mk(i)
		o := driver.Guard(func() error { return out.DecodeBebop(pr) })
		if o.Panicked || o.Err != nil {
			return "decode-fails|" + failKind(o), fmt.Sprintf("record %d read from a pipe: DecodeBebop failed: %s", i, outcomeStr(o))
		}
		gs, err := norm(i, out)
		if err != nil {
			return "harness", err.Error()
		}
		if gs != wants[i] {
			return "value", fmt.Sprintf("record %d read from a pipe decoded as %s, want %s", i, vlib.Short(gs, 200), vlib.Short(wants[i], 200))
		}
	}
	if rest, _ := io.ReadAll(pr); len(rest) != 0 {
		return "position", fmt.Sprintf("%d bytes were left in the pipe after the last record", len(rest))
	}
	return "", ""
}

func (w *W) c05(groups [][]*driver.Bound) {
	guard := []byte{0xde, 0xad, 0xbe, 0xef, 0xde, 0xad, 0xbe, 0xef}
	var prev *driver.Bound
	var prevVal *refcodec.RecValue
	for _, g := range groups {
		if isEvo(g) {
			continue
		}
		for _, b := range pickOpts(g, streamOpts...) {
			if !w.begin(b) {
				continue
			}
			vals := pickValues(refcodec.RecValues(b.Case.Rec, 0, 0), 3, 72)
			if w.thorough {
				vals = pickValues(refcodec.RecValues(b.Case.Rec, 0, 0), 6, 96)
			}
			if len(vals) == 0 {
				continue
			}
			type item struct {
				b  *driver.Bound
				rv *refcodec.RecValue
			}
			// streams: [v0 v1], [vlast v0], and a heterogeneous one [v0 of previous case, vlast]
			var streams [][]item
			last := vals[len(vals)-1]
			streams = append(streams, []item{{b, vals[0]}, {b, vals[len(vals)/2]}})
			streams = append(streams, []item{{b, last}, {b, vals[0]}})
			if prev != nil {
				streams = append(streams, []item{{prev, prevVal}, {b, last}})
			}
			if w.thorough {
				streams = append(streams, []item{{b, vals[0]}, {b, last}, {b, vals[len(vals)/2]}})
			}
			for si, st := range streams {
				if w.slow(b) {
					break
				}
				for _, withGuard := range []bool{true, false} {
					var data []byte
					var ends []int
					var wants []string
					bad := false
					for _, it := range st {
						// the stream is what EncodeBebop writes (the property's own wording); C02 compares it with MarshalBebop
						enc, err := streamEncoding(it.b, it.rv)
						if err != nil {
							w.res.HarnessErr = err.Error()
							return
						}
						if enc == nil {
							bad = true
							break
						}
						data = append(data, enc...)
						ends = append(ends, len(data))
						wants = append(wants, refcodec.NormalRec(it.rv))
					}
					if bad {
						continue
					}
					total := len(data)
					if withGuard {
						data = append(data, guard...)
					}
					// one execution under a schedule
					byteReader := false // also offer io.ByteReader (as bytes.Reader, bufio.Reader do)
					runOne := func(choose func(opts []int) int) (string, string) {
						cr := driver.NewChunkReader(data)
						cr.Choose = choose
						var src io.Reader = cr
						if byteReader {
							src = driver.ByteChunkReader{ChunkReader: cr}
						}
						for i, it := range st {
							out := it.b.New()
							o := driver.Guard(func() error { return out.DecodeBebop(src) })
							if o.Panicked || o.Err != nil {
								return "decode-fails|" + failKind(o), fmt.Sprintf("record %d of the stream: DecodeBebop failed: %s", i, outcomeStr(o))
							}
							if cr.Pos != ends[i] {
								return "position", fmt.Sprintf("after record %d the reader is at byte %d, the record ends at %d (Size-exact consumption violated)", i, cr.Pos, ends[i])
							}
							var sz int
							so := driver.Guard(func() error { sz = out.Size(); return nil })
							start := 0
							if i > 0 {
								start = ends[i-1]
							}
							if !so.Panicked && sz != ends[i]-start {
								return "size", fmt.Sprintf("record %d: %d bytes consumed but Size() of the decoded value is %d", i, ends[i]-start, sz)
							}
							got, err := it.b.Extract(out)
							if err != nil {
								return "harness", err.Error()
							}
							if gs := refcodec.NormalRec(got); gs != wants[i] {
								return "value", fmt.Sprintf("record %d decoded as %s, want %s", i, vlib.Short(gs, 200), vlib.Short(wants[i], 200))
							}
						}
						if cr.MaxPos > total {
							return "over-read", fmt.Sprintf("the decoder read %d bytes beyond the records", cr.MaxPos-total)
						}
						return "", ""
					}
					// the same stream from a real *os.File and through an os.Pipe: concrete reader types a decoder may
					// special-case (the position of a file is observable with Seek; a pipe must be left empty)
					if si == 0 && !withGuard {
						if kind, msg := w.osFileStream(data, ends, wants, func(i int) bebop.Record { return st[i].b.New() }, func(i int, r bebop.Record) (string, error) {
							got, err := st[i].b.Extract(r)
							if err != nil {
								return "", err
							}
							return refcodec.NormalRec(got), nil
						}); kind == "harness" {
							w.res.HarnessErr = msg
							return
						} else if kind != "" {
							m := caseInfo(b, st[len(st)-1].rv)
							m["stream"] = vlib.Hex(data)
							w.report(fmt.Sprintf("C05|%s|%s|os-file", kind, b.Case.Class), msg, m)
						}
					}
					bound := 2
					if w.thorough {
						bound = 3
					}
					// keep the quick tier bounded: long streams get one deviation less
					probe := 0
					{
						cr := driver.NewChunkReader(data)
						for _, it := range st {
							out := it.b.New()
							driver.Guard(func() error { return out.DecodeBebop(cr) })
						}
						probe = cr.Calls
					}
					if probe > 40 {
						bound--
					}
					if probe > 160 {
						bound--
					}
					if w.thorough && probe > 14 && bound > 2 {
						// three deviations are affordable for short streams only (≈ n³·64/6 executions)
						bound = 2
					}
					ci := func(x *explore.Exec) map[string]any {
						m := caseInfo(b, st[len(st)-1].rv)
						m["stream"] = vlib.Hex(data)
						m["stream_index"] = si
						m["guard_bytes"] = withGuard
						if x != nil {
							m["schedule"] = x.Choices
						}
						return m
					}
					stats, err := explore.Run(bound, 400000, func(x *explore.Exec) bool {
						kind, msg := runOne(func(opts []int) int { return x.Choose(len(opts)) })
						if kind == "harness" {
							w.res.HarnessErr = msg
							return false
						}
						if kind != "" {
							// replay twice before believing it
							pre := append([]int{}, x.Choices...)
							again := func() string {
								i := 0
								k, _ := runOne(func(opts []int) int {
									c := 0
									if i < len(pre) {
										c = pre[i]
									}
									i++
									if c >= len(opts) {
										c = 0
									}
									return c
								})
								return k
							}
							if again() == kind && again() == kind {
								w.report(fmt.Sprintf("C05|%s|%s|dev=%d", kind, b.Case.Class, x.Deviations()),
									fmt.Sprintf("under read schedule %v (0=full,1=one byte,2=half,3=zero read,4=with EOF; option lists vary per point): %s", x.Choices, msg), ci(x))
							} else {
								w.res.HarnessErr = "C05 counterexample did not reproduce: nondeterminism in the harness"
							}
							return false
						}
						return true
					})
					if err != nil {
						w.res.HarnessErr = err.Error()
						return
					}
					w.res.States += int64(stats.Points)
					w.res.Transitions += int64(stats.Transitions)
					w.res.Evaluations += int64(stats.Executions)
					w.res.Extra[fmt.Sprintf("streams_completed_with_bound_%d", bound)]++
					if stats.Capped {
						w.res.Capped = "C05 execution cap reached for a stream"
					}
					w.distinctKey(string(data))
					// uniform schedules
					for name, pick := range map[string]int{"all-one-byte": driver.OptOne, "all-half": driver.OptHalf, "eof-with-data": driver.OptWithEOF, "zero-reads": driver.OptZero,
						"default+ReadByte": driver.OptFull, "all-one-byte+ReadByte": driver.OptOne, "eof-with-data+ReadByte": driver.OptWithEOF} {
						byteReader = strings.HasSuffix(name, "+ReadByte")
						kind, msg := runOne(func(opts []int) int {
							for i, o := range opts {
								if o == pick {
									return i
								}
							}
							return 0
						})
						byteReader = false
						w.res.Evaluations++
						if kind == "harness" {
							w.res.HarnessErr = msg
							return
						}
						if kind != "" {
							m := ci(nil)
							m["uniform_schedule"] = name
							w.report(fmt.Sprintf("C05|%s|%s|uniform:%s", kind, b.Case.Class, name), "under the uniform schedule "+name+": "+msg, m)
						}
					}
					if si == 0 && withGuard && b.Opt == 0 {
						w.sample(map[string]any{"case": b.Case.ID, "class": b.Case.Class, "stream": vlib.Hex(data), "records": len(st), "read_calls_default": probe, "deviation_bound": bound, "schedules_executed": stats.Executions, "choice_points": stats.Points})
					}
				}
			}
			prev, prevVal = b, vals[0]
			// values that cross the decoders' pre-allocation thresholds: uniform schedules only (too long for the DFS)
			if refcodec.IsBig(b.Case.Rec) {
				for _, rv := range refcodec.BigValues(b.Case.Rec, w.thorough) {
					if w.slow(b) {
						break
					}
					enc1, err := implEncoding(b, rv)
					enc2, _ := implEncoding(b, vals[0])
					if err != nil || enc1 == nil || enc2 == nil {
						continue
					}
					data := append(append(append([]byte{}, enc1...), enc2...), guard...)
					ends := []int{len(enc1), len(enc1) + len(enc2)}
					wants := []string{refcodec.NormalRec(rv), refcodec.NormalRec(vals[0])}
					for name, pick := range map[string]int{"default": driver.OptFull, "all-one-byte": driver.OptOne, "all-half": driver.OptHalf, "zero-reads": driver.OptZero, "default+ReadByte": driver.OptFull} {
						cr := driver.NewChunkReader(data)
						cr.Choose = pickOption(pick)
						var src io.Reader = cr
						if strings.HasSuffix(name, "+ReadByte") {
							src = driver.ByteChunkReader{ChunkReader: cr}
						}
						kind, msg := "", ""
						for i := 0; i < 2 && kind == ""; i++ {
							out := b.New()
							o := driver.Guard(func() error { return out.DecodeBebop(src) })
							switch {
							case o.Panicked || o.Err != nil:
								kind, msg = "decode-fails|"+failKind(o), fmt.Sprintf("record %d: %s", i, outcomeStr(o))
							case cr.Pos != ends[i]:
								kind, msg = "position", fmt.Sprintf("after record %d the reader is at byte %d, the record ends at %d", i, cr.Pos, ends[i])
							default:
								if got, err := b.Extract(out); err == nil && refcodec.NormalRec(got) != wants[i] {
									kind, msg = "value", fmt.Sprintf("record %d (%d bytes) decoded to a different value", i, ends[i])
								}
							}
						}
						w.res.Evaluations++
						if kind != "" {
							m := caseInfo(b, nil)
							m["big_value_bytes"] = len(enc1)
							m["uniform_schedule"] = name
							w.report(fmt.Sprintf("C05|%s|%s|uniform:%s|big", kind, b.Case.Class, name), fmt.Sprintf("big value (%d bytes) under the uniform schedule %s: %s", len(enc1), name, msg), m)
						}
					}
				}
			}
		}
	}
}

// ---- C06: every strict prefix of a valid encoding is an error, never a crash ------------------------

// allocBudget is the allocation a decoder may make for n input bytes before it counts as "out of
// proportion": a generous constant (up-front buffers, bounded pre-allocation) plus 64 bytes per input byte.
func allocBudget(n int) uint64 { return uint64(1<<20 + 64*n) }

// A stream decoder may pre-allocate a bounded NUMBER of elements (4096) before any of them has arrived: a constant of the
// schema, independent of the announced count. For records with wide elements that constant exceeds the 1 MiB base, so the
// budget of a case is raised by 4096 x (twice the in-memory size of its widest container element).
var preallocAllowance = map[*schema.Record]uint64{}

func goSize(t *schema.Type, depth int) uint64 {
	if depth > 6 {
		return 8
	}
	switch t.Kind {
	case schema.Prim:
		switch t.Name {
		case "string", "guid":
			return 16
		case "date":
			return 24
		}
		return uint64(schema.FixedSize[t.Name])
	case schema.EnumT:
		return 8
	case schema.ArrayT:
		return 24
	case schema.MapT:
		return 8
	case schema.RecT:
		if t.Rec.Kind != schema.Struct {
			return 8 * uint64(len(t.Rec.Fields)+len(t.Rec.Branches)+1)
		}
		var sum uint64
		for _, f := range t.Rec.Fields {
			sum += goSize(f.Type, depth+1)
		}
		return sum
	}
	return 8
}

func widestElem(r *schema.Record, depth int) uint64 {
	if depth > 6 {
		return 0
	}
	var best uint64
	var walk func(t *schema.Type)
	walk = func(t *schema.Type) {
		switch t.Kind {
		case schema.ArrayT, schema.MapT:
			if sz := goSize(t.Elem, 0) + 16; sz > best {
				best = sz
			}
			walk(t.Elem)
		case schema.RecT:
			if w := widestElem(t.Rec, depth+1); w > best {
				best = w
			}
		}
	}
	for _, f := range r.Fields {
		walk(f.Type)
	}
	for _, b := range r.Branches {
		if w := widestElem(b.Rec, depth+1); w > best {
			best = w
		}
	}
	return best
}

// budgetFor is the allocation budget of one case for n input bytes.
func budgetFor(b *driver.Bound, n int) uint64 {
	extra, ok := preallocAllowance[b.Case.Rec]
	if !ok {
		if w := widestElem(b.Case.Rec, 0); w > 128 {
			extra = 4096 * 2 * w
		}
		preallocAllowance[b.Case.Rec] = extra
	}
	return allocBudget(n) + extra
}

// zeroSizeElems reports whether the shape contains an array or map whose elements occupy no bytes on the
// wire (empty structs): 2^32 of them are a valid 4-byte encoding, so decoding time is legitimately
// unbounded by input size there and corrupted counts say nothing about the implementation.
func zeroSizeElems(t *schema.Type) bool {
	for t != nil {
		if t.Kind == schema.ArrayT && t.Elem.Kind == schema.RecT && t.Elem.Rec.Kind == schema.Struct && len(t.Elem.Rec.Fields) == 0 {
			return true
		}
		t = t.Elem
	}
	return false
}

// zeroSizeCase: the type under test, or a field of a special case's record, is an array of elements without wire size.
func zeroSizeCase(c *schema.Case) bool {
	if c.Shape != nil {
		return zeroSizeElems(c.Shape)
	}
	for _, f := range c.Rec.Fields {
		if zeroSizeElems(f.Type) {
			return true
		}
	}
	return false
}

func (w *W) c06(groups [][]*driver.Bound) {
	for _, g := range groups {
		if isEvo(g) {
			continue
		}
		for _, b := range pickOpts(g, streamOpts...) {
			if !w.begin(b) {
				continue
			}
			vals := refcodec.RecValues(b.Case.Rec, 0, 0)
			huge := map[*refcodec.RecValue]bool{}
			if refcodec.IsBig(b.Case.Rec) {
				// payloads far above the allocation budget, truncated near the header only
				for _, hv := range refcodec.HugeValues(b.Case.Rec) {
					vals = append(vals, hv)
					huge[hv] = true
				}
			}
			if sh := b.Case.Shape; b.Opt == 0 && sh != nil && (sh.Kind == schema.ArrayT || (sh.Kind == schema.MapT && sh.Key == "uint32")) && sh.Elem.Kind != schema.ArrayT && sh.Elem.Kind != schema.MapT &&
				!zeroSizeElems(sh) && (b.Case.Ctx == "S" || b.Case.Ctx == "M" || b.Case.Ctx == "IMP") && (b.Case.Rec.Kind == schema.Struct || b.Case.Rec.Kind == schema.Message) {
				// an array (or uint32-keyed map) of 400 000 elements (far above the allocation budget once a decoder trusts the count), cut near the header
				if hv := refcodec.HugeArrayValue(b.Case.Rec, "f", 400000); hv != nil {
					vals = append(vals, hv)
					huge[hv] = true
				}
			}
			if b.Opt == 0 && strings.HasPrefix(b.Case.ID, "CXWide") {
				// 20 000 elements of 256 / 512 bytes (5-10 MB on the wire, as much again in memory once the count is trusted)
				if hv := refcodec.HugeArrayValue(b.Case.Rec, "f", 20000); hv != nil {
					vals = append(vals, hv)
					huge[hv] = true
				}
			}
			for vi, rv := range vals {
				if w.slow(b) {
					break
				}
				ref := encodeRef(rv)
				enc, err := implEncoding(b, rv)
				if err != nil {
					w.res.HarnessErr = err.Error()
					return
				}
				if enc == nil || len(enc) != len(ref.B) {
					continue // C01/C03 report encoder problems
				}
				roles := map[string]bool{}
				for k := 0; k < len(enc); k++ {
					if huge[rv] && k >= 96 {
						// the huge values: every cut point in the first 96 bytes (all headers, length prefixes and counts)
						w.res.Extra["cut_points_skipped_in_huge_encodings"]++
						continue
					}
					if len(enc) > 6000 && k >= 64 && k < len(enc)-64 && k%97 != 0 {
						// encodings longer than 6000 bytes (the dedicated big values): first/last 64 cut points and every 97th
						w.res.Extra["cut_points_skipped_in_long_encodings"]++
						continue
					}
					role := ref.Roles[k].String()
					if !roles[role] {
						roles[role] = true
						w.distinctKey(fmt.Sprintf("%s#%d#%s", b.Case.ID, vi, role))
					}
					ci := func(dec string) map[string]any {
						m := caseInfo(b, rv)
						m["encoding"] = vlib.Hex(enc)
						m["cut"] = k
						m["cut_role"] = role
						m["decoder"] = dec
						return m
					}
					// byte path: exact-capacity prefix so that any read past the cut panics instead of passing silently
					pre := make([]byte, k)
					copy(pre, enc[:k])
					out := b.New()
					o := driver.Guard(func() error { return out.UnmarshalBebop(pre[:k:k]) })
					w.res.Evaluations++
					w.judgeTruncated("C06", "UnmarshalBebop", b, o, k, role, ci, func() { b.New().UnmarshalBebop(pre[:k:k]) })
					// stream path, two EOF styles
					for _, style := range []int{0, 1, 2, 3} {
						cr := driver.NewChunkReader(enc[:k])
						if style == 3 {
							cr.FinalErr = errIO // the stream breaks off with a persistent I/O error instead of EOF
						}
						if style == 1 {
							cr.Choose = func(opts []int) int {
								for i, op := range opts {
									if op == driver.OptWithEOF {
										return i
									}
								}
								return 0
							}
						}
						var src io.Reader = cr
						if style == 2 {
							src = driver.ByteChunkReader{ChunkReader: cr}
						}
						out := b.New()
						o := driver.Guard(func() error { return out.DecodeBebop(src) })
						w.res.Evaluations++
						name := "DecodeBebop"
						if style == 1 {
							name = "DecodeBebop(n,EOF)"
						}
						if style == 2 {
							name = "DecodeBebop(io.ByteReader)"
						}
						if style == 3 {
							name = "DecodeBebop(stream ends in an I/O error)"
						}
						style := style
						w.judgeTruncated("C06", name, b, o, k, role, ci, func() {
							cr := driver.NewChunkReader(enc[:k])
							if style == 3 {
								cr.FinalErr = errIO
							}
							if style == 1 {
								cr.Choose = func(opts []int) int {
									for i, op := range opts {
										if op == driver.OptWithEOF {
											return i
										}
									}
									return 0
								}
							}
							if style == 2 {
								b.New().DecodeBebop(driver.ByteChunkReader{ChunkReader: cr})
							} else {
								b.New().DecodeBebop(cr)
							}
						})
					}
				}
				if vi == 1 && b.Opt == 0 {
					w.sample(map[string]any{"case": b.Case.ID, "class": b.Case.Class, "encoding": vlib.Hex(enc), "cut_points": len(enc), "decoders": "UnmarshalBebop, DecodeBebop with (0,EOF) and (n,EOF)"})
				}
			}
		}
	}
}

func (w *W) judgeTruncated(prop, dec string, b *driver.Bound, o driver.Outcome, k int, role string, ci func(string) map[string]any, redo func()) {
	w.outcome(failKind(o))
	switch {
	case o.Panicked:
		w.report(fmt.Sprintf("%s|%s|%s|%s|cut-in-%s|%s", prop, dec, "panic:"+o.PanicKind+"@"+o.Site, b.Case.Rec.Kind, role, b.Case.Class),
			fmt.Sprintf("%s of a %d-byte prefix panicked: %s", dec, k, outcomeStr(o)), ci(dec))
	case o.Err == nil:
		w.report(fmt.Sprintf("%s|%s|no-error|%s|cut-in-%s|%s", prop, dec, b.Case.Rec.Kind, role, b.Case.Class),
			fmt.Sprintf("%s of a strict %d-byte prefix returned nil", dec, k), ci(dec))
	}
	if o.Alloc > budgetFor(b, k) {
		if precise := driver.PreciseAlloc(redo); precise > budgetFor(b, k) {
			w.report(fmt.Sprintf("%s|%s|alloc|%s|cut-in-%s|%s", prop, dec, b.Case.Rec.Kind, role, b.Case.Class),
				fmt.Sprintf("%s of a %d-byte prefix allocated %d bytes (budget %d)", dec, k, precise, budgetFor(b, k)), ci(dec))
		}
	}
}

// ---- C07: arbitrary bytes never panic or run away -----------------------------------------------------

var shortAlphabet = []byte{0x00, 0x01, 0x02, 0x03, 0x7f, 0xff}

func (w *W) judgeArbitrary(b *driver.Bound, in []byte, origin string, ci func() map[string]any) {
	if w.abortBound {
		return
	}
	for di, dec := range []string{"UnmarshalBebop", "DecodeBebop"} {
		if dec != w.phase {
			continue
		}
		out := b.New()
		var o driver.Outcome
		t0 := time.Now()
		if di == 0 {
			buf := make([]byte, len(in))
			copy(buf, in)
			o = driver.Guard(func() error { return out.UnmarshalBebop(buf[:len(in):len(in)]) })
		} else {
			cr := driver.NewChunkReader(in)
			o = driver.Guard(func() error { return out.DecodeBebop(cr) })
			if !o.Panicked {
				// the same bytes on a stream that ends in a persistent I/O error instead of EOF (a reset connection):
				// a decoder that keeps asking after the failure exhausts the reader's budget ("does not stop")
				cr2 := driver.NewChunkReader(in)
				cr2.FinalErr = errIO
				if o2 := driver.Guard(func() error { return b.New().DecodeBebop(cr2) }); o2.Panicked {
					o = o2
					dec = "DecodeBebop(stream ends in an I/O error)"
				}
				w.res.Transitions++
			}
		}
		w.slowCall(b, time.Since(t0))
		w.res.Transitions++
		w.outcome(failKind(o))
		if o.Panicked {
			m := ci()
			m["decoder"] = dec
			m["input"] = vlib.Hex(in)
			w.report(fmt.Sprintf("C07|%s|panic:%s@%s|%s|%s", dec, o.PanicKind, o.Site, origin, b.Case.Class),
				fmt.Sprintf("%s(%s) panicked: %s", dec, vlib.Hex(in), outcomeStr(o)), m)
		}
		if o.Alloc > budgetFor(b, len(in)) {
			di := di
			precise := driver.PreciseAlloc(func() {
				if di == 0 {
					buf := append([]byte{}, in...)
					b.New().UnmarshalBebop(buf[:len(in):len(in)])
				} else {
					b.New().DecodeBebop(driver.NewChunkReader(in))
				}
			})
			if precise > budgetFor(b, len(in)) {
				m := ci()
				m["decoder"] = dec
				m["input"] = vlib.Hex(in)
				w.report(fmt.Sprintf("C07|%s|alloc|%s|%s", dec, origin, b.Case.Class),
					fmt.Sprintf("%s of %d input bytes (%s) allocated %d bytes (budget 1MiB+64×len)", dec, len(in), vlib.Hex(in), precise), m)
			}
		}
	}
}

func (w *W) c07(groups [][]*driver.Bound) {
	maxShort := 4
	if w.thorough {
		maxShort = 5
	}
	for _, g := range groups {
		if isEvo(g) {
			continue
		}
		for _, pb := range pickOpts(g, streamOpts...) {
			for _, phase := range []string{"UnmarshalBebop", "DecodeBebop"} {
				b := pb
				w.phase = phase
				if !w.begin(b) {
					continue
				}
				base := func() map[string]any { return caseInfo(b, nil) }
				// (i) all short strings over the alphabet (only under the empty option set: the safe decoders do not depend on options beyond C09)
				if b.Opt == 0 {
					var rec func(cur []byte)
					rec = func(cur []byte) {
						if w.abortBound {
							return
						}
						if phase == "UnmarshalBebop" {
							w.res.States++
						}
						w.judgeArbitrary(b, cur, "short-string", base)
						if len(cur) == maxShort {
							return
						}
						for _, c := range shortAlphabet {
							rec(append(cur, c))
						}
					}
					rec(nil)
				}
				// (ii) structure-aware corruption of valid encodings
				vals := pickValues(refcodec.RecValues(b.Case.Rec, 0, 0), 6, 64)
				if zeroSizeCase(b.Case) {
					vals = nil
					w.res.Extra["cases_with_zero_size_elements_not_corrupted"]++
				}
				var encs [][]byte
				for _, rv := range vals {
					if w.slow(b) {
						break
					}
					ref := encodeRef(rv)
					enc := ref.B
					encs = append(encs, enc)
					w.distinctKey(b.Case.ID + string(enc))
					ciV := func() map[string]any { m := caseInfo(b, rv); m["valid_encoding"] = vlib.Hex(enc); return m }
					mut := func(origin string, f func(c []byte) []byte) {
						c := append([]byte{}, enc...)
						c = f(c)
						w.res.States++
						w.judgeArbitrary(b, c, origin, ciV)
					}
					// single byte replacements at every position
					for i := range enc {
						role := ref.Roles[i].String()
						reps := []byte{0x00, 0x01, 0x02, 0x7f, 0x80, 0xfe, 0xff, enc[i] + 1, enc[i] - 1}
						if (ref.Roles[i] == refcodec.RCount || ref.Roles[i] == refcodec.RLen) && !w.thorough {
							// quick tier: keep corrupted counts survivable (< 2^18 elements); the giant ones are explored in
							// the thorough tier, where a fatal out-of-memory kills the worker and is attributed by the orchestrator
							switch wordOffset(ref, i) {
							case 2:
								reps = []byte{0x00, 0x01, 0x02}
							case 3:
								reps = []byte{0x00}
							}
						}
						if ref.Roles[i] == refcodec.RIndex || ref.Roles[i] == refcodec.RDisc {
							reps = reps[:0]
							for v := 0; v < 256; v++ {
								reps = append(reps, byte(v))
							}
						}
						for _, r := range reps {
							if r == enc[i] {
								continue
							}
							i, r := i, r
							mut("byte@"+role, func(c []byte) []byte { c[i] = r; return c })
						}
					}
					// every 4- and 8-byte window that holds no count / length byte overwritten with NaN patterns and all-ones
					// (float keys and values; all-ones is also -1 / the maximum of every integer type)
					for i := range enc {
						for _, pat := range [][]byte{{0, 0, 0xc0, 0x7f}, {0xff, 0xff, 0xff, 0xff}, {0, 0, 0, 0, 0, 0, 0xf8, 0x7f}, {0xff, 0xff, 0xff, 0xff, 0xff, 0xff, 0xff, 0xff}} {
							if i+len(pat) > len(enc) {
								continue
							}
							ok := true
							for j := i; j < i+len(pat); j++ {
								if ref.Roles[j] == refcodec.RCount || ref.Roles[j] == refcodec.RLen {
									ok = false
								}
							}
							if !ok || bytes.Equal(enc[i:i+len(pat)], pat) {
								continue
							}
							i, pat := i, pat
							mut(fmt.Sprintf("word%d@%s", len(pat), ref.Roles[i].String()), func(c []byte) []byte { copy(c[i:], pat); return c })
						}
					}
					// every annotated u32 (count / length prefix) replaced by interesting values; survivable sizes first
					for i := 0; i+3 < len(enc); i++ {
						if (ref.Roles[i] != refcodec.RCount && ref.Roles[i] != refcodec.RLen) || sameWord(ref, i) {
							continue
						}
						n := uint32(enc[i]) | uint32(enc[i+1])<<8 | uint32(enc[i+2])<<16 | uint32(enc[i+3])<<24
						role := ref.Roles[i].String()
						for _, v := range []uint32{0, 1, n - 1, n + 1, n + 2, 0xff, 0x10000, 1 << 20} {
							if v == n {
								continue
							}
							i, v := i, v
							mut("u32@"+role, func(c []byte) []byte { putU32(c[i:], v); return c })
						}
					}
					// two-site combinations for small encodings
					if len(enc) <= 20 {
						for i := 0; i < len(enc); i++ {
							for j := i + 1; j < len(enc); j++ {
								for _, a := range []byte{0x00, 0x01, 0xff} {
									for _, bb := range []byte{0x00, 0x02, 0xff} {
										i, j, a, bb := i, j, a, bb
										mut("two-bytes", func(c []byte) []byte { c[i] = a; c[j] = bb; return c })
									}
								}
							}
						}
					}
					// splices: drop a middle segment
					if len(enc) <= 32 {
						for i := 0; i <= len(enc); i++ {
							for j := i + 1; j <= len(enc); j++ {
								i, j := i, j
								mut("splice-drop", func(c []byte) []byte { return append(append([]byte{}, c[:i]...), c[j:]...) })
							}
						}
					}
				}
				// splices of two different values of the same record
				for x := 0; x+1 < len(encs) && x < 3; x++ {
					a, c := encs[x], encs[x+1]
					if len(a) > 32 || len(c) > 32 {
						continue
					}
					for i := 0; i <= len(a); i++ {
						for j := 0; j <= len(c); j++ {
							in := append(append([]byte{}, a[:i]...), c[j:]...)
							w.res.States++
							w.judgeArbitrary(b, in, "splice-two-values", base)
						}
					}
				}
				// large valid encodings (more than 4096 elements / bytes really present) with their counts raised
				if refcodec.IsBig(b.Case.Rec) && !zeroSizeCase(b.Case) {
					bigs := refcodec.BigValues(b.Case.Rec, w.thorough)
					if len(bigs) > 6 {
						bigs = bigs[:6]
					}
					for _, rv := range bigs {
						if w.slow(b) {
							break
						}
						ref := encodeRef(rv)
						enc := ref.B
						for i := 0; i+3 < len(enc) && i < 64; i++ {
							if (ref.Roles[i] != refcodec.RCount && ref.Roles[i] != refcodec.RLen) || sameWord(ref, i) {
								continue
							}
							n := uint32(enc[i]) | uint32(enc[i+1])<<8 | uint32(enc[i+2])<<16 | uint32(enc[i+3])<<24
							role := ref.Roles[i].String()
							for _, v := range []uint32{n + 1, 2*n + 1, 1 << 24, 48 << 20, n - 1} {
								c := append([]byte{}, enc...)
								putU32(c[i:], v)
								w.res.States++
								w.judgeArbitrary(b, c, "big-u32@"+role, func() map[string]any {
									m := caseInfo(b, nil)
									m["valid_encoding_bytes"] = len(enc)
									m["count_replaced_by"] = v
									return m
								})
							}
						}
					}
				}
				// giant counts last: they may kill the process (reported by the orchestrator as worker-killed)
				for vi, rv := range vals {
					if !w.thorough && vi >= 4 {
						break // quick tier: the first four values of each case
					}
					if w.slow(b) {
						break
					}
					ref := encodeRef(rv)
					enc := ref.B
					for i := 0; i+3 < len(enc); i++ {
						if (ref.Roles[i] != refcodec.RCount && ref.Roles[i] != refcodec.RLen) || sameWord(ref, i) {
							continue
						}
						role := ref.Roles[i].String()
						// around 2^31 (sign of a 32-bit int) and just below 2^32 (4+n wraps in 32-bit arithmetic)
						for _, v := range []uint32{1<<31 - 1, 1 << 31, 0xfffffffb, 0xfffffffc, 0xffffffff} {
							c := append([]byte{}, enc...)
							putU32(c[i:], v)
							w.res.States++
							w.start(fmt.Sprintf("%s@%d|%s", b.Case.ID, b.Opt, b.Case.Class))
							w.judgeArbitrary(b, c, "u32-giant@"+role, func() map[string]any { m := caseInfo(b, rv); m["valid_encoding"] = vlib.Hex(enc); return m })
						}
					}
				}
				if b.Opt == 0 && phase == "DecodeBebop" {
					w.sample(map[string]any{"case": b.Case.ID, "class": b.Case.Class, "short_strings": "all strings of length ≤ " + fmt.Sprint(maxShort) + " over {00,01,02,03,7f,ff}", "valid_encodings_corrupted": len(encs)})
				}
			}
		}
	}
	w.phase = ""
}

// wordOffset is the position of byte i inside its u32 word.
func wordOffset(ref *refcodec.Enc, i int) int {
	run := 0
	for j := i - 1; j >= 0 && ref.Roles[j] == ref.Roles[i]; j-- {
		run++
	}
	return run % 4
}

// sameWord reports whether byte i continues a u32 word that started earlier (roles come in runs of 4).
func sameWord(ref *refcodec.Enc, i int) bool {
	run := 0
	for j := i - 1; j >= 0 && ref.Roles[j] == ref.Roles[i]; j-- {
		run++
	}
	return run%4 != 0
}

func putU32(b []byte, v uint32) {
	b[0], b[1], b[2], b[3] = byte(v), byte(v>>8), byte(v>>16), byte(v>>24)
}

// ---- C08: I/O failures always surface -------------------------------------------------------------------

var errIO = errors.New("injected I/O failure")

// tempErr is an error of the kind deadline-bound connections return: it claims to be temporary and a timeout.
// A failed Write is a failed Write whatever the error says about itself.
type tempErr struct{}

func (tempErr) Error() string   { return "injected i/o timeout" }
func (tempErr) Temporary() bool { return true }
func (tempErr) Timeout() bool   { return true }

var errTemp error = tempErr{}

func (w *W) c08(groups [][]*driver.Bound) {
	for _, g := range groups {
		if isEvo(g) {
			continue
		}
		for _, b := range pickOpts(g, streamOpts...) {
			if !w.begin(b) {
				continue
			}
			vals := pickValues(refcodec.RecValues(b.Case.Rec, 0, 0), 8, 96)
			if w.thorough {
				vals = pickValues(refcodec.RecValues(b.Case.Rec, 0, 0), 16, 400)
			}
			if refcodec.IsBig(b.Case.Rec) {
				vals = append(vals, refcodec.BigValues(b.Case.Rec, w.thorough)...)
			}
			for vi, rv := range vals {
				if w.slow(b) {
					break
				}
				rec, err := b.Fresh(rv)
				if err != nil {
					w.res.HarnessErr = err.Error()
					return
				}
				var want []byte
				if o := driver.Guard(func() error { want = rec.MarshalBebop(); return nil }); o.Panicked {
					continue
				}
				// fault-free run fixes the number of Write calls
				fw0 := &driver.FaultWriter{Err: errIO}
				if o := driver.Guard(func() error { return rec.EncodeBebop(fw0) }); o.Panicked || o.Err != nil || !bytes.Equal(fw0.Buf, want) {
					w.report("C08|encode-baseline|"+b.Case.Class, "fault-free EncodeBebop failed or differs from MarshalBebop: "+outcomeStr(o), caseInfo(b, rv))
					continue
				}
				W := fw0.Calls
				type fault struct {
					at     map[int]int
					sticky bool
				}
				var faults []fault
				for k := 1; k <= W+1; k++ {
					if W > 500 && k > 32 && k < W-32 && k%211 != 0 {
						// encodes with hundreds of Write calls (the dedicated big values): first/last 32 calls and every 211th
						w.res.Extra["write_fault_points_skipped_in_long_encodes"]++
						continue
					}
					for style := 1; style <= 2; style++ {
						for _, sticky := range []bool{false, true} {
							faults = append(faults, fault{map[int]int{k: style}, sticky})
						}
					}
				}
				if w.thorough && W <= 24 {
					for k1 := 1; k1 <= W; k1++ {
						for k2 := k1 + 1; k2 <= W; k2++ {
							faults = append(faults, fault{map[int]int{k1: 1, k2: 2}, false})
						}
					}
				}
				for fi := 0; fi < 2*len(faults); fi++ {
					f := faults[fi/2]
					fw := &driver.FaultWriter{Err: errIO, FailAt: f.at, Sticky: f.sticky}
					if (fi/2)%3 == 2 {
						// every third fault delivers an error that calls itself temporary / a timeout
						fw.Err = errTemp
					}
					var sink io.Writer = fw
					if fi%2 == 1 {
						// the same fault through a writer that also offers WriteByte / WriteString
						sink = driver.RichFaultWriter{FaultWriter: fw}
					}
					o := driver.Guard(func() error { return rec.EncodeBebop(sink) })
					w.res.Evaluations++
					delivered := false
					first := 0
					for k := range f.at {
						if k <= fw.Calls {
							delivered = true
						}
						if first == 0 || k < first {
							first = k
						}
					}
					ci := func() map[string]any {
						m := caseInfo(b, rv)
						m["write_calls_fault_free"] = W
						m["fault_at_write_call"] = f.at
						m["sticky"] = f.sticky
						m["writer_offers_WriteByte_WriteString"] = fi%2 == 1
						m["error_claims_to_be_temporary"] = (fi/2)%3 == 2
						return m
					}
					w.outcome("enc:" + failKind(o))
					if delivered {
						w.distinctKey(fmt.Sprintf("%s#%d#w%d", b.Case.ID, vi, first))
					}
					switch {
					case o.Panicked:
						w.report(fmt.Sprintf("C08|encode|panic:%s@%s|%s", o.PanicKind, o.Site, b.Case.Class), "EncodeBebop panicked under an injected write failure: "+outcomeStr(o), ci())
					case delivered && o.Err == nil:
						w.report(fmt.Sprintf("C08|encode|error-swallowed|%s|%s", b.Case.Rec.Kind, b.Case.Class),
							fmt.Sprintf("Write call %v of %d failed but EncodeBebop returned nil", f.at, W), ci())
					case !delivered && o.Err == nil && !bytes.Equal(fw.Buf, want):
						w.report("C08|encode|nil-but-wrong-bytes|"+b.Case.Class, "EncodeBebop returned nil but wrote "+vlib.Hex(fw.Buf)+" instead of "+vlib.Hex(want), ci())
					case !delivered && o.Err != nil:
						w.report("C08|encode|spurious-error|"+b.Case.Class, "EncodeBebop returned an error although no fault was delivered: "+o.Err.Error(), ci())
					}
				}
				// reader faults: every byte offset, two delivery styles, two chunkings, two error values
				for k := 0; k < len(want); k++ {
					long := len(want) > 2000
					if long && k >= 32 && k < len(want)-32 && k%211 != 0 && k != 4096 && k != 4100 && k != 4104 {
						// long encodings (the dedicated big values): first/last 32 offsets, every 211th and the threshold offsets
						w.res.Extra["fault_offsets_skipped_in_long_encodings"]++
						continue
					}
					for style := 0; style < 2; style++ {
						for _, chunk := range []int{driver.OptFull, driver.OptOne} {
							if long && chunk == driver.OptOne {
								continue
							}
							for ei, e := range []error{errIO, io.EOF, errIO, errIO} {
								cr := driver.NewChunkReader(want)
								cr.FailAt, cr.FailErr, cr.FailStyle = k, e, style
								if ei == 3 && style == 1 {
									// an error handed over together with ALL the bytes asked for is dropped by io.ReadFull by design; a
									// reader that then carries on has not failed in any observable way: transient faults are (0, err) only
									continue
								}
								cr.Transient = ei == 3 // the reader fails once and then carries on: still a failed read
								chunk := chunk
								cr.Choose = func(opts []int) int {
									for i, o := range opts {
										if o == chunk {
											return i
										}
									}
									return 0
								}
								var src io.Reader = cr
								if ei == 2 {
									// the same fault through a reader that also offers ReadByte (bytes.Reader, bufio.Reader ... do)
									src = driver.ByteChunkReader{ChunkReader: cr}
								}
								out := b.New()
								o := driver.Guard(func() error { return out.DecodeBebop(src) })
								w.res.Evaluations++
								w.outcome("dec:" + failKind(o))
								ci := func() map[string]any {
									m := caseInfo(b, rv)
									m["encoding"] = vlib.Hex(want)
									m["fail_at_byte"] = k
									m["style"] = []string{"(0,err)", "(n,err)"}[style]
									m["chunking"] = []string{"full", "one-byte"}[chunk]
									m["reader_offers_ReadByte"] = ei == 2
									m["transient_failure"] = ei == 3
									return m
								}
								if cr.Faulted {
									w.distinctKey(fmt.Sprintf("%s#%d#r%d", b.Case.ID, vi, k))
								}
								switch {
								case o.Panicked:
									w.report(fmt.Sprintf("C08|decode|panic:%s@%s|%s", o.PanicKind, o.Site, b.Case.Class), "DecodeBebop panicked under an injected read failure: "+outcomeStr(o), ci())
								case cr.Faulted && o.Err == nil:
									w.report(fmt.Sprintf("C08|decode|error-swallowed|%s|%s", b.Case.Rec.Kind, b.Case.Class),
										fmt.Sprintf("the reader failed at byte %d of %d but DecodeBebop returned nil", k, len(want)), ci())
								}
								if o.Alloc > budgetFor(b, len(want)) && driver.PreciseAlloc(func() {
									cr2 := driver.NewChunkReader(want)
									cr2.FailAt, cr2.FailErr, cr2.FailStyle, cr2.Choose, cr2.Transient = k, e, style, cr.Choose, ei == 3
									b.New().DecodeBebop(cr2)
								}) > budgetFor(b, len(want)) {
									w.report(fmt.Sprintf("C08|decode|alloc|%s", b.Case.Class), fmt.Sprintf("DecodeBebop allocated %d bytes for a %d-byte stream failing at byte %d", o.Alloc, len(want), k), ci())
								}
							}
						}
					}
				}
				if vi == 0 && b.Opt == 0 {
					w.sample(map[string]any{"case": b.Case.ID, "class": b.Case.Class, "encoding": vlib.Hex(want), "write_calls": W, "write_faults": len(faults), "read_fault_offsets": len(want)})
				}
			}
		}
	}
}
