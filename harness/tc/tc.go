// Package tc type-checks generated Go source in-process with go/parser + go/types, against
// github.com/200sc/bebop and .../iohelp type-checked from the working tree of the repository
// and the standard library from source.
package tc

import (
	"fmt"
	"go/ast"
	"go/importer"
	"go/parser"
	"go/token"
	"go/types"
	"os"
	"path/filepath"
	"strings"
	"sync"
)

type Checker struct {
	mu    sync.Mutex
	fset  *token.FileSet
	std   types.Importer
	pkgs  map[string]*types.Package
	repo  string
	extra map[string]string // import path -> Go source of additional single-file packages (separate-mode imports)
}

const (
	BebopPath  = "github.com/200sc/bebop"
	IohelpPath = "github.com/200sc/bebop/iohelp"
)

// New prepares a checker: iohelp and bebop are parsed from repo and type-checked once.
func New(repo string) (*Checker, error) {
	c := &Checker{fset: token.NewFileSet(), pkgs: map[string]*types.Package{}, repo: repo, extra: map[string]string{}}
	c.std = importer.ForCompiler(c.fset, "source", nil)
	for _, p := range []struct{ path, dir string }{{IohelpPath, "iohelp"}, {BebopPath + "/internal/importgraph", "internal/importgraph"}, {BebopPath, ""}} {
		pkg, err := c.checkDir(p.path, filepath.Join(repo, p.dir))
		if err != nil {
			return nil, fmt.Errorf("type-checking %s from %s: %w", p.path, repo, err)
		}
		c.pkgs[p.path] = pkg
	}
	// warm the std packages generated code imports
	for _, p := range []string{"io", "math", "time"} {
		if _, err := c.Import(p); err != nil {
			return nil, err
		}
	}
	return c, nil
}

func (c *Checker) checkDir(path, dir string) (*types.Package, error) {
	ents, err := os.ReadDir(dir)
	if err != nil {
		return nil, err
	}
	var files []*ast.File
	for _, e := range ents {
		n := e.Name()
		if e.IsDir() || !strings.HasSuffix(n, ".go") || strings.HasSuffix(n, "_test.go") {
			continue
		}
		f, err := parser.ParseFile(c.fset, filepath.Join(dir, n), nil, 0)
		if err != nil {
			return nil, err
		}
		files = append(files, f)
	}
	conf := types.Config{Importer: c, FakeImportC: true}
	return conf.Check(path, c.fset, files, nil)
}

// Import implements types.Importer (serialised: the source importer is not concurrency-safe).
func (c *Checker) Import(path string) (*types.Package, error) {
	c.mu.Lock()
	defer c.mu.Unlock()
	return c.importLocked(path)
}

func (c *Checker) importLocked(path string) (*types.Package, error) {
	if p, ok := c.pkgs[path]; ok {
		return p, nil
	}
	if strings.HasPrefix(path, BebopPath) {
		return nil, fmt.Errorf("package %s not provided", path)
	}
	p, err := c.std.Import(path)
	if err != nil {
		return nil, err
	}
	c.pkgs[path] = p
	return p, nil
}

// AddPackage registers an already checked package under an import path (imports in separate mode).
func (c *Checker) AddPackage(path string, p *types.Package) {
	c.mu.Lock()
	c.pkgs[path] = p
	c.mu.Unlock()
}

// Result of checking one generated file.
type Result struct {
	Pkg      *types.Package
	ParseErr error
	Errs     []types.Error
}

func (r *Result) OK() bool { return r.ParseErr == nil && len(r.Errs) == 0 }

// Category reduces a go/types error to a stable class (message text with identifiers removed).
func Category(e types.Error) string {
	m := e.Msg
	switch {
	case strings.Contains(m, "declared and not used"):
		return "unused-variable"
	case strings.Contains(m, "imported and not used"):
		return "unused-import"
	case strings.Contains(m, "undefined:") || strings.Contains(m, "undeclared name"):
		return "undefined"
	case strings.Contains(m, "redeclared") || strings.Contains(m, "already declared") || strings.Contains(m, "no new variables"):
		return "redeclared"
	case strings.Contains(m, "cannot use") || strings.Contains(m, "mismatched types") || strings.Contains(m, "cannot convert"):
		return "type-mismatch"
	case strings.Contains(m, "cannot index") || strings.Contains(m, "invalid operation"):
		return "invalid-operation"
	case strings.Contains(m, "missing return"):
		return "missing-return"
	case strings.Contains(m, "does not implement") || strings.Contains(m, "missing method"):
		return "not-a-record"
	case strings.Contains(m, "is not a type") || strings.Contains(m, "not a type"):
		return "not-a-type"
	case strings.Contains(m, "has no field or method") || strings.Contains(m, "undefined (type"):
		return "no-field-or-method"
	case strings.Contains(m, "duplicate") || strings.Contains(m, "field and method with the same name"):
		return "duplicate-declaration"
	case strings.Contains(m, "overflows") || strings.Contains(m, "truncated") || strings.Contains(m, "constant"):
		return "constant-range"
	case strings.Contains(m, "assignment mismatch") || strings.Contains(m, "cannot assign"):
		return "assignment"
	case strings.Contains(m, "invalid recursive type"):
		return "recursive-type"
	}
	return "other"
}

// Check parses and type-checks one generated source file as its own package.
func (c *Checker) Check(filename string, src []byte) *Result {
	fset := token.NewFileSet()
	f, err := parser.ParseFile(fset, filename, src, parser.SkipObjectResolution)
	if err != nil {
		return &Result{ParseErr: err}
	}
	r := &Result{}
	conf := types.Config{Importer: c, Error: func(err error) {
		if te, ok := err.(types.Error); ok {
			// "soft" errors (unused variables/imports/labels, := without new variables, ...) are rejected by
			// the compiler as well: every error counts
			r.Errs = append(r.Errs, te)
		}
	}}
	pkg, _ := conf.Check(f.Name.Name, fset, []*ast.File{f}, nil)
	r.Pkg = pkg
	return r
}

// ErrLine extracts "line: message" for reports.
func ErrLine(e types.Error) string {
	return fmt.Sprintf("%s: %s", e.Fset.Position(e.Pos), e.Msg)
}
