package textgen

import (
	"fmt"
	"math"

	"github.com/200sc/bebop"
)

// Alphabet returns the definition alphabet instantiated for sequence position p (names are unique
// per position so that sequences never contain duplicate names). Simplest entries first.
func Alphabet(p int) []*Def {
	n := func(s string) string { return fmt.Sprintf("%s%d", s, p) }
	var out []*Def
	add := func(label string, d *Def) {
		d.Label = label
		out = append(out, d)
	}
	add("enum", &Def{Kind: Enum, Name: n("En"), Members: []Member{{Name: "A", Expr: "1", U: 1}, {Name: "B", Expr: "2", U: 2}}})
	add("struct", &Def{Kind: Struct, Name: n("St"), Fields: []Field{{Name: "x", Type: S("int32")}, {Name: "s", Type: S("string")}}})
	add("message", &Def{Kind: Message, Name: n("Ms"), Fields: []Field{{Name: "x", Index: 1, Type: S("int32")}, {Name: "s", Index: 2, Type: S("string")}}})
	add("union", &Def{Kind: Union, Name: n("Un"), Branches: []Branch{
		{Disc: 1, Rec: &Def{Kind: Struct, Name: n("UnA"), Fields: []Field{{Name: "a", Type: S("int32")}}}},
		{Disc: 2, Rec: &Def{Kind: Message, Name: n("UnB"), Fields: []Field{{Name: "b", Index: 1, Type: S("string")}}}}}})
	add("const-int", &Def{Kind: Const, Name: n("ci"), CType: "int32", CText: "42", CValue: "42"})
	add("import", &Def{Kind: Import, Path: n("other") + ".bop"})
	add("enum-typed-u8", &Def{Kind: Enum, Name: n("Tu"), Base: "uint8", Members: []Member{{Name: "A", Expr: "0x01", U: 1}, {Name: "B", Expr: "255", U: 255}}})
	add("enum-typed-i16", &Def{Kind: Enum, Name: n("Ti"), Base: "int16", Members: []Member{{Name: "Neg", Expr: "-5", S: -5}, {Name: "Z", Expr: "0", S: 0}, {Name: "Min", Expr: "-32768", S: -32768}, {Name: "NegHex", Expr: "-0x10", S: -16}, {Name: "Hex", Expr: "0x7F", S: 127}}})
	add("enum-typed-i64", &Def{Kind: Enum, Name: n("Tl"), Base: "int64", Members: []Member{{Name: "Min", Expr: "-9223372036854775808", S: math.MinInt64}, {Name: "Max", Expr: "9223372036854775807", S: math.MaxInt64}}})
	add("enum-typed-u64", &Def{Kind: Enum, Name: n("Tm"), Base: "uint64", Members: []Member{{Name: "Max", Expr: "18446744073709551615", U: math.MaxUint64}, {Name: "Hex", Expr: "0xFFFFFFFFFFFFFFFE", U: math.MaxUint64 - 1}}})
	add("flags", &Def{Kind: Enum, Name: n("Fl"), Flags: true, Members: []Member{
		{Name: "None", Expr: "0", U: 0}, {Name: "R", Expr: "0x0001", U: 1}, {Name: "W", Expr: "1 << 1", U: 2},
		{Name: "RW", Expr: "R | W", U: 3}, {Name: "P", Expr: "(R | W) << 2", U: 12}, {Name: "M", Expr: "(RW | 8) & 10", U: 10}}})
	add("flags-typed-i32", &Def{Kind: Enum, Name: n("Fi"), Flags: true, Base: "int32", Members: []Member{
		{Name: "A", Expr: "1", S: 1}, {Name: "B", Expr: "256 >> 4", S: 16}, {Name: "C", Expr: "A | B", S: 17}, {Name: "D", Expr: "(C & 16) | (1 << 5)", S: 48}}})
	add("enum-deprecated-doc", &Def{Kind: Enum, Name: n("Ed"), Doc: []string{" documented enum"}, Members: []Member{
		{Name: "X", Expr: "1", U: 1, Doc: []string{" about X"}}, {Name: "Y", Expr: "2", U: 2, Dep: str("Y is old")},
		{Name: "Z", Expr: "3", U: 3, Doc: []string{" about Z"}, Dep: str("Z too")}}})
	add("struct-readonly", &Def{Kind: Struct, Name: n("Ro"), ReadOnly: true, Fields: []Field{{Name: "x", Type: S("int32")}}})
	add("struct-opcode-int", &Def{Kind: Struct, Name: n("So"), OpCode: "0x12", OpVal: 0x12, Fields: []Field{{Name: "x", Type: S("int32")}}})
	add("struct-opcode-str", &Def{Kind: Struct, Name: n("Sp"), OpCode: "\"ABCD\"", OpVal: 0x44434241, Fields: []Field{{Name: "x", Type: S("int32")}}})
	add("struct-doc-dep-tags", &Def{Kind: Struct, Name: n("Sd"), Doc: []string{" first line", " second line"}, Fields: []Field{
		{Name: "x", Type: S("int32"), Doc: []string{" about x"}, Tags: []bebop.Tag{{Key: "json", Value: "x"}}},
		{Name: "y", Type: S("string"), Dep: str("y is old"), Tags: []bebop.Tag{{Key: "json", Value: "y"}, {Key: "db", Value: "why"}}},
		{Name: "w", Type: S("guid")},
		{Name: "z", Type: S("bool"), Tags: []bebop.Tag{{Key: "json", Value: "z,omitempty"}, {Key: "flag", Boolean: true}}}}})
	add("message-tags", &Def{Kind: Message, Name: n("Mt"), Fields: []Field{
		{Name: "a", Index: 1, Type: S("int32"), Tags: []bebop.Tag{{Key: "json", Value: "a"}}},
		{Name: "b", Index: 2, Type: S("string"), Doc: []string{" about b"}, Tags: []bebop.Tag{{Key: "json", Value: "b"}}},
		{Name: "c", Index: 3, Type: S("bool")}}})
	add("union-tags", &Def{Kind: Union, Name: n("Ut"), Branches: []Branch{
		{Disc: 1, Rec: &Def{Kind: Struct, Name: n("UtA"), Fields: []Field{
			{Name: "p", Type: S("int32"), Tags: []bebop.Tag{{Key: "json", Value: "p"}}}, {Name: "q", Type: S("int32"), Tags: []bebop.Tag{{Key: "json", Value: "q"}}}}}},
		{Disc: 2, Rec: &Def{Kind: Message, Name: n("UtB"), Fields: []Field{
			{Name: "r", Index: 1, Type: S("string"), Tags: []bebop.Tag{{Key: "json", Value: "r"}}}, {Name: "t", Index: 2, Type: S("string"), Tags: []bebop.Tag{{Key: "json", Value: "t"}}}}}}}})
	add("struct-types", &Def{Kind: Struct, Name: n("Sy"), Fields: []Field{
		{Name: "a", Type: Arr(S("int32"))}, {Name: "b", Type: Arr(Arr(S("string")))}, {Name: "c", Type: Mp("string", S("int32"))},
		{Name: "d", Type: Mp("guid", Arr(Mp("uint32", S("date"))))}, {Name: "e", Type: Arr(Arr(Arr(S("byte"))))}, {Name: "f", Type: Arr(Mp("string", Arr(S("float64"))))}}})
	add("struct-empty", &Def{Kind: Struct, Name: n("Se")})
	add("struct-docblock", &Def{Kind: Struct, Name: n("Sb"), Doc: []string{" block doc "}, DocBlock: true, Fields: []Field{{Name: "x", Type: S("int32")}}})
	add("message-sparse-dep-doc", &Def{Kind: Message, Name: n("Md"), Doc: []string{" documented message"}, Fields: []Field{
		{Name: "x", Index: 1, Type: S("int32"), Doc: []string{" about x"}}, {Name: "y", Index: 7, Type: Arr(S("string")), Dep: str("gone")},
		{Name: "z", Index: 255, Type: Mp("string", S("guid"))}}})
	add("message-opcode", &Def{Kind: Message, Name: n("Mo"), OpCode: "7", OpVal: 7, Fields: []Field{{Name: "x", Index: 1, Type: S("int32")}}})
	add("message-empty", &Def{Kind: Message, Name: n("Me")})
	add("union-opcode-doc-dep", &Def{Kind: Union, Name: n("Uo"), OpCode: "\"yeah\"", OpVal: 0x68616579, Doc: []string{" documented union"}, Branches: []Branch{
		{Disc: 1, Doc: []string{" first branch"}, Rec: &Def{Kind: Message, Name: n("UoA"), Fields: []Field{{Name: "b", Index: 1, Type: S("uint32")}}}},
		{Disc: 3, Dep: str("old branch"), Rec: &Def{Kind: Struct, Name: n("UoB"), Fields: []Field{{Name: "c", Type: S("bool")}}}},
		{Disc: 200, Rec: &Def{Kind: Struct, Name: n("UoC")}}}})
	// identifiers are Unicode letters and digits (the tokenizer uses unicode.IsLetter): non-ASCII runes after the first
	// character, of two and three bytes, in every identifier position
	add("non-ascii-identifiers", &Def{Kind: Struct, Name: n("Café"), Fields: []Field{{Name: "größe", Type: S("int32")}, {Name: "naïve日本", Type: Arr(S("string"))}, {Name: "x", Type: Mp("string", S("guid"))}}})
	add("non-ascii-enum", &Def{Kind: Enum, Name: n("Größe"), Members: []Member{{Name: "Klein", Expr: "1", U: 1}, {Name: "Groß", Expr: "2", U: 2}}})
	add("union-docs-on-later-branches", &Def{Kind: Union, Name: n("Ud"), Branches: []Branch{
		{Disc: 1, Rec: &Def{Kind: Struct, Name: n("UdA"), Fields: []Field{{Name: "a", Type: S("int32")}}}},
		{Disc: 2, Doc: []string{" about the second branch"}, Rec: &Def{Kind: Message, Name: n("UdB"), Fields: []Field{{Name: "b", Index: 1, Type: S("string"), Doc: []string{" about b"}}, {Name: "c", Index: 2, Type: S("bool"), Doc: []string{" about c"}}}}},
		{Disc: 3, Doc: []string{" about the third branch", " in two lines"}, Rec: &Def{Kind: Struct, Name: n("UdC")}},
		{Disc: 4, Doc: []string{" about the fourth branch"}, Dep: str("fourth is old"), Rec: &Def{Kind: Struct, Name: n("UdD"), Fields: []Field{{Name: "d", Type: S("guid"), Doc: []string{" about d"}}}}}}})
	add("enum-docs-on-later-members", &Def{Kind: Enum, Name: n("Em"), Members: []Member{{Name: "A", Expr: "1", U: 1}, {Name: "B", Expr: "2", U: 2, Doc: []string{" about B"}}, {Name: "C", Expr: "3", U: 3, Doc: []string{" about C", " second line"}}}})
	add("empty-deprecation-messages", &Def{Kind: Union, Name: n("Ue"), Branches: []Branch{
		{Disc: 1, Dep: str(""), Rec: &Def{Kind: Struct, Name: n("UeA"), Fields: []Field{{Name: "a", Type: S("int32"), Dep: str("")}}}},
		{Disc: 2, Rec: &Def{Kind: Message, Name: n("UeB"), Fields: []Field{{Name: "b", Index: 1, Type: S("string"), Dep: str("")}}}}}})
	add("enum-empty-deprecation", &Def{Kind: Enum, Name: n("Ee"), Members: []Member{{Name: "A", Expr: "1", U: 1, Dep: str("")}, {Name: "B", Expr: "2", U: 2}}})
	add("flags-signed-negative-shifts", &Def{Kind: Enum, Name: n("Fneg"), Flags: true, Base: "int32", Members: []Member{
		{Name: "All", Expr: "-1", S: -1}, {Name: "High", Expr: "All << 16", S: -65536}, {Name: "Lit", Expr: "-2 << 8", S: -512},
		{Name: "Down", Expr: "-1024 >> 8", S: -4}, {Name: "Top", Expr: "1 << 30", S: 1 << 30}}})
	// member names shared with "flags" (R, W, RW, P) and "flags-typed-i32" (A, C), each at ANOTHER position, and referenced
	add("flags-shared-member-names", &Def{Kind: Enum, Name: n("Fs"), Flags: true, Members: []Member{
		{Name: "RW", Expr: "24", U: 24}, {Name: "P", Expr: "32", U: 32}, {Name: "R", Expr: "RW & 8", U: 8}, {Name: "W", Expr: "RW & 16", U: 16},
		{Name: "A", Expr: "R | W | P", U: 56}, {Name: "C", Expr: "A & 40", U: 40}}})
	add("const-uint64-hex", &Def{Kind: Const, Name: n("cu"), CType: "uint64", CText: "0xFFFFFFFFFFFFFFFF", CValue: "0xFFFFFFFFFFFFFFFF"})
	add("const-int-neg", &Def{Kind: Const, Name: n("cn"), CType: "int64", CText: "-9223372036854775808", CValue: "-9223372036854775808"})
	add("const-float", &Def{Kind: Const, Name: n("cf"), CType: "float64", CText: "1.5e3", CValue: "1.5e3"})
	add("const-inf", &Def{Kind: Const, Name: n("cg"), CType: "float32", CText: "inf", CValue: "math.Inf(1)"})
	add("const-neginf", &Def{Kind: Const, Name: n("ch"), CType: "float64", CText: "-inf", CValue: "math.Inf(-1)"})
	add("const-nan", &Def{Kind: Const, Name: n("ck"), CType: "float64", CText: "nan", CValue: "math.NaN()"})
	add("const-string", &Def{Kind: Const, Name: n("cs"), CType: "string", CText: `"he said \"hi\" \\ there"`, CValue: `"he said \"hi\" \\ there"`, Doc: []string{" a documented const"}})
	add("const-bool", &Def{Kind: Const, Name: n("cb"), CType: "bool", CText: "true", CValue: "true"})
	add("const-guid", &Def{Kind: Const, Name: n("cd"), CType: "guid", CText: `"e215a946-b26f-4567-a276-13136f0a1708"`, CValue: `"e215a946-b26f-4567-a276-13136f0a1708"`})
	return out
}

// PrecedenceEnums are [flags] enums whose expressions mix operators without parentheses; their expected
// values follow the C-family precedence (<< >> bind tighter than &, & tighter than |, left-associative)
// that the Bebop reference compiler uses. They are kept apart so that a precedence finding has its own signature.
func PrecedenceEnums(p int) []*Def {
	n := func(s string) string { return fmt.Sprintf("%s%d", s, p) }
	return []*Def{
		{Kind: Enum, Label: "flags-precedence", Name: n("Fp"), Flags: true, Members: []Member{
			{Name: "A", Expr: "4 & 6 | 1", U: 5}, {Name: "B", Expr: "1 | 2 << 2", U: 9}, {Name: "C", Expr: "16 >> 1 >> 1", U: 4}, {Name: "D", Expr: "8 | 4 & 12 | 1", U: 13},
			{Name: "E", Expr: "6 & 3 << 1", U: 6}, {Name: "F", Expr: "(1 | 2) << 3 | 1 & 3", U: 25}, {Name: "G", Expr: "1 << 2 << 3", U: 32}, {Name: "H", Expr: "255 & (7 | 8 << 1) >> 1", U: 11},
			// parenthesised groups holding two operators, in first, middle and last position
			{Name: "I", Expr: "(64 & 192 | 3) | 256", U: 323}, {Name: "J", Expr: "512 | (64 & 192 | 5) | 1024", U: 1605}, {Name: "K", Expr: "2048 | (1024 >> 2 >> 1)", U: 2176},
			{Name: "L", Expr: "4096 | (2 | (512 >> 2 >> 1))", U: 4162}, {Name: "M", Expr: "((8192 | 3))", U: 8195}}},
	}
}
