package textgen

import (
	"fmt"
	"strings"
)

// Lexemes is the token alphabet of the explicit-state searches over schema TEXT (C10's acceptance search, and the
// formatter checks run over everything that search finds acceptable).
var Lexemes = []string{"struct", "message", "enum", "union", "const", "readonly", "import", "[", "]", "(", ")", "{", "}", ";", ",", "=", ":", "->", "|", "<<",
	"a", "1", "-1", "\"s\"", "//c\n", "/*c*/", "\n", "flags", "opcode", "deprecated", "int32", "1.5", "&", ">>", "map", "array"}

// LexemeStrings enumerates all sequences of 1..max lexemes joined by single spaces, each from two start states:
// on its own, and after a complete definition.
func LexemeStrings(max int) []string {
	var out []string
	var rec func(cur []string)
	rec = func(cur []string) {
		if len(cur) > 0 {
			body := strings.Join(cur, " ")
			out = append(out, body, "struct A {}\n"+body)
		}
		if len(cur) == max {
			return
		}
		for _, l := range Lexemes {
			rec(append(append([]string{}, cur...), l))
		}
	}
	rec(nil)
	return out
}

// AttributeInterleavings puts every lexeme (and every pair of lexemes) between a top-level attribute or doc comment and
// the definition it annotates, and between two definitions: the places where a parser's pending state is live.
func AttributeInterleavings(pairs bool) []string {
	heads := []string{"[opcode(1)]", "[opcode(\"abcd\")]", "[flags]", "// doc\n", "/* doc */", "readonly"}
	defs := []string{"struct A { int32 x; }", "message M { 1 -> int32 x; }", "enum E { One = 1; }", "union U { 1 -> struct B { int32 x; } }", "const int32 c = 1;"}
	var mids []string
	for _, l := range Lexemes {
		mids = append(mids, l)
	}
	if pairs {
		for _, a := range Lexemes {
			for _, b := range Lexemes {
				mids = append(mids, a+" "+b)
			}
		}
	}
	var out []string
	for _, h := range heads {
		for _, d := range defs {
			out = append(out, h+" "+d, h+"\n"+d)
			for _, m := range mids {
				out = append(out, h+" "+m+" "+d)
				out = append(out, h+"\n"+m+"\n"+d)
			}
		}
	}
	return out
}

// CompactLarge is a valid schema of n definitions written one per line (the style of testdata/base/lab.bop): longer than
// a reader buffer for n >= 60, and formatting makes it longer still.
func CompactLarge(n int) string {
	var sb strings.Builder
	for i := 0; i < n; i++ {
		switch i % 3 {
		case 0:
			fmt.Fprintf(&sb, "struct Sc%d { int32 a; string b; array[uint16] c; map[string, guid] d; }\n", i)
		case 1:
			fmt.Fprintf(&sb, "[opcode(%d)] message Mc%d { 1 -> Sc%d s; 2 -> date when; 3 -> float64 ratio; }\n", 0x100+i, i, i-1)
		default:
			fmt.Fprintf(&sb, "enum Ec%d { A = 1; B = 2; C = %d; }\n", i, i+3)
		}
	}
	return sb.String()
}
