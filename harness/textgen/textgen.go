// Package textgen is the harness's model of schema TEXT: a definition AST carrying everything the
// parser is supposed to report (comments, attributes, indices, expressions), renderers for a finite
// list of layouts, an independent builder of the expected bebop.File, and a canonical printer used to
// compare Files. It shares no code with the parser under test.
package textgen

import (
	"fmt"
	"sort"
	"strings"

	"github.com/200sc/bebop"
)

type TK int

const (
	Simple TK = iota
	Array
	Map
)

// T is a type expression.
type T struct {
	K    TK
	Name string
	Key  string
	Elem *T
}

func S(n string) *T        { return &T{K: Simple, Name: n} }
func Arr(e *T) *T          { return &T{K: Array, Elem: e} }
func Mp(k string, v *T) *T { return &T{K: Map, Key: k, Elem: v} }

type Field struct {
	Name  string
	Index int
	Type  *T
	Dep   *string  // deprecation message
	Doc   []string // doc comment lines (text after //)
	Tags  []bebop.Tag
}

type Member struct {
	Name string
	Expr string
	S    int64
	U    uint64
	Dep  *string
	Doc  []string
}

type Branch struct {
	Disc int
	Rec  *Def
	Dep  *string
	Doc  []string
}

type Kind int

const (
	Enum Kind = iota
	Struct
	Message
	Union
	Const
	Import
)

func (k Kind) String() string {
	return [...]string{"enum", "struct", "message", "union", "const", "import"}[k]
}

// Def is one top-level definition (or an inline union member).
type Def struct {
	Kind     Kind
	Name     string
	Label    string // alphabet label (signatures)
	Doc      []string
	DocBlock bool   // render the doc comment as one /* */ block (single line only)
	OpCode   string // text inside [opcode(...)]
	OpVal    uint32
	ReadOnly bool
	Flags    bool
	Base     string
	Members  []Member
	Fields   []Field
	Branches []Branch
	CType    string
	CText    string // literal as written
	CValue   string // Value the parser is expected to report
	Path     string // import path
}

func str(s string) *string { return &s }

// ---- layouts ---------------------------------------------------------------------------------------

// Layout is one way of writing the same AST as text.
type Layout struct {
	Name           string
	Required       bool // the parser must accept it (style used by the repository's own schemas, or CRLF)
	Indent         string
	OneLine        bool // record bodies on one line
	Blank          int  // blank lines between definitions
	AttrSameLine   bool // [opcode(..)] / [flags] / [deprecated(..)] on the same line as what they annotate
	BlankAfterAttr bool // an empty line between an attribute and what it annotates
	Postfix        bool // T[] instead of array[T]
	CRLF           bool
	Trailing       bool // trailing spaces at line ends
	TrailingTab    bool // a trailing TAB at line ends (horizontal whitespace like any other)
	NoFinalNL      bool
	Tight          bool // no optional spaces
	BlankInside    bool // blank line between fields
	Wide           bool // several spaces / tabs between tokens
	Mixed          int  // 1: array[T][] (outermost dimension postfix, the rest prefix); 2: array[T[]] (outermost prefix, the rest postfix)
}

var Layouts = []Layout{
	{Name: "canonical", Required: true, Indent: "    ", Blank: 1},
	{Name: "tabs", Required: true, Indent: "\t", Blank: 1},
	{Name: "no-blank-between", Required: true, Indent: "    ", Blank: 0},
	{Name: "two-blanks", Required: true, Indent: "  ", Blank: 2},
	{Name: "crlf", Required: true, Indent: "    ", Blank: 1, CRLF: true},
	{Name: "trailing-spaces", Required: true, Indent: "    ", Blank: 1, Trailing: true},
	{Name: "trailing-tabs", Required: true, Indent: "\t", Blank: 1, TrailingTab: true},
	{Name: "blank-inside", Required: true, Indent: "    ", Blank: 1, BlankInside: true},
	{Name: "postfix-arrays", Required: true, Indent: "    ", Blank: 1, Postfix: true},
	{Name: "no-final-newline", Required: true, Indent: "    ", Blank: 1, NoFinalNL: true},
	{Name: "one-line-bodies", Required: true, Indent: "    ", Blank: 1, OneLine: true},
	{Name: "wide", Required: true, Indent: "\t\t", Blank: 1, Wide: true},
	{Name: "attr-same-line", Indent: "    ", Blank: 1, AttrSameLine: true},
	{Name: "tight", Indent: "", Blank: 0, Tight: true},
	{Name: "crlf-tight-postfix", Indent: "\t", Blank: 0, Tight: true, CRLF: true, Postfix: true},
	{Name: "mixed-arrays-outer-postfix", Required: true, Indent: "    ", Blank: 1, Mixed: 1},
	{Name: "mixed-arrays-outer-prefix", Required: true, Indent: "    ", Blank: 1, Mixed: 2},
	{Name: "one-line-attr-same-line", Indent: "    ", Blank: 1, OneLine: true, AttrSameLine: true},
	{Name: "definitions-on-one-line", Indent: "    ", Blank: -1, OneLine: true, AttrSameLine: true},
	{Name: "blank-line-after-attribute", Indent: "    ", Blank: 1, BlankAfterAttr: true},
	{Name: "blank-line-after-attribute-crlf", Indent: "\t", Blank: 2, BlankAfterAttr: true, CRLF: true},
}

type renderer struct {
	l  Layout
	sb strings.Builder
}

func (r *renderer) sp() string {
	if r.l.Tight {
		return ""
	}
	if r.l.Wide {
		return "  \t "
	}
	return " "
}

// sep is a mandatory separator between two word tokens.
func (r *renderer) sep() string {
	if r.l.Wide {
		return " \t  "
	}
	return " "
}

func (r *renderer) nl() {
	if r.l.Trailing {
		r.sb.WriteString("  ")
	}
	if r.l.TrailingTab {
		r.sb.WriteString("\t")
	}
	if r.l.CRLF {
		r.sb.WriteString("\r\n")
	} else {
		r.sb.WriteString("\n")
	}
}

func (r *renderer) typ(t *T) string { return r.typAt(t, 0) }

func (r *renderer) typAt(t *T, arrayDepth int) string {
	switch t.K {
	case Array:
		postfix := r.l.Postfix
		switch r.l.Mixed {
		case 1:
			postfix = arrayDepth == 0
		case 2:
			postfix = arrayDepth > 0
		}
		if postfix {
			return r.typAt(t.Elem, arrayDepth+1) + "[]"
		}
		return "array[" + r.typAt(t.Elem, arrayDepth+1) + "]"
	case Map:
		return "map[" + t.Key + "," + r.sp() + r.typAt(t.Elem, 0) + "]"
	}
	return t.Name
}

func (r *renderer) doc(ind string, doc []string, block bool) {
	if len(doc) == 0 {
		return
	}
	if block && len(doc) == 1 {
		r.sb.WriteString(ind + "/*" + doc[0] + "*/")
		r.nl()
		return
	}
	for _, d := range doc {
		r.sb.WriteString(ind + "//" + d)
		// a line comment runs to the end of the line: no trailing spaces (they would become comment text)
		if r.l.CRLF {
			r.sb.WriteString("\r\n")
		} else {
			r.sb.WriteString("\n")
		}
	}
}

func (r *renderer) attr(ind, text string) {
	r.sb.WriteString(ind + text)
	if r.l.AttrSameLine {
		r.sb.WriteString(" ")
	} else {
		r.nl()
		if r.l.BlankAfterAttr {
			r.nl()
		}
	}
}

func (r *renderer) dep(ind string, d *string) {
	if d != nil {
		r.attr(ind, fmt.Sprintf("[deprecated(%q)]", *d))
	}
}

func (r *renderer) def(d *Def, ind string, inline bool) {
	l := r.l
	in := ind + l.Indent
	openBody := func() {
		r.sb.WriteString(r.sp() + "{")
		if l.OneLine {
			r.sb.WriteString(" ")
		} else {
			r.nl()
		}
	}
	endItem := func() {
		if l.OneLine {
			r.sb.WriteString(" ")
		} else {
			r.nl()
			if l.BlankInside {
				r.nl()
			}
		}
	}
	itemInd := in
	if l.OneLine {
		itemInd = ""
	}
	closeBody := func() {
		if l.OneLine {
			r.sb.WriteString("}")
		} else {
			r.sb.WriteString(ind + "}")
		}
	}
	if !inline {
		r.doc(ind, d.Doc, d.DocBlock)
	}
	switch d.Kind {
	case Import:
		r.sb.WriteString(fmt.Sprintf("import%s%q", r.sep(), d.Path))
	case Const:
		r.sb.WriteString("const" + r.sep() + d.CType + r.sep() + d.Name + r.sp() + "=" + r.sp() + d.CText + ";")
	case Enum:
		if d.Flags {
			r.attr(ind, "[flags]")
		}
		r.sb.WriteString(firstInd(ind, l, d.Flags) + "enum" + r.sep() + d.Name)
		if d.Base != "" {
			r.sb.WriteString(r.sp() + ":" + r.sp() + d.Base)
		}
		openBody()
		for _, m := range d.Members {
			if !l.OneLine {
				r.doc(in, m.Doc, false)
			}
			r.dep(itemInd, m.Dep)
			pre := itemInd
			if m.Dep != nil && l.AttrSameLine {
				pre = ""
			}
			r.sb.WriteString(pre + m.Name + r.sp() + "=" + r.sp() + m.Expr + ";")
			endItem()
		}
		closeBody()
	case Struct, Message:
		if d.OpCode != "" && !inline {
			r.attr(ind, "[opcode("+d.OpCode+")]")
		}
		kw := "struct"
		if d.Kind == Message {
			kw = "message"
		}
		if d.ReadOnly {
			kw = "readonly" + r.sep() + kw
		}
		first := ind
		if inline || (d.OpCode != "" && l.AttrSameLine) {
			first = ""
		}
		r.sb.WriteString(first + kw + r.sep() + d.Name)
		openBody()
		for _, f := range d.Fields {
			if !l.OneLine {
				r.doc(in, f.Doc, false)
				for _, tg := range f.Tags {
					if tg.Boolean {
						r.doc(in, []string{"[tag(" + tg.Key + ")]"}, false)
					} else {
						r.doc(in, []string{fmt.Sprintf("[tag(%s:%q)]", tg.Key, tg.Value)}, false)
					}
				}
			}
			r.dep(itemInd, f.Dep)
			pre := itemInd
			if f.Dep != nil && l.AttrSameLine {
				pre = ""
			}
			if d.Kind == Message {
				r.sb.WriteString(fmt.Sprintf("%s%d%s->%s%s%s%s;", pre, f.Index, r.sp(), r.sp(), r.typ(f.Type), r.sep(), f.Name))
			} else {
				r.sb.WriteString(pre + r.typ(f.Type) + r.sep() + f.Name + ";")
			}
			endItem()
		}
		closeBody()
	case Union:
		if d.OpCode != "" {
			r.attr(ind, "[opcode("+d.OpCode+")]")
		}
		first := ind
		if d.OpCode != "" && l.AttrSameLine {
			first = ""
		}
		r.sb.WriteString(first + "union" + r.sep() + d.Name)
		// union bodies are never collapsed onto one line (the repository's own schemas never do)
		r.sb.WriteString(r.sp() + "{")
		r.nl()
		for _, b := range d.Branches {
			r.doc(in, b.Doc, false)
			r.dep(in, b.Dep)
			pre := in
			if b.Dep != nil && l.AttrSameLine {
				pre = ""
			}
			r.sb.WriteString(fmt.Sprintf("%s%d%s->%s", pre, b.Disc, r.sp(), r.sp()))
			r.def(b.Rec, in, true)
			r.nl()
		}
		r.sb.WriteString(ind + "}")
	}
}

func firstInd(ind string, l Layout, hadAttr bool) string {
	if hadAttr && l.AttrSameLine {
		return ""
	}
	return ind
}

// Render writes the definitions under a layout.
func Render(defs []*Def, l Layout) string {
	r := &renderer{l: l}
	for i, d := range defs {
		r.def(d, "", false)
		last := i == len(defs)-1
		if last && l.NoFinalNL {
			break
		}
		if l.Blank < 0 && !last {
			// several definitions on one line (unions and doc comments still break the line where they must)
			r.sb.WriteString(" ")
			continue
		}
		r.nl()
		if !last {
			for k := 0; k < l.Blank; k++ {
				r.nl()
			}
		}
	}
	return r.sb.String()
}

// ---- expected File -----------------------------------------------------------------------------------

func ft(t *T) bebop.FieldType {
	switch t.K {
	case Array:
		e := ft(t.Elem)
		return bebop.FieldType{Array: &e}
	case Map:
		return bebop.FieldType{Map: &bebop.MapType{Key: t.Key, Value: ft(t.Elem)}}
	}
	return bebop.FieldType{Simple: t.Name}
}

func docText(doc []string) string { return strings.Join(doc, "\n") }

func fieldOf(f Field) bebop.Field {
	out := bebop.Field{FieldType: ft(f.Type), Name: f.Name}
	var lines []string
	lines = append(lines, f.Doc...)
	for _, tg := range f.Tags {
		if tg.Boolean {
			lines = append(lines, "[tag("+tg.Key+")]")
		} else {
			lines = append(lines, fmt.Sprintf("[tag(%s:%q)]", tg.Key, tg.Value))
		}
	}
	out.Comment = docText(lines)
	out.Tags = append(out.Tags, f.Tags...)
	if f.Dep != nil {
		out.Deprecated, out.DeprecatedMessage = true, *f.Dep
	}
	return out
}

func structOf(d *Def, comment string) bebop.Struct {
	st := bebop.Struct{Name: d.Name, Comment: comment, OpCode: d.OpVal, ReadOnly: d.ReadOnly}
	for _, f := range d.Fields {
		st.Fields = append(st.Fields, fieldOf(f))
	}
	return st
}

func messageOf(d *Def, comment string) bebop.Message {
	m := bebop.Message{Name: d.Name, Comment: comment, OpCode: d.OpVal, Fields: map[uint8]bebop.Field{}}
	for _, f := range d.Fields {
		m.Fields[uint8(f.Index)] = fieldOf(f)
	}
	return m
}

// Expect builds the File the text is supposed to denote. withDocs=false leaves every comment empty
// (used for layouts where comment attachment is not asserted).
func Expect(defs []*Def) bebop.File {
	var f bebop.File
	for _, d := range defs {
		c := docText(d.Doc)
		switch d.Kind {
		case Import:
			f.Imports = append(f.Imports, d.Path)
		case Const:
			f.Consts = append(f.Consts, bebop.Const{SimpleType: d.CType, Name: d.Name, Value: d.CValue, Comment: c})
			if d.Name == "go_package" && d.CType == "string" {
				f.GoPackage = strings.Trim(d.CText, "\"")
			}
		case Enum:
			e := bebop.Enum{Name: d.Name, Comment: c, SimpleType: "uint32"}
			if d.Base != "" {
				e.SimpleType = d.Base
			}
			e.Unsigned = !strings.HasPrefix(e.SimpleType, "int")
			for _, m := range d.Members {
				o := bebop.EnumOption{Name: m.Name, Comment: docText(m.Doc)}
				if e.Unsigned {
					o.UintValue = m.U
				} else {
					o.Value = m.S
				}
				if m.Dep != nil {
					o.Deprecated, o.DeprecatedMessage = true, *m.Dep
				}
				e.Options = append(e.Options, o)
			}
			f.Enums = append(f.Enums, e)
		case Struct:
			f.Structs = append(f.Structs, structOf(d, c))
		case Message:
			f.Messages = append(f.Messages, messageOf(d, c))
		case Union:
			u := bebop.Union{Name: d.Name, Comment: c, OpCode: d.OpVal, Fields: map[uint8]bebop.UnionField{}}
			for _, b := range d.Branches {
				uf := bebop.UnionField{}
				if b.Dep != nil {
					uf.Deprecated, uf.DeprecatedMessage = true, *b.Dep
				}
				bc := docText(b.Doc)
				if b.Rec.Kind == Struct {
					st := structOf(b.Rec, bc)
					uf.Struct = &st
				} else {
					m := messageOf(b.Rec, bc)
					uf.Message = &m
				}
				u.Fields[uint8(b.Disc)] = uf
			}
			f.Unions = append(f.Unions, u)
		}
	}
	return f
}

// ---- canonical printing of a File (nil ≡ empty, maps sorted) ---------------------------------------

type CanonOpt struct {
	NoComments bool // erase every Comment and Tags (tags come from comments)
}

func Canon(f bebop.File, o CanonOpt) string {
	var b strings.Builder
	cm := func(s string) string {
		if o.NoComments {
			return ""
		}
		return s
	}
	var ftS func(t bebop.FieldType) string
	ftS = func(t bebop.FieldType) string {
		switch {
		case t.Array != nil:
			return "array[" + ftS(*t.Array) + "]"
		case t.Map != nil:
			return "map[" + t.Map.Key + "," + ftS(t.Map.Value) + "]"
		}
		return t.Simple
	}
	field := func(fd bebop.Field) string {
		tags := ""
		if !o.NoComments {
			for _, t := range fd.Tags {
				tags += fmt.Sprintf("<%s=%q,%v>", t.Key, t.Value, t.Boolean)
			}
		}
		return fmt.Sprintf("{%s %s dep=%v:%q doc=%q tags=%s}", ftS(fd.FieldType), fd.Name, fd.Deprecated, fd.DeprecatedMessage, cm(fd.Comment), tags)
	}
	st := func(s bebop.Struct) string {
		out := fmt.Sprintf("struct %s ro=%v op=%#x ns=%q doc=%q [", s.Name, s.ReadOnly, s.OpCode, s.Namespace, cm(s.Comment))
		for _, fd := range s.Fields {
			out += field(fd)
		}
		return out + "]"
	}
	msg := func(m bebop.Message) string {
		out := fmt.Sprintf("message %s op=%#x ns=%q doc=%q [", m.Name, m.OpCode, m.Namespace, cm(m.Comment))
		var ks []int
		for k := range m.Fields {
			ks = append(ks, int(k))
		}
		sort.Ints(ks)
		for _, k := range ks {
			out += fmt.Sprintf("%d->%s", k, field(m.Fields[uint8(k)]))
		}
		return out + "]"
	}
	fmt.Fprintf(&b, "gopackage=%q\n", f.GoPackage)
	for _, i := range f.Imports {
		fmt.Fprintf(&b, "import %q\n", i)
	}
	for _, c := range f.Consts {
		fmt.Fprintf(&b, "const %s %s = %s doc=%q\n", c.SimpleType, c.Name, c.Value, cm(c.Comment))
	}
	for _, e := range f.Enums {
		fmt.Fprintf(&b, "enum %s base=%s unsigned=%v ns=%q doc=%q [", e.Name, e.SimpleType, e.Unsigned, e.Namespace, cm(e.Comment))
		for _, op := range e.Options {
			fmt.Fprintf(&b, "{%s s=%d u=%d dep=%v:%q doc=%q}", op.Name, op.Value, op.UintValue, op.Deprecated, op.DeprecatedMessage, cm(op.Comment))
		}
		b.WriteString("]\n")
	}
	for _, s := range f.Structs {
		b.WriteString(st(s) + "\n")
	}
	for _, m := range f.Messages {
		b.WriteString(msg(m) + "\n")
	}
	for _, u := range f.Unions {
		fmt.Fprintf(&b, "union %s op=%#x ns=%q doc=%q [", u.Name, u.OpCode, u.Namespace, cm(u.Comment))
		var ks []int
		for k := range u.Fields {
			ks = append(ks, int(k))
		}
		sort.Ints(ks)
		for _, k := range ks {
			uf := u.Fields[uint8(k)]
			tags := ""
			if !o.NoComments {
				for _, t := range uf.Tags {
					tags += fmt.Sprintf("<%s=%q,%v>", t.Key, t.Value, t.Boolean)
				}
			}
			fmt.Fprintf(&b, "%d->dep=%v:%q tags=%s ", k, uf.Deprecated, uf.DeprecatedMessage, tags)
			if uf.Struct != nil {
				b.WriteString(st(*uf.Struct))
			}
			if uf.Message != nil {
				b.WriteString(msg(*uf.Message))
			}
			b.WriteString(";")
		}
		b.WriteString("]\n")
	}
	return b.String()
}

// Entries splits a canonical File rendering into its per-definition lines (context-independence oracle).
func Entries(canon string) []string {
	var out []string
	for _, l := range strings.Split(strings.TrimSpace(canon), "\n") {
		if l != "" && !strings.HasPrefix(l, "gopackage=") {
			out = append(out, l)
		}
	}
	sort.Strings(out)
	return out
}
