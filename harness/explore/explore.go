// Package explore is the deviation-bounded depth-first explorer over environment choice points.
// Option 0 at every point is the default answer; a non-zero choice is one deviation. All executions
// with at most `bound` deviations are run to completion, fewest deviations first per subtree.
package explore

import "fmt"

// Exec is one execution: it replays a prefix of choices and then takes the default everywhere.
type Exec struct {
	prefix   []int
	palts    []int
	Choices  []int
	Alts     []int
	Diverged string
}

// Choose is called by the environment at each choice point with the number of options.
func (x *Exec) Choose(n int) int {
	i := len(x.Choices)
	c := 0
	if i < len(x.prefix) {
		c = x.prefix[i]
		if x.palts[i] != n || c >= n {
			x.Diverged = fmt.Sprintf("replay diverged at point %d: %d options, recorded %d (choice %d)", i, n, x.palts[i], c)
			c = 0
		}
	}
	x.Choices = append(x.Choices, c)
	x.Alts = append(x.Alts, n)
	return c
}

func (x *Exec) Deviations() int {
	d := 0
	for _, c := range x.Choices {
		if c != 0 {
			d++
		}
	}
	return d
}

type Stats struct {
	Executions  int
	Points      int // choice points visited (states)
	Transitions int // choices taken
	MaxDev      int
	Capped      bool
}

// Run explores all executions with at most bound deviations. body runs one execution and returns
// false to stop the whole exploration (e.g. a violation was found and recorded).
func Run(bound int, maxExec int, body func(x *Exec) bool) (st Stats, err error) {
	var rec func(prefix, palts []int) bool
	rec = func(prefix, palts []int) bool {
		if maxExec > 0 && st.Executions >= maxExec {
			st.Capped = true
			return false
		}
		x := &Exec{prefix: prefix, palts: palts}
		cont := body(x)
		st.Executions++
		st.Points += len(x.Choices) - len(prefix)
		st.Transitions += len(x.Choices)
		if x.Diverged != "" {
			err = fmt.Errorf("%s", x.Diverged)
			return false
		}
		if d := x.Deviations(); d > st.MaxDev {
			st.MaxDev = d
		}
		if !cont {
			return false
		}
		dev := 0
		for i := 0; i < len(prefix); i++ {
			if prefix[i] != 0 {
				dev++
			}
		}
		for i := len(prefix); i < len(x.Choices); i++ {
			if dev+1 > bound {
				break
			}
			for alt := 1; alt < x.Alts[i]; alt++ {
				np := append(append([]int{}, x.Choices[:i]...), alt)
				na := append(append([]int{}, x.Alts[:i]...), x.Alts[i])
				if !rec(np, na) {
					return false
				}
			}
		}
		return true
	}
	rec(nil, nil)
	return st, err
}
