// Package driver moves reference values in and out of generated record types by reflection and
// wraps the bebop.Record operations with panic / allocation / read-budget guards.
package driver

import (
	"fmt"
	"reflect"
	"sort"
	"strings"
	"time"
	"unsafe"

	"verif/refcodec"
	"verif/schema"
)

// settable returns a settable view of a (possibly unexported) struct field.
func settable(f reflect.Value) reflect.Value {
	if f.CanSet() {
		return f
	}
	return reflect.NewAt(f.Type(), unsafe.Pointer(f.UnsafeAddr())).Elem()
}

func sortedFields(r *schema.Record) []int {
	idx := make([]int, len(r.Fields))
	for i := range idx {
		idx[i] = i
	}
	if r.Kind == schema.Message {
		sort.SliceStable(idx, func(a, b int) bool { return r.Fields[idx[a]].Index < r.Fields[idx[b]].Index })
	}
	return idx
}

func sortedBranches(r *schema.Record) []int {
	idx := make([]int, len(r.Branches))
	for i := range idx {
		idx[i] = i
	}
	sort.SliceStable(idx, func(a, b int) bool { return r.Branches[idx[a]].Disc < r.Branches[idx[b]].Disc })
	return idx
}

// goFieldOrder maps the positions of sortedFields / sortedBranches to Go struct field indices. Fields are matched by
// name (case-insensitively: the generator only changes the first letter) so that the order in which the generator
// happens to declare them does not matter; if the names do not line up one to one the order is positional.
func goFieldOrder(t reflect.Type, names []string) []int {
	out := make([]int, len(names))
	used := map[int]bool{}
	for i, n := range names {
		out[i] = -1
		for gi := 0; gi < t.NumField(); gi++ {
			if !used[gi] && strings.EqualFold(t.Field(gi).Name, n) {
				out[i] = gi
				used[gi] = true
				break
			}
		}
		if out[i] < 0 {
			for j := range out {
				out[j] = j
			}
			return out
		}
	}
	return out
}

func messageOrder(t reflect.Type, r *schema.Record) (schemaIdx, goIdx []int) {
	schemaIdx = sortedFields(r)
	names := make([]string, len(schemaIdx))
	for i, si := range schemaIdx {
		names[i] = r.Fields[si].Name
	}
	return schemaIdx, goFieldOrder(t, names)
}

func unionOrder(t reflect.Type, r *schema.Record) (schemaIdx, goIdx []int) {
	schemaIdx = sortedBranches(r)
	names := make([]string, len(schemaIdx))
	for i, bi := range schemaIdx {
		names[i] = r.Branches[bi].Rec.Name
	}
	return schemaIdx, goFieldOrder(t, names)
}

type mismatch struct{ msg string }

func (m mismatch) Error() string { return "driver: schema/Go type mismatch: " + m.msg }

func fail(format string, a ...any) { panic(mismatch{fmt.Sprintf(format, a...)}) }

// InjectRec writes rv into the Go struct value sv (addressable struct).
func InjectRec(sv reflect.Value, rv *refcodec.RecValue) (err error) {
	defer func() {
		if r := recover(); r != nil {
			if m, ok := r.(mismatch); ok {
				err = m
				return
			}
			panic(r)
		}
	}()
	injectRec(sv, rv)
	return nil
}

func injectRec(sv reflect.Value, rv *refcodec.RecValue) {
	r := rv.R
	if sv.Kind() != reflect.Struct {
		fail("record %s maps to Go kind %v", r.Name, sv.Kind())
	}
	switch r.Kind {
	case schema.Struct:
		if sv.NumField() != len(r.Fields) {
			fail("struct %s has %d Go fields, schema has %d", r.Name, sv.NumField(), len(r.Fields))
		}
		for i := range r.Fields {
			inject(settable(sv.Field(i)), rv.Fields[i])
		}
	case schema.Message:
		idx := sortedFields(r)
		if sv.NumField() != len(idx) {
			fail("message %s has %d Go fields, schema has %d", r.Name, sv.NumField(), len(idx))
		}
		_, gord := messageOrder(sv.Type(), r)
		for k, si := range idx {
			gi := gord[k]
			f := settable(sv.Field(gi))
			if f.Kind() != reflect.Ptr {
				fail("message %s field %d is not a pointer", r.Name, gi)
			}
			if rv.Fields[si] == nil {
				f.Set(reflect.Zero(f.Type()))
				continue
			}
			p := reflect.New(f.Type().Elem())
			inject(p.Elem(), rv.Fields[si])
			f.Set(p)
		}
	case schema.Union:
		idx := sortedBranches(r)
		if sv.NumField() != len(idx) {
			fail("union %s has %d Go fields, schema has %d branches", r.Name, sv.NumField(), len(idx))
		}
		_, gord := unionOrder(sv.Type(), r)
		for k, bi := range idx {
			gi := gord[k]
			f := settable(sv.Field(gi))
			if f.Kind() != reflect.Ptr {
				fail("union %s field %d is not a pointer", r.Name, gi)
			}
			if bi != rv.Branch {
				f.Set(reflect.Zero(f.Type()))
				continue
			}
			p := reflect.New(f.Type().Elem())
			injectRec(p.Elem(), rv.Inner)
			f.Set(p)
		}
	}
}

var timeType = reflect.TypeOf(time.Time{})

// TimeOf builds the time.Time a date value is injected as.
func TimeOf(v *refcodec.Value) time.Time {
	if v.Ticks == 0 && v.DateV == 0 {
		return time.Time{}
	}
	switch v.DateV {
	case 1:
		return time.Unix(0, v.Ticks*100).In(time.FixedZone("X", 5*3600+1800))
	case 2:
		return time.Unix(0, v.Ticks*100+55).UTC()
	case 3:
		return time.Unix(0, v.Ticks*100-45).UTC()
	}
	return time.Unix(0, v.Ticks*100).UTC()
}

func inject(f reflect.Value, v *refcodec.Value) {
	t := v.T
	switch t.Kind {
	case schema.Prim, schema.EnumT:
		name := t.Name
		if t.Kind == schema.EnumT {
			name = t.Enum.BaseType()
		}
		switch name {
		case "bool":
			f.SetBool(v.Bits == 1)
		case "byte", "uint8", "uint16", "uint32", "uint64":
			if f.Kind() < reflect.Uint || f.Kind() > reflect.Uint64 {
				fail("%s maps to Go kind %v", name, f.Kind())
			}
			f.SetUint(v.Bits)
		case "int16":
			f.SetInt(int64(int16(v.Bits)))
		case "int32":
			f.SetInt(int64(int32(v.Bits)))
		case "int64":
			f.SetInt(int64(v.Bits))
		case "float32":
			if f.Kind() != reflect.Float32 {
				fail("float32 maps to %v", f.Kind())
			}
			*(*uint32)(unsafe.Pointer(f.UnsafeAddr())) = uint32(v.Bits)
		case "float64":
			if f.Kind() != reflect.Float64 {
				fail("float64 maps to %v", f.Kind())
			}
			*(*uint64)(unsafe.Pointer(f.UnsafeAddr())) = v.Bits
		case "string":
			f.SetString(v.Str)
		case "guid":
			if f.Kind() != reflect.Array || f.Len() != 16 {
				fail("guid maps to %v", f.Type())
			}
			for i := 0; i < 16; i++ {
				f.Index(i).SetUint(uint64(v.Guid[i]))
			}
		case "date":
			if f.Type() != timeType {
				fail("date maps to %v", f.Type())
			}
			f.Set(reflect.ValueOf(TimeOf(v)))
		default:
			fail("unknown primitive %s", name)
		}
	case schema.ArrayT:
		if f.Kind() != reflect.Slice {
			fail("array maps to %v", f.Kind())
		}
		if v.NilC {
			f.Set(reflect.Zero(f.Type()))
			return
		}
		s := reflect.MakeSlice(f.Type(), len(v.Elems), len(v.Elems))
		for i, e := range v.Elems {
			inject(s.Index(i), e)
		}
		f.Set(s)
	case schema.MapT:
		if f.Kind() != reflect.Map {
			fail("map maps to %v", f.Kind())
		}
		if v.NilC {
			f.Set(reflect.Zero(f.Type()))
			return
		}
		m := reflect.MakeMapWithSize(f.Type(), 0)
		for i := range v.Keys {
			k := reflect.New(f.Type().Key()).Elem()
			inject(k, v.Keys[i])
			e := reflect.New(f.Type().Elem()).Elem()
			inject(e, v.Vals[i])
			m.SetMapIndex(k, e)
		}
		if m.Len() != len(v.Keys) {
			fail("map keys collided: %d entries from %d keys", m.Len(), len(v.Keys))
		}
		f.Set(m)
	case schema.RecT:
		injectRec(f, v.Rec)
	}
}

// ExtractRec reads the Go struct value back into the reference model.
func ExtractRec(sv reflect.Value, r *schema.Record) (rv *refcodec.RecValue, err error) {
	defer func() {
		if x := recover(); x != nil {
			if m, ok := x.(mismatch); ok {
				err = m
				return
			}
			panic(x)
		}
	}()
	return extractRec(sv, r), nil
}

func extractRec(sv reflect.Value, r *schema.Record) *refcodec.RecValue {
	rv := &refcodec.RecValue{R: r, Branch: -1}
	switch r.Kind {
	case schema.Struct:
		rv.Fields = make([]*refcodec.Value, len(r.Fields))
		for i, fd := range r.Fields {
			rv.Fields[i] = extract(settable(sv.Field(i)), fd.Type)
		}
	case schema.Message:
		rv.Fields = make([]*refcodec.Value, len(r.Fields))
		sidx, gord := messageOrder(sv.Type(), r)
		for k, si := range sidx {
			f := sv.Field(gord[k])
			if f.IsNil() {
				continue
			}
			rv.Fields[si] = extract(settable(f).Elem(), r.Fields[si].Type)
		}
	case schema.Union:
		n := 0
		bidx, gord := unionOrder(sv.Type(), r)
		for k, bi := range bidx {
			f := sv.Field(gord[k])
			if f.IsNil() {
				continue
			}
			n++
			if rv.Branch == -1 {
				rv.Branch = bi
				rv.Inner = extractRec(settable(f).Elem(), r.Branches[bi].Rec)
			}
		}
		if n > 1 {
			rv.Branch = -2 // more than one member set
		}
	}
	return rv
}

func extract(f reflect.Value, t *schema.Type) *refcodec.Value {
	v := &refcodec.Value{T: t}
	switch t.Kind {
	case schema.Prim, schema.EnumT:
		name := t.Name
		if t.Kind == schema.EnumT {
			name = t.Enum.BaseType()
		}
		switch name {
		case "bool":
			if f.Bool() {
				v.Bits = 1
			}
		case "byte", "uint8", "uint16", "uint32", "uint64":
			v.Bits = f.Uint()
		case "int16":
			v.Bits = uint64(uint16(f.Int()))
		case "int32":
			v.Bits = uint64(uint32(f.Int()))
		case "int64":
			v.Bits = uint64(f.Int())
		case "float32":
			v.Bits = uint64(*(*uint32)(unsafe.Pointer(f.UnsafeAddr())))
		case "float64":
			v.Bits = *(*uint64)(unsafe.Pointer(f.UnsafeAddr()))
		case "string":
			v.Str = string([]byte(f.String())) // copy: shared-memory strings alias the input buffer
		case "guid":
			for i := 0; i < 16; i++ {
				v.Guid[i] = byte(f.Index(i).Uint())
			}
		case "date":
			tm := f.Interface().(time.Time)
			if tm.IsZero() {
				v.Ticks = 0
			} else {
				v.Ticks = tm.UnixNano() / 100
				if tm.UnixNano()%100 != 0 {
					v.DateV = 2                          // decoded dates must sit on the 100ns grid
					v.Ticks = tm.UnixNano()/100 ^ 0x5555 // poison: never equal to an expected value
				}
				if tm.Location() != time.UTC {
					v.Ticks ^= 0x3333 // decoded dates must be UTC
				}
			}
		}
	case schema.ArrayT:
		for i := 0; i < f.Len(); i++ {
			v.Elems = append(v.Elems, extract(f.Index(i), t.Elem))
		}
	case schema.MapT:
		it := f.MapRange()
		for it.Next() {
			k := reflect.New(f.Type().Key()).Elem()
			k.Set(it.Key())
			e := reflect.New(f.Type().Elem()).Elem()
			e.Set(it.Value())
			v.Keys = append(v.Keys, extract(k, schema.P(t.Key)))
			v.Vals = append(v.Vals, extract(e, t.Elem))
		}
	case schema.RecT:
		v.Rec = extractRec(f, t.Rec)
	}
	return v
}
