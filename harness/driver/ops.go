package driver

import (
	"errors"
	"fmt"
	"io"
	"reflect"
	"regexp"
	"runtime"
	"runtime/debug"
	"runtime/metrics"
	"strings"

	"github.com/200sc/bebop"
	"verif/refcodec"
	"verif/schema"
)

// Bound is a case bound to its generated Go type under one option set.
type Bound struct {
	Case   *schema.Case
	Opt    int // option-set bitmask, see OptName
	New    func() bebop.Record
	GoName string
}

const (
	OptPtr     = 1 << iota // AlwaysUsePointerReceivers
	OptPrivate             // PrivateDefinitions
	OptTags                // GenerateFieldTags
	OptUnsafe              // GenerateUnsafeMethods
	OptShared              // SharedMemoryStrings
)

func OptName(o int) string {
	if o == 0 {
		return "none"
	}
	var p []string
	for i, n := range []string{"ptr", "private", "tags", "unsafe", "shared"} {
		if o&(1<<i) != 0 {
			p = append(p, n)
		}
	}
	return strings.Join(p, "+")
}

func Settings(o int) bebop.GenerateSettings {
	return bebop.GenerateSettings{
		AlwaysUsePointerReceivers: o&OptPtr != 0,
		PrivateDefinitions:        o&OptPrivate != 0,
		GenerateFieldTags:         o&OptTags != 0,
		GenerateUnsafeMethods:     o&OptUnsafe != 0,
		SharedMemoryStrings:       o&OptShared != 0,
	}
}

// Fresh returns a new record holding rv.
func (b *Bound) Fresh(rv *refcodec.RecValue) (bebop.Record, error) {
	rec := b.New()
	if err := InjectRec(reflect.ValueOf(rec).Elem(), rv); err != nil {
		return nil, err
	}
	return rec, nil
}

// Extract reads a record back.
func (b *Bound) Extract(rec bebop.Record) (*refcodec.RecValue, error) {
	return ExtractRec(reflect.ValueOf(rec).Elem(), b.Case.Rec)
}

// Outcome of one guarded call.
type Outcome struct {
	Err       error
	Panicked  bool
	PanicMsg  string
	PanicKind string // class of the panic (index, slice-bounds, nil-deref, makeslice, runaway, oom, other)
	Site      string // function name of the innermost generated/iohelp frame
	Alloc     uint64 // bytes allocated during the call (single-goroutine workers only)
}

var allocSample = []metrics.Sample{{Name: "/gc/heap/allocs:bytes"}}

func allocated() uint64 {
	metrics.Read(allocSample)
	return allocSample[0].Value.Uint64()
}

// Runaway is the sentinel a harness reader panics with when the decoder keeps reading after EOF.
type Runaway struct{ Reads int }

var frameRe = regexp.MustCompile(`(?m)^(\S+)\(.*\)\n\t\S+:\d+`)

func classify(r any, stack string) (kind, site string) {
	msg := fmt.Sprint(r)
	switch {
	case strings.Contains(msg, "index out of range"):
		kind = "index"
	case strings.Contains(msg, "slice bounds out of range"):
		kind = "slice-bounds"
	case strings.Contains(msg, "nil pointer"):
		kind = "nil-deref"
	case strings.Contains(msg, "makeslice") || strings.Contains(msg, "len out of range") || strings.Contains(msg, "makemap"):
		kind = "makeslice"
	case strings.Contains(msg, "out of memory"):
		kind = "oom"
	default:
		kind = "other"
	}
	if _, ok := r.(Runaway); ok {
		kind = "runaway"
	}
	// innermost frame that is generated code or iohelp
	for _, m := range frameRe.FindAllStringSubmatch(stack, -1) {
		fn := m[1]
		if strings.HasPrefix(fn, "runtime.") || strings.HasPrefix(fn, "runtime/") || strings.HasPrefix(fn, "panic") || strings.Contains(fn, "verif/") {
			continue
		}
		// strip package path and receiver type names: keep only the method name
		if i := strings.LastIndex(fn, "."); i >= 0 {
			site = fn[i+1:]
		} else {
			site = fn
		}
		if strings.Contains(fn, "iohelp.") {
			site = "iohelp." + site
		}
		break
	}
	return
}

// Guard runs f, recovering panics and measuring allocation.
func Guard(f func() error) (o Outcome) {
	a0 := allocated()
	defer func() {
		r := recover()
		o.Alloc = allocated() - a0
		if r != nil {
			o.Panicked = true
			o.PanicMsg = fmt.Sprint(r)
			o.PanicKind, o.Site = classify(r, string(debug.Stack()))
		}
	}()
	o.Err = f()
	return
}

// PreciseAlloc re-runs f bracketed by runtime.ReadMemStats (exact TotalAlloc, expensive). The cheap
// counter used by Guard is only flushed per span, so it serves as a filter: a verdict about
// allocation is always taken from this function.
func PreciseAlloc(f func()) uint64 {
	var m0, m1 runtime.MemStats
	runtime.GC()
	runtime.ReadMemStats(&m0)
	func() {
		defer func() { recover() }()
		f()
	}()
	runtime.ReadMemStats(&m1)
	return m1.TotalAlloc - m0.TotalAlloc
}

// MustUnmarshal calls MustUnmarshalBebop when the type has it.
func MustUnmarshal(rec bebop.Record, buf []byte) (has bool) {
	m := reflect.ValueOf(rec).MethodByName("MustUnmarshalBebop")
	if !m.IsValid() {
		return false
	}
	m.Call([]reflect.Value{reflect.ValueOf(buf)})
	return true
}

func HasMust(rec bebop.Record) bool {
	return reflect.ValueOf(rec).MethodByName("MustUnmarshalBebop").IsValid()
}

// ---- harness-owned readers and writers -----------------------------------------------------

// ChunkReader serves data according to a schedule of choices; it is the environment of DecodeBebop.
// Each Read(p) with data available is a choice point. Options (only those that differ from the
// default are offered): OptFull = everything available up to len(p) (default); OptOne = one byte;
// OptHalf = half (rounded up); OptZero = (0, nil) "no progress" (at most twice in a row);
// OptWithEOF = the final bytes together with the final error.
type ChunkReader struct {
	Data      []byte
	Pos       int
	Choose    func(opts []int) int // returns an index into opts; nil = always default
	zeros     int
	Calls     int
	EOFReads  int
	FinalErr  error // error returned at end of data (default io.EOF)
	FailAt    int   // if >=0: byte offset at which FailErr is returned instead of data
	FailErr   error
	FailStyle int  // 0: (0,err) once the offset is reached; 1: deliver the bytes before the offset together with err
	Faulted   bool // the failure was actually delivered
	Transient bool // the failure is delivered once; afterwards the data continues where it stopped
	Budget    int
	MaxPos    int
}

const (
	OptFull = iota
	OptOne
	OptHalf
	OptZero
	OptWithEOF
)

func NewChunkReader(data []byte) *ChunkReader {
	return &ChunkReader{Data: data, FailAt: -1, FinalErr: io.EOF, Budget: 1000 + 10*len(data)}
}

func (c *ChunkReader) Read(p []byte) (int, error) {
	c.Calls++
	if len(p) == 0 {
		return 0, nil
	}
	limit := len(c.Data)
	failing := c.FailAt >= 0 && c.FailAt <= limit && !(c.Transient && c.Faulted)
	if failing {
		limit = c.FailAt
	}
	avail := limit - c.Pos
	if avail <= 0 {
		c.EOFReads++
		if c.EOFReads > c.Budget {
			panic(Runaway{c.EOFReads})
		}
		if failing {
			c.Faulted = true
			return 0, c.FailErr
		}
		return 0, c.FinalErr
	}
	n := avail
	if n > len(p) {
		n = len(p)
	}
	opts := []int{OptFull}
	if n > 1 {
		opts = append(opts, OptOne)
	}
	if n > 2 {
		opts = append(opts, OptHalf)
	}
	if c.zeros < 2 {
		opts = append(opts, OptZero)
	}
	if avail <= len(p) && !failing {
		opts = append(opts, OptWithEOF)
	}
	ch := OptFull
	if c.Choose != nil {
		ch = opts[c.Choose(opts)]
	}
	withErr := false
	switch ch {
	case OptOne:
		n = 1
	case OptHalf:
		n = (n + 1) / 2
	case OptZero:
		c.zeros++
		return 0, nil
	case OptWithEOF:
		withErr = true
	}
	c.zeros = 0
	copy(p, c.Data[c.Pos:c.Pos+n])
	c.Pos += n
	if c.Pos > c.MaxPos {
		c.MaxPos = c.Pos
	}
	if failing && c.FailStyle == 1 && c.Pos >= limit {
		c.Faulted = true
		return n, c.FailErr
	}
	if withErr && c.Pos >= len(c.Data) {
		return n, c.FinalErr
	}
	return n, nil
}

// ByteChunkReader is a ChunkReader that also offers io.ByteReader, as bytes.Reader, bytes.Buffer and bufio.Reader do:
// a decoder that probes its reader for the optional interface takes a different path through the same schedule.
type ByteChunkReader struct{ *ChunkReader }

func (b ByteChunkReader) ReadByte() (byte, error) {
	var p [1]byte
	for i := 0; i < 4; i++ {
		n, err := b.ChunkReader.Read(p[:])
		if n == 1 {
			if err != nil {
				// io.ByteReader cannot return a byte together with an error: the error comes with the next call
				b.ChunkReader.Faulted = false
			}
			return p[0], nil
		}
		if err != nil {
			return 0, err
		}
	}
	return 0, io.ErrNoProgress
}

// RichFaultWriter is a FaultWriter that also offers io.ByteWriter and io.StringWriter (as bytes.Buffer and
// bufio.Writer do); each such call counts as one Write call of the fault schedule.
type RichFaultWriter struct{ *FaultWriter }

func (w RichFaultWriter) WriteByte(c byte) error {
	_, err := w.FaultWriter.Write([]byte{c})
	return err
}

func (w RichFaultWriter) WriteString(s string) (int, error) { return w.FaultWriter.Write([]byte(s)) }

// FaultWriter fails at a chosen Write call.
type FaultWriter struct {
	Buf     []byte
	Calls   int
	FailAt  map[int]int // call index (1-based) -> style: 1 = (0,err), 2 = (n/2, err)
	Sticky  bool
	tripped bool
	Err     error
}

var ErrInjected = errors.New("injected I/O failure")

func (w *FaultWriter) Write(p []byte) (int, error) {
	w.Calls++
	if w.Calls > 1<<22 {
		panic(Runaway{w.Calls})
	}
	style := w.FailAt[w.Calls]
	if w.Sticky && w.tripped {
		style = 1
	}
	switch style {
	case 1:
		w.tripped = true
		return 0, w.Err
	case 2:
		w.tripped = true
		n := len(p) / 2
		w.Buf = append(w.Buf, p[:n]...)
		return n, w.Err
	}
	w.Buf = append(w.Buf, p...)
	return len(p), nil
}

// SingleThreaded pins the worker to one OS thread of execution so allocation deltas are attributable.
func SingleThreaded() { runtime.GOMAXPROCS(1) }
