// Package sched is a controlled cooperative scheduler for stateless model checking of the
// code under test. The code under test is rewritten at build time (see verif/overlay, YieldSeam)
// so that it calls Yield/YieldL before every statement that may touch memory; while an execution
// is running exactly one logical thread is runnable and every Yield is a scheduling point.
//
// Outside an exploration (the normal case, and always in binaries built without the yield
// overlay) Yield is one atomic load.
//
// The explorer is a deviation-bounded depth-first search: an execution replays a prefix of
// choices and then takes choice 0 ("keep running the current thread") at every later choice
// point. A non-zero choice taken while the current thread is still enabled is a preemption;
// the search enumerates every schedule with at most Bound preemptions. Choices at the start
// of the execution and when a thread finishes are free.
package sched

import (
	"fmt"
	"sync/atomic"
	"time"
)

var (
	active  atomic.Bool // an execution is running: S sites are scheduling points
	activeL atomic.Bool // ... and L sites too
	cur     *exec       // the running execution; only touched by the one runnable goroutine
)

// Yield is inserted before statements that may touch memory that can be shared between two
// calls (class S sites).
func Yield(site int) {
	if !active.Load() {
		return
	}
	cur.yield(int32(site))
}

// YieldL is inserted before statements that touch heap memory whose type is not reachable from any
// shared root (class L sites). They are scheduling points only when Config.LSites is set.
func YieldL(site int) {
	if !activeL.Load() {
		return
	}
	cur.yield(int32(site))
}

// Special site numbers of choice points that are not yields.
const (
	SiteStart     = -1 // which thread runs first
	SiteThreadEnd = -2 // a thread finished, which one continues
)

// Choice is one visited choice point.
type Choice struct {
	N    int8  // number of options (>= 2)
	C    int8  // option taken; 0 = keep the current thread (or lowest-numbered thread at free points)
	T    int8  // thread that was running (-1 at start)
	Pre  bool  // a non-zero choice here is a preemption
	Site int32 // yield site, SiteStart or SiteThreadEnd
}

// Step is one executed yield.
type Step struct {
	T    int8
	Site int32
}

// Result describes one execution.
type Result struct {
	Trace       []Choice
	Steps       []Step // only if Config.RecordSteps
	NSteps      int
	StepHash    uint64 // FNV-1a over the (thread, site) sequence of every executed yield
	Preemptions int
	Panics      []string // per thread, "" if none
	Broken      string   // non-empty: the execution could not follow the requested prefix (harness error)
}

type exec struct {
	n         int
	prefix    []int8
	expect    []Choice
	record    bool
	stepLimit int

	running  int
	finished []bool
	wake     []chan struct{}
	done     chan struct{}
	res      *Result
}

const fnvOff, fnvPrime = 14695981039346656037, 1099511628211

func (e *exec) choose(n int, t int, site int32, pre bool) int {
	idx := len(e.res.Trace)
	c := 0
	if idx < len(e.prefix) && e.res.Broken == "" {
		c = int(e.prefix[idx])
		if idx < len(e.expect) {
			x := e.expect[idx]
			if int(x.N) != n || int(x.T) != t || x.Site != site {
				e.res.Broken = fmt.Sprintf("replay diverged at choice point %d: expected thread %d site %d with %d options, got thread %d site %d with %d options",
					idx, x.T, x.Site, x.N, t, site, n)
				c = 0
			}
		}
		if c >= n {
			e.res.Broken = fmt.Sprintf("replay diverged at choice point %d: choice %d of %d options", idx, c, n)
			c = 0
		}
	}
	e.res.Trace = append(e.res.Trace, Choice{N: int8(n), C: int8(c), T: int8(t), Pre: pre, Site: site})
	return c
}

// other returns the c-th (1-based) unfinished thread other than t, in index order.
func (e *exec) other(t, c int) int {
	for i := 0; i < e.n; i++ {
		if i == t || e.finished[i] {
			continue
		}
		c--
		if c == 0 {
			return i
		}
	}
	panic("sched: no such thread")
}

func (e *exec) yield(site int32) {
	t := e.running
	r := e.res
	r.NSteps++
	r.StepHash = (r.StepHash ^ uint64(uint32(site))) * fnvPrime
	r.StepHash = (r.StepHash ^ uint64(t+1)) * fnvPrime
	if e.record {
		r.Steps = append(r.Steps, Step{T: int8(t), Site: site})
	}
	if r.NSteps > e.stepLimit {
		if r.Broken == "" {
			r.Broken = fmt.Sprintf("step limit %d exceeded", e.stepLimit)
		}
		return
	}
	others := 0
	for i := 0; i < e.n; i++ {
		if i != t && !e.finished[i] {
			others++
		}
	}
	if others == 0 {
		return
	}
	c := e.choose(1+others, t, site, true)
	if c == 0 {
		return
	}
	r.Preemptions++
	next := e.other(t, c)
	e.running = next
	e.wake[next] <- struct{}{}
	<-e.wake[t]
}

func (e *exec) thread(i int, body func()) {
	<-e.wake[i]
	func() {
		defer func() {
			if p := recover(); p != nil {
				e.res.Panics[i] = fmt.Sprint(p)
			}
		}()
		body()
	}()
	e.finished[i] = true
	rem := 0
	for j := 0; j < e.n; j++ {
		if !e.finished[j] {
			rem++
		}
	}
	if rem == 0 {
		close(e.done)
		return
	}
	c := 0
	if rem > 1 {
		c = e.choose(rem, i, SiteThreadEnd, false)
	}
	next := e.other(i, c+1)
	e.running = next
	e.wake[next] <- struct{}{}
}

// Config describes one execution.
type Config struct {
	Prefix      []int8   // choices to replay; afterwards choice 0 everywhere
	Expect      []Choice // optional: what the choice points of the prefix must look like
	LSites      bool     // class L sites are scheduling points too
	RecordSteps bool
	StepLimit   int           // default 50e6
	Timeout     time.Duration // watchdog for a hung execution (default 60s); the process is lost if it fires
}

// Execute runs the bodies as logical threads under one schedule.
func Execute(bodies []func(), cfg Config) *Result {
	n := len(bodies)
	e := &exec{n: n, prefix: cfg.Prefix, expect: cfg.Expect, record: cfg.RecordSteps, stepLimit: cfg.StepLimit,
		finished: make([]bool, n), wake: make([]chan struct{}, n), done: make(chan struct{}),
		res: &Result{StepHash: fnvOff, Panics: make([]string, n)}}
	if e.stepLimit == 0 {
		e.stepLimit = 50_000_000
	}
	for i := range e.wake {
		e.wake[i] = make(chan struct{}, 1)
	}
	cur = e
	for i, b := range bodies {
		go e.thread(i, b)
	}
	first := 0
	if n > 1 {
		first = e.choose(n, -1, SiteStart, false)
	}
	e.running = first
	activeL.Store(cfg.LSites)
	active.Store(true)
	e.wake[first] <- struct{}{}
	to := cfg.Timeout
	if to == 0 {
		to = 60 * time.Second
	}
	tm := time.NewTimer(to)
	select {
	case <-e.done:
		tm.Stop()
	case <-tm.C:
		// A logical thread blocked outside the scheduler's control (or loops without yielding).
		panic("sched: execution hung (a thread blocked outside scheduler control)")
	}
	active.Store(false)
	activeL.Store(false)
	cur = nil
	return e.res
}

// Explorer enumerates every schedule with at most Bound preemptions.
type Explorer struct {
	Bound  int
	LSites bool
	// Sharding: the schedule space is split by (choice at the first choice point, index of the first
	// later deviation); a shard owns the subtrees whose key is congruent to Shard modulo Shards.
	// Root schedules owned by other shards are still executed (they are needed to discover the
	// choice points) but reported with owned=false.
	Shard, Shards int
	RecordSteps   bool

	// statistics
	Executed     int // all executions, including stepping stones
	Owned        int // executions belonging to this shard
	ChoicePoints int // choice points visited in owned executions
	StepsRun     int // yields executed in owned executions
	ByPreempt    map[int]int
}

func (x *Explorer) owner(c0 int, firstDev int) int {
	if x.Shards <= 1 {
		return 0
	}
	return (c0*7919 + firstDev + 1) % x.Shards
}

// firstDev is the index of the first non-zero choice at index >= 1, or -1.
func firstDev(tr []Choice) int {
	for i := 1; i < len(tr); i++ {
		if tr[i].C != 0 {
			return i
		}
	}
	return -1
}

// Run explores. mk returns fresh thread bodies for one execution; visit is called after each execution
// and may return false to stop. Run returns a non-empty string on a harness error.
func (x *Explorer) Run(mk func() []func(), visit func(r *Result, owned bool) bool) string {
	if x.ByPreempt == nil {
		x.ByPreempt = map[int]int{}
	}
	var prefix []int8
	var expect []Choice
	for {
		r := Execute(mk(), Config{Prefix: prefix, Expect: expect, LSites: x.LSites, RecordSteps: x.RecordSteps})
		x.Executed++
		if r.Broken != "" {
			return r.Broken
		}
		if len(r.Trace) < len(prefix) {
			return fmt.Sprintf("replay diverged: execution ended after %d choice points, prefix has %d", len(r.Trace), len(prefix))
		}
		c0 := 0
		if len(r.Trace) > 0 {
			c0 = int(r.Trace[0].C)
		}
		fd := firstDev(r.Trace)
		owned := x.owner(c0, fd) == x.Shard || x.Shards <= 1
		if owned {
			x.Owned++
			x.ChoicePoints += len(r.Trace)
			x.StepsRun += r.NSteps
			x.ByPreempt[r.Preemptions]++
		}
		if !visit(r, owned) {
			return ""
		}
		// next schedule: deepest choice point that can still be incremented within the bound
		tr := r.Trace
		pre := make([]int, len(tr)+1)
		for i, c := range tr {
			pre[i+1] = pre[i]
			if c.Pre && c.C != 0 {
				pre[i+1]++
			}
		}
		next := -1
		for i := len(tr) - 1; i >= 0; i-- {
			if int(tr[i].C)+1 >= int(tr[i].N) {
				continue
			}
			cost := pre[i]
			if tr[i].Pre {
				cost++
			}
			if cost > x.Bound {
				continue
			}
			if i >= 1 && x.Shards > 1 && (fd == -1 || fd >= i) {
				// i would become the first deviation after the root choice
				if x.owner(c0, i) != x.Shard {
					continue
				}
			}
			next = i
			break
		}
		if next < 0 {
			return ""
		}
		prefix = make([]int8, next+1)
		for i := 0; i < next; i++ {
			prefix[i] = tr[i].C
		}
		prefix[next] = tr[next].C + 1
		expect = append([]Choice(nil), tr[:next+1]...)
	}
}
