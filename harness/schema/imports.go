package schema

import (
	"fmt"
	"strings"
)

// Import cases: records whose fields use types defined in a separately generated imported file. The imported
// definitions live in dep.bop (its own go_package, hence its own Go package); the cases and a few local holder
// structs live in the importing file.

// ImportSet is the atomic batch of import cases with the definitions of both files.
type ImportSet struct {
	DepEnums   []*Enum
	DepRecords []*Record // defined in dep.bop
	Locals     []*Record // support structs defined in the importing file
	Cases      []*Case
}

// ImportCases builds the import batch. Names start with "Imp"/"Loc"/"CIMP" and collide with nothing else.
func ImportCases() *ImportSet {
	is := &ImportSet{}
	en := &Enum{Name: "ImpEnum", Base: "uint16", Members: []Member{{"Zero", "0", 0}, {"One", "1", 1}, {"Max", "65535", 65535}}}
	is.DepEnums = []*Enum{en}
	fixed := &Record{Kind: Struct, Name: "ImpFixed", Support: true, Label: "imported-struct:fixed", Fields: []Field{{Name: "a", Type: P("int32")}, {Name: "b", Type: P("byte")}}}
	vari := &Record{Kind: Struct, Name: "ImpVar", Support: true, Label: "imported-struct:var", Fields: []Field{{Name: "s", Type: P("string")}, {Name: "a", Type: P("int32")}}}
	empty := &Record{Kind: Struct, Name: "ImpEmpty", Support: true, Label: "imported-struct:empty"}
	msg := &Record{Kind: Message, Name: "ImpMsg", Support: true, Label: "imported-message", Fields: []Field{{Name: "a", Index: 1, Type: P("int32")}, {Name: "s", Index: 2, Type: P("string")}}}
	ua := &Record{Kind: Struct, Name: "ImpUnionA", Support: true, Inline: true, Label: "struct:fixed", Fields: []Field{{Name: "a", Type: P("int32")}}}
	ub := &Record{Kind: Message, Name: "ImpUnionB", Support: true, Inline: true, Label: "message", Fields: []Field{{Name: "s", Index: 1, Type: P("string")}}}
	un := &Record{Kind: Union, Name: "ImpUnion", Support: true, Label: "imported-union", Branches: []Branch{{Disc: 1, Rec: ua}, {Disc: 2, Rec: ub}}}
	nested := &Record{Kind: Struct, Name: "ImpNested", Support: true, Label: "imported-struct:nested-var", Fields: []Field{{Name: "v", Type: R(vari)}, {Name: "n", Type: P("uint16")}}}
	is.DepRecords = []*Record{fixed, vari, empty, msg, un, nested}
	// two versions of a message and of a union (whose message branch evolves) side by side in the imported file: only the wire
	// matters, a value written with the New types is read with the Old ones (C04)
	after := func() Field { return Field{Name: "after", Type: P("int32")} }
	for _, ver := range []string{"Old", "New"} {
		fs := func() []Field {
			f := []Field{{Name: "a", Index: 1, Type: P("int32")}, {Name: "s", Index: 2, Type: P("string")}}
			if ver == "New" {
				f = append(f, Field{Name: "x", Index: 3, Type: P("string")}, Field{Name: "y", Index: 4, Type: P("int32")})
			}
			return f
		}
		ev := &Record{Kind: Message, Name: "ImpEv" + ver, Support: true, Label: "imported-message:evolved", Fields: fs()}
		um := &Record{Kind: Message, Name: "ImpUEv" + ver + "M", Support: true, Inline: true, Label: "message:evolved", Fields: fs()}
		us := &Record{Kind: Struct, Name: "ImpUEv" + ver + "S", Support: true, Inline: true, Label: "struct:fixed", Fields: []Field{{Name: "v", Type: P("int32")}}}
		uev := &Record{Kind: Union, Name: "ImpUEv" + ver, Support: true, Label: "imported-union:evolved", Branches: []Branch{{Disc: 1, Rec: um}, {Disc: 2, Rec: us}}}
		// imported STRUCTS that hold the evolving message / union (a struct has no length prefix of its own)
		hold := &Record{Kind: Struct, Name: "ImpHoldEv" + ver, Support: true, Label: "imported-struct:holds-evolved-message", Fields: []Field{{Name: "m", Type: R(ev)}, {Name: "n", Type: P("uint16")}}}
		holdU := &Record{Kind: Struct, Name: "ImpHoldUEv" + ver, Support: true, Label: "imported-struct:holds-evolved-union", Fields: []Field{{Name: "u", Type: R(uev)}, {Name: "n", Type: P("uint16")}}}
		is.DepRecords = append(is.DepRecords, ev, uev, hold, holdU)
		id := "CEvImp" + ver
		mk := func(ctx string, r *Record) {
			r.Name = id + ctx
			is.Cases = append(is.Cases, &Case{ID: r.Name, Ctx: "EV", Class: "EV|IMP-" + ctx, Rec: r})
		}
		mk("US", &Record{Kind: Struct, Fields: []Field{{Name: "u", Type: R(uev)}, after()}})
		mk("UA", &Record{Kind: Struct, Fields: []Field{{Name: "us", Type: A(R(uev))}, after()}})
		mk("UV", &Record{Kind: Struct, Fields: []Field{{Name: "um", Type: M("string", R(uev))}, after()}})
		mk("UF", &Record{Kind: Message, Fields: []Field{{Name: "u", Index: 1, Type: R(uev)}, {Name: "after", Index: 2, Type: P("int32")}}})
		mk("MS", &Record{Kind: Struct, Fields: []Field{{Name: "m", Type: R(ev)}, after()}})
		mk("MA", &Record{Kind: Struct, Fields: []Field{{Name: "ms", Type: A(R(ev))}, after()}})
		mk("MF", &Record{Kind: Message, Fields: []Field{{Name: "m", Index: 1, Type: R(ev)}, {Name: "after", Index: 2, Type: P("int32")}}})
		mk("HS", &Record{Kind: Struct, Fields: []Field{{Name: "h", Type: R(hold)}, after()}})
		mk("HA", &Record{Kind: Struct, Fields: []Field{{Name: "hs", Type: A(R(hold))}, after()}})
		mk("HF", &Record{Kind: Message, Fields: []Field{{Name: "h", Index: 1, Type: R(hold)}, {Name: "after", Index: 2, Type: P("int32")}}})
		mk("HUS", &Record{Kind: Struct, Fields: []Field{{Name: "h", Type: R(holdU)}, after()}})
	}
	// local structs that embed imported ones
	locE := &Record{Kind: Struct, Name: "LocHoldEmpty", Support: true, Label: "struct:holds-imported-empty", Fields: []Field{{Name: "e", Type: R(empty)}, {Name: "x", Type: P("int32")}}}
	locV := &Record{Kind: Struct, Name: "LocHoldVar", Support: true, Label: "struct:holds-imported-var", Fields: []Field{{Name: "x", Type: P("int32")}, {Name: "v", Type: R(vari)}}}
	locF := &Record{Kind: Struct, Name: "LocHoldFixed", Support: true, Label: "struct:holds-imported-fixed", Fields: []Field{{Name: "f", Type: R(fixed)}, {Name: "g", Type: R(fixed)}}}
	locM := &Record{Kind: Struct, Name: "LocHoldMsg", Support: true, Label: "struct:holds-imported-message", Fields: []Field{{Name: "m", Type: R(msg)}, {Name: "x", Type: P("int32")}}}
	is.Locals = []*Record{locE, locV, locF, locM}
	leaves := []*Type{E(en), R(fixed), R(vari), R(empty), R(msg), R(un), R(nested), R(locE), R(locV), R(locF), R(locM)}
	bait := func() Field { return Field{Name: "bait", Type: P("int32")} }
	n := 0
	for _, l := range leaves {
		for _, t := range []*Type{l, A(l), M("string", l), A(A(l)), M("uint32", A(l))} {
			id := func(ctx string) string { return fmt.Sprintf("CIMP%s%d", ctx, n) }
			is.Cases = append(is.Cases,
				&Case{ID: id("S"), Ctx: "IMP", Shape: t, Class: "IMP-S|" + t.Class(), Rec: &Record{Kind: Struct, Name: id("S"), Fields: []Field{bait(), {Name: "f", Type: t}, after()}}},
				&Case{ID: id("SL"), Ctx: "IMP", Shape: t, Class: "IMP-SL|" + t.Class(), Rec: &Record{Kind: Struct, Name: id("SL"), Fields: []Field{bait(), {Name: "f", Type: t}}}},
				&Case{ID: id("M"), Ctx: "IMP", Shape: t, Class: "IMP-M|" + t.Class(), Rec: &Record{Kind: Message, Name: id("M"), Fields: []Field{{Name: "bait", Index: 1, Type: P("int32")}, {Name: "f", Index: 2, Type: t}, {Name: "after", Index: 3, Type: P("int32")}}}},
			)
			n++
		}
	}
	return is
}

// Render returns the text of the imported file (with the given go_package) and of the importing file.
func (is *ImportSet) Render(goPackage, depFile string) (dep, main string) {
	var d strings.Builder
	fmt.Fprintf(&d, "const string go_package = %q;\n", goPackage)
	for _, e := range is.DepEnums {
		renderEnum(&d, e)
	}
	for _, r := range is.DepRecords {
		RenderRecord(&d, r, "")
	}
	var m strings.Builder
	fmt.Fprintf(&m, "import %q\n", depFile)
	// a local enum that has the bare name of the imported one and another base type: the name keeps meaning the imported
	// definition (that is how the generator resolves it), every encoder and decoder has to agree on that
	for _, e := range is.DepEnums {
		fmt.Fprintf(&m, "enum %s : uint8 {\n    LocalDecoy = 1;\n    LocalOther = 200;\n}\n", e.Name)
	}
	for _, r := range is.Locals {
		RenderRecord(&m, r, "")
	}
	for _, c := range is.Cases {
		RenderRecord(&m, c.Rec, "")
	}
	return d.String(), m.String()
}
