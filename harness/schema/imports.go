package schema

import (
	"fmt"
	"strings"
)

// Import cases: records whose fields use types defined in a separately generated imported file. The imported
// definitions live in dep.bop (its own go_package, hence its own Go package); the cases and a few local holder
// structs live in the importing file.

// ImportSet is the atomic batch of import cases with the definitions of both files.
type ImportSet struct {
	DepEnums   []*Enum
	DepRecords []*Record // defined in dep.bop
	Locals     []*Record // support structs defined in the importing file
	Cases      []*Case
}

// ImportCases builds the import batch. Names start with "Imp"/"Loc"/"CIMP" and collide with nothing else.
func ImportCases() *ImportSet {
	is := &ImportSet{}
	en := &Enum{Name: "ImpEnum", Base: "uint16", Members: []Member{{"Zero", "0", 0}, {"One", "1", 1}, {"Max", "65535", 65535}}}
	is.DepEnums = []*Enum{en}
	fixed := &Record{Kind: Struct, Name: "ImpFixed", Support: true, Label: "imported-struct:fixed", Fields: []Field{{Name: "a", Type: P("int32")}, {Name: "b", Type: P("byte")}}}
	vari := &Record{Kind: Struct, Name: "ImpVar", Support: true, Label: "imported-struct:var", Fields: []Field{{Name: "s", Type: P("string")}, {Name: "a", Type: P("int32")}}}
	empty := &Record{Kind: Struct, Name: "ImpEmpty", Support: true, Label: "imported-struct:empty"}
	msg := &Record{Kind: Message, Name: "ImpMsg", Support: true, Label: "imported-message", Fields: []Field{{Name: "a", Index: 1, Type: P("int32")}, {Name: "s", Index: 2, Type: P("string")}}}
	ua := &Record{Kind: Struct, Name: "ImpUnionA", Support: true, Inline: true, Label: "struct:fixed", Fields: []Field{{Name: "a", Type: P("int32")}}}
	ub := &Record{Kind: Message, Name: "ImpUnionB", Support: true, Inline: true, Label: "message", Fields: []Field{{Name: "s", Index: 1, Type: P("string")}}}
	un := &Record{Kind: Union, Name: "ImpUnion", Support: true, Label: "imported-union", Branches: []Branch{{Disc: 1, Rec: ua}, {Disc: 2, Rec: ub}}}
	nested := &Record{Kind: Struct, Name: "ImpNested", Support: true, Label: "imported-struct:nested-var", Fields: []Field{{Name: "v", Type: R(vari)}, {Name: "n", Type: P("uint16")}}}
	is.DepRecords = []*Record{fixed, vari, empty, msg, un, nested}
	// local structs that embed imported ones
	locE := &Record{Kind: Struct, Name: "LocHoldEmpty", Support: true, Label: "struct:holds-imported-empty", Fields: []Field{{Name: "e", Type: R(empty)}, {Name: "x", Type: P("int32")}}}
	locV := &Record{Kind: Struct, Name: "LocHoldVar", Support: true, Label: "struct:holds-imported-var", Fields: []Field{{Name: "x", Type: P("int32")}, {Name: "v", Type: R(vari)}}}
	locF := &Record{Kind: Struct, Name: "LocHoldFixed", Support: true, Label: "struct:holds-imported-fixed", Fields: []Field{{Name: "f", Type: R(fixed)}, {Name: "g", Type: R(fixed)}}}
	locM := &Record{Kind: Struct, Name: "LocHoldMsg", Support: true, Label: "struct:holds-imported-message", Fields: []Field{{Name: "m", Type: R(msg)}, {Name: "x", Type: P("int32")}}}
	is.Locals = []*Record{locE, locV, locF, locM}
	leaves := []*Type{E(en), R(fixed), R(vari), R(empty), R(msg), R(un), R(nested), R(locE), R(locV), R(locF), R(locM)}
	after := func() Field { return Field{Name: "after", Type: P("int32")} }
	bait := func() Field { return Field{Name: "bait", Type: P("int32")} }
	n := 0
	for _, l := range leaves {
		for _, t := range []*Type{l, A(l), M("string", l), A(A(l)), M("uint32", A(l))} {
			id := func(ctx string) string { return fmt.Sprintf("CIMP%s%d", ctx, n) }
			is.Cases = append(is.Cases,
				&Case{ID: id("S"), Ctx: "IMP", Shape: t, Class: "IMP-S|" + t.Class(), Rec: &Record{Kind: Struct, Name: id("S"), Fields: []Field{bait(), {Name: "f", Type: t}, after()}}},
				&Case{ID: id("SL"), Ctx: "IMP", Shape: t, Class: "IMP-SL|" + t.Class(), Rec: &Record{Kind: Struct, Name: id("SL"), Fields: []Field{bait(), {Name: "f", Type: t}}}},
				&Case{ID: id("M"), Ctx: "IMP", Shape: t, Class: "IMP-M|" + t.Class(), Rec: &Record{Kind: Message, Name: id("M"), Fields: []Field{{Name: "bait", Index: 1, Type: P("int32")}, {Name: "f", Index: 2, Type: t}, {Name: "after", Index: 3, Type: P("int32")}}}},
			)
			n++
		}
	}
	return is
}

// Render returns the text of the imported file (with the given go_package) and of the importing file.
func (is *ImportSet) Render(goPackage, depFile string) (dep, main string) {
	var d strings.Builder
	fmt.Fprintf(&d, "const string go_package = %q;\n", goPackage)
	for _, e := range is.DepEnums {
		renderEnum(&d, e)
	}
	for _, r := range is.DepRecords {
		RenderRecord(&d, r, "")
	}
	var m strings.Builder
	fmt.Fprintf(&m, "import %q\n", depFile)
	for _, r := range is.Locals {
		RenderRecord(&m, r, "")
	}
	for _, c := range is.Cases {
		RenderRecord(&m, c.Rec, "")
	}
	return d.String(), m.String()
}
