package schema

import (
	"fmt"
	"math"
)

// Support holds the shared definitions every batch schema starts with.
type Support struct {
	Enums   []*Enum
	Records []*Record
	Leaves  []*Type // the leaf type alphabet L (primitives, enums, record references)
	byName  map[string]*Type
}

func maxOf(base string) uint64 {
	switch base {
	case "byte", "uint8":
		return math.MaxUint8
	case "uint16":
		return math.MaxUint16
	case "uint32", "":
		return math.MaxUint32
	case "uint64":
		return math.MaxUint64
	}
	return 0
}

func signedBits(base string) int {
	switch base {
	case "int16":
		return 16
	case "int32":
		return 32
	case "int64":
		return 64
	}
	return 0
}

// NewSupport builds the support definitions. Names are chosen so that exposing/unexposing the
// first letter never makes two of them collide and none is a Go keyword or generator local.
func NewSupport() *Support {
	s := &Support{byName: map[string]*Type{}}
	mk := func(name, base string) *Enum {
		e := &Enum{Name: name, Base: base}
		if sb := signedBits(base); sb > 0 {
			min := int64(-1) << (sb - 1)
			max := int64(1)<<(sb-1) - 1
			mask := ^uint64(0) >> (64 - sb)
			e.Members = []Member{
				{"Zero", "0", 0}, {"One", "1", 1}, {"Neg", "-1", mask},
				{"Min", fmt.Sprint(min), uint64(min) & mask}, {"Max", fmt.Sprint(max), uint64(max)}, {"Hex", "0x12", 0x12},
			}
		} else {
			mx := maxOf(base)
			e.Members = []Member{{"Zero", "0", 0}, {"One", "1", 1}, {"Max", fmt.Sprint(mx), mx}, {"Hex", "0x12", 0x12}}
		}
		return e
	}
	for _, nb := range [][2]string{{"EnDef", ""}, {"EnByte", "byte"}, {"EnU8", "uint8"}, {"EnU16", "uint16"}, {"EnU32", "uint32"}, {"EnU64", "uint64"}, {"EnI16", "int16"}, {"EnI32", "int32"}, {"EnI64", "int64"}} {
		s.Enums = append(s.Enums, mk(nb[0], nb[1]))
	}
	fixed := &Record{Kind: Struct, Name: "SupFixed", Support: true, Label: "struct:fixed", Fields: []Field{{Name: "a", Type: P("int32")}, {Name: "b", Type: P("byte")}}}
	vari := &Record{Kind: Struct, Name: "SupVar", Support: true, Label: "struct:var", Fields: []Field{{Name: "s", Type: P("string")}, {Name: "a", Type: P("int32")}}}
	empty := &Record{Kind: Struct, Name: "SupEmpty", Support: true, Label: "struct:empty"}
	ro := &Record{Kind: Struct, Name: "SupRO", ReadOnly: true, Support: true, Label: "struct:readonly", Fields: []Field{{Name: "a", Type: P("int32")}, {Name: "s", Type: P("string")}}}
	msg := &Record{Kind: Message, Name: "SupMsg", Support: true, Label: "message", Fields: []Field{{Name: "a", Index: 1, Type: P("int32")}, {Name: "s", Index: 2, Type: P("string")}}}
	emsg := &Record{Kind: Message, Name: "SupEmptyMsg", Support: true, Label: "message:empty"}
	ua := &Record{Kind: Struct, Name: "SupUnionA", Support: true, Inline: true, Label: "struct:fixed", Fields: []Field{{Name: "a", Type: P("int32")}}}
	ub := &Record{Kind: Message, Name: "SupUnionB", Support: true, Inline: true, Label: "message", Fields: []Field{{Name: "s", Index: 1, Type: P("string")}}}
	un := &Record{Kind: Union, Name: "SupUnion", Support: true, Label: "union", Branches: []Branch{{Disc: 1, Rec: ua}, {Disc: 2, Rec: ub}}}
	// structs without a length prefix of their own whose wire size is not fixed because of what they hold
	holdM := &Record{Kind: Struct, Name: "SupHoldMsg", Support: true, Label: "struct:holds-message", Fields: []Field{{Name: "m", Type: R(msg)}, {Name: "a", Type: P("int32")}}}
	holdU := &Record{Kind: Struct, Name: "SupHoldUnion", Support: true, Label: "struct:holds-union", Fields: []Field{{Name: "b", Type: P("byte")}, {Name: "u", Type: R(un)}}}
	// structs that look fixed-size at first glance: no string/array/map field of their own, but one inside a nested struct;
	// and a struct whose variable part is an array
	holdV := &Record{Kind: Struct, Name: "SupHoldVar", Support: true, Label: "struct:holds-var-struct", Fields: []Field{{Name: "id", Type: P("int32")}, {Name: "v", Type: R(vari)}}}
	holdA := &Record{Kind: Struct, Name: "SupHoldArr", Support: true, Label: "struct:holds-array", Fields: []Field{{Name: "id", Type: P("uint32")}, {Name: "xs", Type: A(P("int32"))}, {Name: "e", Type: P("byte")}}}
	// a union one of whose branches occupies no bytes at all (the smallest branch decides the minimum size of the union)
	uea := &Record{Kind: Struct, Name: "SupUnionEAck", Support: true, Inline: true, Label: "struct:empty"}
	ueb := &Record{Kind: Struct, Name: "SupUnionEData", Support: true, Inline: true, Label: "struct:var", Fields: []Field{{Name: "s", Type: P("string")}, {Name: "n", Type: P("int64")}}}
	une := &Record{Kind: Union, Name: "SupUnionE", Support: true, Label: "union:empty-branch", Branches: []Branch{{Disc: 1, Rec: uea}, {Disc: 2, Rec: ueb}}}
	s.Records = []*Record{fixed, vari, empty, ro, msg, emsg, un, holdM, holdU, holdV, holdA, une}
	for _, p := range Primitives {
		s.Leaves = append(s.Leaves, P(p))
	}
	for _, e := range s.Enums {
		s.Leaves = append(s.Leaves, E(e))
	}
	for _, r := range s.Records {
		s.Leaves = append(s.Leaves, R(r))
	}
	for _, l := range s.Leaves {
		s.byName[l.Name] = l
	}
	return s
}

func (s *Support) Leaf(name string) *Type {
	t, ok := s.byName[name]
	if !ok {
		panic("no leaf " + name)
	}
	return t
}

// Case is one record under test: a shape placed in a context.
type Case struct {
	ID    string    // unique, stable: ctx + ordinal of the shape in the enumeration
	Ctx   string    // S, RO, M, MD, U, PS (pair struct), PM (pair message), X* (special)
	Shape *Type     // the type under test (nil for specials)
	Rec   *Record   // top-level record
	Class string    // ctx|shape class — used in signatures
	Extra []*Record // further definitions rendered AFTER Rec (forward references)
}

// Shapes enumerates the type-shape alphabet for a tier.
//
//	quick: T1 = L ∪ array[L] ∪ map[K,L] (keys × values pairwise-reduced: all 14 keys × 6 representative
//	       values ∪ all values × {string,uint32,guid}) ∪ depth-2 shapes over a reduced leaf set.
//	both:  arrays nested 3 to 6 deep and map/array alternations down to depth 5 over {int32, string}.
//	thorough: all 14 keys × all leaves at depth 1, depth 2 over 4 keys × all leaves, depth 3 over a reduced set.
func (s *Support) Shapes(thorough bool) []*Type {
	var out []*Type
	seen := map[string]bool{}
	add := func(t *Type) {
		k := t.String()
		if !seen[k] {
			seen[k] = true
			out = append(out, t)
		}
	}
	for _, l := range s.Leaves {
		add(l)
	}
	for _, l := range s.Leaves {
		add(A(l))
	}
	repVals := []string{"int32", "string", "SupFixed", "EnU16", "SupMsg", "byte"}
	repKeys := []string{"string", "uint32", "guid"}
	if thorough {
		for _, k := range Primitives {
			for _, l := range s.Leaves {
				add(M(k, l))
			}
		}
	} else {
		for _, k := range Primitives {
			for _, v := range repVals {
				add(M(k, s.Leaf(v)))
			}
		}
		for _, l := range s.Leaves {
			for _, k := range repKeys {
				add(M(k, l))
			}
		}
	}
	// depth 2
	d2leaves := []string{"int32", "string", "byte", "bool", "guid", "date", "EnU16", "SupFixed", "SupVar", "SupMsg", "SupUnion", "SupHoldMsg"}
	d2keys := []string{"string", "uint32"}
	if thorough {
		d2leaves = nil
		for _, l := range s.Leaves {
			d2leaves = append(d2leaves, l.Name)
		}
		d2keys = []string{"string", "uint32", "guid", "bool"}
	}
	for _, ln := range d2leaves {
		l := s.Leaf(ln)
		add(A(A(l)))
		for _, k := range d2keys {
			add(A(M(k, l)))
			add(M(k, A(l)))
			for _, k2 := range d2keys {
				add(M(k, M(k2, l)))
			}
		}
	}
	// float keys over nested containers (a NaN key read from the wire can never be looked up again)
	fl := []string{"int32", "string"}
	if thorough {
		fl = []string{"int32", "string", "byte", "SupFixed", "SupMsg", "SupUnion"}
	}
	for _, ln := range fl {
		l := s.Leaf(ln)
		add(M("float64", A(l)))
		add(M("float32", M("string", l)))
		add(M("float32", A(l)))
		add(M("float64", M("float32", l)))
		add(A(M("float64", A(l))))
	}
	// deep nestings (both tiers): the emitters name loop variables, lengths and temporaries by nesting depth, and start at
	// a different depth in each context; depths 3 to 6 of arrays, and maps alternating with arrays down to depth 5
	for _, ln := range []string{"int32", "string"} {
		l := s.Leaf(ln)
		t := A(A(l))
		for d := 3; d <= 6; d++ {
			t = A(t)
			add(t)
		}
		add(M("string", A(A(l))))
		add(A(M("uint32", A(l))))
		add(M("uint32", M("string", M("uint32", l))))
		add(A(M("string", A(M("uint32", A(l))))))
	}
	if thorough {
		// depth 3 over a reduced leaf set × keys {string,uint32}
		for _, ln := range []string{"int32", "string", "byte", "EnU16", "SupFixed", "SupMsg"} {
			l := s.Leaf(ln)
			var d2 []*Type
			d2 = append(d2, A(A(l)))
			for _, k := range []string{"string", "uint32"} {
				d2 = append(d2, A(M(k, l)), M(k, A(l)), M(k, M(k, l)))
			}
			for _, t := range d2 {
				add(A(t))
				add(M("string", t))
				add(M("uint32", t))
			}
		}
	}
	return out
}

// Cases places every shape in every context and adds pair and special cases.
func (s *Support) Cases(thorough bool) []*Case {
	var out []*Case
	shapes := s.Shapes(thorough)
	bait := func() Field { return Field{Name: "bait", Type: P("int32")} }
	after := func() Field { return Field{Name: "after", Type: P("int32")} }
	for i, t := range shapes {
		id := func(ctx string) string { return fmt.Sprintf("C%s%d", ctx, i) }
		// every field under test carries a field-tag comment, so that GenerateFieldTags has something to do
		tag := `json:"f,omitempty"`
		// S: struct field between a bait and a sentinel
		out = append(out, &Case{ID: id("S"), Ctx: "S", Shape: t, Class: "S|" + t.Class(),
			Rec: &Record{Kind: Struct, Name: id("S"), Fields: []Field{bait(), {Name: "f", Type: t, Tag: tag}, after()}}})
		out = append(out, &Case{ID: id("RO"), Ctx: "RO", Shape: t, Class: "RO|" + t.Class(),
			Rec: &Record{Kind: Struct, ReadOnly: true, Name: id("RO"), Fields: []Field{bait(), {Name: "f", Type: t, Tag: tag}, after()}}})
		out = append(out, &Case{ID: id("SL"), Ctx: "SL", Shape: t, Class: "SL|" + t.Class(),
			Rec: &Record{Kind: Struct, Name: id("SL"), Fields: []Field{bait(), {Name: "f", Type: t, Tag: tag}}}})
		mf := func(dep bool) []Field {
			return []Field{{Name: "bait", Index: 1, Type: P("int32")}, {Name: "f", Index: 2, Type: t, Deprecated: dep, Tag: tag}, {Name: "after", Index: 3, Type: P("int32")}}
		}
		out = append(out, &Case{ID: id("M"), Ctx: "M", Shape: t, Class: "M|" + t.Class(),
			Rec: &Record{Kind: Message, Name: id("M"), Fields: mf(false)}})
		out = append(out, &Case{ID: id("MD"), Ctx: "MD", Shape: t, Class: "MD|" + t.Class(),
			Rec: &Record{Kind: Message, Name: id("MD"), Fields: mf(true)}})
		ua := &Record{Kind: Struct, Inline: true, Name: id("U") + "A", Fields: []Field{{Name: "f", Type: t, Tag: tag}, after()}}
		ub := &Record{Kind: Message, Inline: true, Name: id("U") + "B", Fields: []Field{{Name: "f", Index: 1, Type: t, Tag: tag}, {Name: "after", Index: 2, Type: P("int32")}}}
		// a deprecated branch is still a branch: it travels like any other
		uc := &Record{Kind: Struct, Inline: true, Name: id("U") + "C", Fields: []Field{{Name: "f", Type: t}}}
		out = append(out, &Case{ID: id("U"), Ctx: "U", Shape: t, Class: "U|" + t.Class(),
			Rec: &Record{Kind: Union, Name: id("U"), Branches: []Branch{{Disc: 1, Rec: ua}, {Disc: 2, Rec: ub}, {Disc: 9, Rec: uc, Dep: true}}}})
	}
	// pairs: sibling fields couple through the generator's length-name counters
	pairT := []*Type{P("int32"), P("string"), A(P("byte")), A(P("int32")), M("string", P("int32")),
		M("uint32", A(P("string"))), R(s.Records[4]), M("string", M("string", P("int32"))), A(M("string", P("string")))}
	n := 0
	for _, a := range pairT {
		for _, b := range pairT {
			ids := fmt.Sprintf("CPS%d", n)
			out = append(out, &Case{ID: ids, Ctx: "PS", Class: "PS|" + a.Class() + "+" + b.Class(),
				Rec: &Record{Kind: Struct, Name: ids, Fields: []Field{{Name: "a", Type: a}, {Name: "b", Type: b}, after()}}})
			idm := fmt.Sprintf("CPM%d", n)
			out = append(out, &Case{ID: idm, Ctx: "PM", Class: "PM|" + a.Class() + "+" + b.Class(),
				Rec: &Record{Kind: Message, Name: idm, Fields: []Field{{Name: "a", Index: 1, Type: a}, {Name: "b", Index: 2, Type: b}, {Name: "after", Index: 3, Type: P("int32")}}}})
			n++
		}
	}
	// specials
	sp := func(id, class string, r *Record) {
		r.Name = id
		out = append(out, &Case{ID: id, Ctx: "X", Class: "X|" + class, Rec: r})
	}
	sp("CXEmptyS", "empty-struct", &Record{Kind: Struct})
	sp("CXEmptyM", "empty-message", &Record{Kind: Message})
	sp("CXEmptyU", "empty-union", &Record{Kind: Union})
	sp("CXIdx", "message-sparse-indices", &Record{Kind: Message, Fields: []Field{{Name: "lo", Index: 1, Type: P("int32")}, {Name: "mid", Index: 7, Type: P("string")}, {Name: "hi", Index: 255, Type: P("uint16")}}})
	sp("CXOpS", "struct-opcode", &Record{Kind: Struct, OpCode: "0x12345678", Fields: []Field{{Name: "x", Type: P("int32")}}})
	sp("CXOpM", "message-opcode", &Record{Kind: Message, OpCode: "\"ABCD\"", Fields: []Field{{Name: "x", Index: 1, Type: P("int32")}}})
	// records whose values cross the decoders' pre-allocation thresholds (4096 elements / bytes): see refcodec.BigValues
	sp("CXBigStr", "big-string", &Record{Kind: Struct, Fields: []Field{{Name: "s", Type: P("string")}, after()}})
	sp("CXBigStrLast", "big-string-last", &Record{Kind: Struct, Fields: []Field{bait(), {Name: "s", Type: P("string")}}})
	sp("CXBigBytes", "big-bytes-last", &Record{Kind: Struct, Fields: []Field{{Name: "b", Type: A(P("byte"))}}})
	sp("CXBigU8", "big-uint8-array", &Record{Kind: Struct, Fields: []Field{{Name: "a", Type: A(P("uint8"))}, after()}})
	sp("CXBigBool", "big-bool-array-last", &Record{Kind: Struct, Fields: []Field{bait(), {Name: "a", Type: A(P("bool"))}}})
	sp("CXBigStrArr", "big-string-array", &Record{Kind: Struct, Fields: []Field{{Name: "a", Type: A(P("string"))}, after()}})
	sp("CXBigMap", "big-map", &Record{Kind: Struct, Fields: []Field{{Name: "m", Type: M("uint32", P("bool"))}, after()}})
	// maps over a one-byte key type filled to the whole key space (256 entries; the 65 536 entries of a 16-bit key space
	// were tried and dropped: every codec check became minutes slower and two of them timed out on the harness's own work)
	sp("CXBigKeys8", "full-map-uint8-keys", &Record{Kind: Struct, Fields: []Field{{Name: "m", Type: M("uint8", P("bool"))}, {Name: "n", Type: M("byte", P("uint16"))}, after()}})
	sp("CXBigKeysM", "full-maps-in-message", &Record{Kind: Message, Fields: []Field{{Name: "m", Index: 1, Type: M("uint8", P("string"))}, {Name: "n", Index: 2, Type: M("byte", P("bool"))}}})
	// more than 4096 elements that take no bytes at all (the stream decoders grow the slice while "reading" them)
	sp("CXBigEmptyArr", "big-empty-struct-array", &Record{Kind: Struct, Fields: []Field{bait(), {Name: "a", Type: A(s.Leaf("SupEmpty"))}, after()}})
	sp("CXBigEmptyArrM", "big-empty-struct-array-in-message", &Record{Kind: Message, Fields: []Field{{Name: "a", Index: 1, Type: A(s.Leaf("SupEmpty"))}, {Name: "n", Index: 2, Type: P("int32")}}})
	sp("CXBigEmptyMapM", "big-empty-struct-map-in-message", &Record{Kind: Message, Fields: []Field{{Name: "m", Index: 1, Type: M("uint32", s.Leaf("SupEmpty"))}, {Name: "n", Index: 2, Type: P("int32")}}})
	sp("CXBigMsg", "big-message", &Record{Kind: Message, Fields: []Field{{Name: "s", Index: 1, Type: P("string")}, {Name: "a", Index: 2, Type: A(P("uint16"))}, {Name: "b", Index: 3, Type: A(P("byte"))}}})
	// the big message nested in a struct, and a struct with a big payload nested in a message
	// (a copy of the big message travels with the case: in the thorough tier the two cases can land in different batches)
	bigMsg := &Record{Kind: Message, Name: "CXBigMsgIn", Support: true, Label: "message:big", Fields: []Field{{Name: "s", Index: 1, Type: P("string")}, {Name: "a", Index: 2, Type: A(P("uint16"))}, {Name: "b", Index: 3, Type: A(P("byte"))}}}
	out = append(out, &Case{ID: "CXBigHoldMsg", Ctx: "X", Class: "X|big-message-in-struct", Extra: []*Record{bigMsg},
		Rec: &Record{Kind: Struct, Name: "CXBigHoldMsg", Fields: []Field{bait(), {Name: "m", Type: R(bigMsg)}, after()}}})
	bigStr := &Record{Kind: Struct, Name: "CXBigInner", Support: true, Label: "struct:var", Fields: []Field{{Name: "n", Type: P("uint32")}, {Name: "b", Type: A(P("byte"))}}}
	out = append(out, &Case{ID: "CXBigInMsg", Ctx: "X", Class: "X|big-struct-in-message", Extra: []*Record{bigStr},
		Rec: &Record{Kind: Message, Name: "CXBigInMsg", Fields: []Field{{Name: "bait", Index: 1, Type: P("int32")}, {Name: "s", Index: 2, Type: R(bigStr)}}}})
	bigU := &Record{Kind: Union, Name: "CXBigUnion"}
	bigU.Branches = []Branch{{Disc: 1, Rec: &Record{Kind: Struct, Inline: true, Name: "CXBigUnionA", Fields: []Field{{Name: "b", Type: A(P("byte"))}}}}, {Disc: 2, Rec: &Record{Kind: Message, Inline: true, Name: "CXBigUnionB", Fields: []Field{{Name: "s", Index: 1, Type: P("string")}}}}}
	out = append(out, &Case{ID: "CXBigUnion", Ctx: "X", Class: "X|big-union", Rec: bigU})
	// forward references: a struct made only of structs declared later in the file (sizes are not known top-down)
	fwdB := &Record{Kind: Struct, Name: "CXFwdB", Support: true, Label: "struct:fixed", Fields: []Field{{Name: "x", Type: P("int32")}, {Name: "y", Type: P("uint16")}}}
	fwdA := &Record{Kind: Struct, Name: "CXFwdA", Support: true, Label: "struct:forward-declared", Fields: []Field{{Name: "b", Type: R(fwdB)}, {Name: "c", Type: R(fwdB)}}}
	fwd := &Record{Kind: Struct, Name: "CXFwd", Fields: []Field{{Name: "items", Type: A(R(fwdA))}, {Name: "m", Type: M("uint32", R(fwdA))}, after()}}
	out = append(out, &Case{ID: "CXFwd", Ctx: "X", Class: "X|forward-declared-structs", Rec: fwd, Extra: []*Record{fwdA, fwdB}})
	fwdM := &Record{Kind: Message, Name: "CXFwdM", Fields: []Field{{Name: "items", Index: 1, Type: A(R(fwdA))}, {Name: "after", Index: 2, Type: P("int32")}}}
	out = append(out, &Case{ID: "CXFwdM", Ctx: "X", Class: "X|forward-declared-structs-in-message", Rec: fwdM, Extra: []*Record{fwdA, fwdB}})
	// a chain of forward references three deep under an array, written top-down (sizing needs as many passes as the chain is long)
	f3d := &Record{Kind: Struct, Name: "CXFwd3D", Support: true, Label: "struct:fixed", Fields: []Field{{Name: "x", Type: P("int32")}, {Name: "y", Type: P("int32")}}}
	f3c := &Record{Kind: Struct, Name: "CXFwd3C", Support: true, Label: "struct:forward-declared", Fields: []Field{{Name: "p", Type: R(f3d)}}}
	f3b := &Record{Kind: Struct, Name: "CXFwd3B", Support: true, Label: "struct:forward-declared", Fields: []Field{{Name: "s", Type: R(f3c)}, {Name: "n", Type: P("uint16")}}}
	f3 := &Record{Kind: Struct, Name: "CXFwd3", Fields: []Field{{Name: "legs", Type: A(R(f3b))}, {Name: "m", Type: M("uint32", R(f3b))}, after()}}
	out = append(out, &Case{ID: "CXFwd3", Ctx: "X", Class: "X|forward-declared-structs-3-deep", Rec: f3, Extra: []*Record{f3b, f3c, f3d}})
	// a struct with no variable-size field of its own that embeds a struct declared AFTER it which has one
	fve := &Record{Kind: Struct, Name: "CXFwdVarEnd", Support: true, Label: "struct:var", Fields: []Field{{Name: "host", Type: P("string")}, {Name: "port", Type: P("uint16")}}}
	fvh := &Record{Kind: Struct, Name: "CXFwdVarHop", Support: true, Label: "struct:forward-declared", Fields: []Field{{Name: "n", Type: P("int32")}, {Name: "to", Type: R(fve)}}}
	out = append(out, &Case{ID: "CXFwdVar", Ctx: "X", Class: "X|forward-declared-var-struct-in-array", Extra: []*Record{fvh, fve},
		Rec: &Record{Kind: Struct, Name: "CXFwdVar", Fields: []Field{{Name: "hops", Type: A(R(fvh))}, after()}}})
	out = append(out, &Case{ID: "CXFwdVarM", Ctx: "X", Class: "X|forward-declared-var-struct-in-message", Extra: []*Record{fvh, fve},
		Rec: &Record{Kind: Message, Name: "CXFwdVarM", Fields: []Field{{Name: "hops", Index: 1, Type: A(R(fvh))}, {Name: "after", Index: 2, Type: P("int32")}}}})
	// structs whose minimum wire size is exactly 256 and 512 bytes (a size table kept in a byte wraps to 0)
	w256 := &Record{Kind: Struct, Name: "CXWide256", Support: true, Label: "struct:fixed-256-bytes"}
	for i := 0; i < 16; i++ {
		w256.Fields = append(w256.Fields, Field{Name: fmt.Sprintf("g%d", i), Type: P("guid")})
	}
	w512 := &Record{Kind: Struct, Name: "CXWide512", Support: true, Label: "struct:fixed-512-bytes", Fields: []Field{{Name: "a", Type: R(w256)}, {Name: "b", Type: R(w256)}}}
	out = append(out, &Case{ID: "CXWide", Ctx: "X", Class: "X|array-of-256-byte-structs", Extra: []*Record{w256, w512},
		Rec: &Record{Kind: Struct, Name: "CXWide", Fields: []Field{{Name: "f", Type: A(R(w256))}, {Name: "m", Type: M("uint32", R(w512))}, after()}}})
	out = append(out, &Case{ID: "CXWideM", Ctx: "X", Class: "X|array-of-512-byte-structs-in-message", Extra: []*Record{w256, w512},
		Rec: &Record{Kind: Message, Name: "CXWideM", Fields: []Field{{Name: "f", Index: 1, Type: A(R(w512))}, {Name: "after", Index: 2, Type: P("int32")}}}})
	// big arrays of enums (a bulk read of the payload crosses the 4096-byte threshold)
	// ... and of one-byte enums (candidates for bulk reads and writes)
	sp("CXBigEnum8", "big-one-byte-enum-array", &Record{Kind: Struct, Fields: []Field{{Name: "a", Type: A(E(s.Enums[2]))}, {Name: "b", Type: A(E(s.Enums[1]))}, after()}})
	sp("CXBigEnum", "big-enum-array", &Record{Kind: Struct, Fields: []Field{{Name: "a", Type: A(E(s.Enums[3]))}, after()}})
	// recursion through a message / a union
	rm := &Record{Kind: Message, Name: "CXRecM"}
	rm.Fields = []Field{{Name: "v", Index: 1, Type: P("int32")}, {Name: "next", Index: 2, Type: R(rm)}, {Name: "kids", Index: 3, Type: A(R(rm))}}
	out = append(out, &Case{ID: "CXRecM", Ctx: "X", Class: "X|recursive-message", Rec: rm})
	ru := &Record{Kind: Union, Name: "CXRecU", OpCode: "7"}
	rua := &Record{Kind: Struct, Inline: true, Name: "CXRecUA", Fields: []Field{{Name: "v", Type: P("int32")}}}
	rub := &Record{Kind: Message, Inline: true, Name: "CXRecUB"}
	rub.Fields = []Field{{Name: "inner", Index: 1, Type: R(ru)}, {Name: "tail", Index: 2, Type: P("string")}}
	ru.Branches = []Branch{{Disc: 1, Rec: rua}, {Disc: 3, Rec: rub}, {Disc: 255, Rec: &Record{Kind: Struct, Inline: true, Name: "CXRecUC"}}}
	out = append(out, &Case{ID: "CXRecU", Ctx: "X", Class: "X|recursive-union", Rec: ru})
	// discriminator 0 (what a failed ReadByte yields) on a branch that contains the union itself
	ru0 := &Record{Kind: Union, Name: "CXRecU0"}
	ru0a := &Record{Kind: Struct, Inline: true, Name: "CXRecU0A"}
	ru0a.Fields = []Field{{Name: "inner", Type: R(ru0)}, {Name: "v", Type: P("int32")}}
	ru0.Branches = []Branch{{Disc: 0, Rec: ru0a}, {Disc: 1, Rec: &Record{Kind: Struct, Inline: true, Name: "CXRecU0B", Fields: []Field{{Name: "v", Type: P("uint16")}}}}}
	out = append(out, &Case{ID: "CXRecU0", Ctx: "X", Class: "X|recursive-union-discriminator-0", Rec: ru0})
	// many fields of all primitive kinds in one struct / message (layout of adjacent scalars)
	all := &Record{Kind: Struct}
	allm := &Record{Kind: Message}
	for i, p := range Primitives {
		all.Fields = append(all.Fields, Field{Name: fmt.Sprintf("f%d", i), Type: P(p)})
		allm.Fields = append(allm.Fields, Field{Name: fmt.Sprintf("f%d", i), Index: i + 1, Type: P(p)})
	}
	sp("CXAllS", "all-primitives-struct", all)
	sp("CXAllM", "all-primitives-message", allm)
	return out
}

// BatchSchema renders the support definitions followed by the given cases.
func (s *Support) BatchSchema(cases []*Case) *Schema {
	sc := &Schema{Enums: s.Enums}
	sc.Records = append(sc.Records, s.Records...)
	seen := map[*Record]bool{}
	for _, c := range cases {
		sc.Records = append(sc.Records, c.Rec)
		for _, x := range c.Extra {
			if !seen[x] {
				seen[x] = true
				sc.Records = append(sc.Records, x)
			}
		}
	}
	return sc
}
