// Package schema is the harness's own model of a Bebop schema (independent of bebop.File):
// an AST, a renderer to schema text, and the enumerators that produce the bounded spaces
// of type shapes / record cases the codec checks explore.
package schema

import (
	"fmt"
	"strings"
)

type TKind int

const (
	Prim TKind = iota
	EnumT
	RecT
	ArrayT
	MapT
)

// Type is a field type expression.
type Type struct {
	Kind TKind
	Name string // primitive name, enum name or record name
	Elem *Type  // array element / map value
	Key  string // map key (primitive name)
	Enum *Enum  // resolved for EnumT
	Rec  *Record
}

func P(name string) *Type           { return &Type{Kind: Prim, Name: name} }
func A(elem *Type) *Type            { return &Type{Kind: ArrayT, Elem: elem} }
func M(key string, val *Type) *Type { return &Type{Kind: MapT, Key: key, Elem: val} }
func E(e *Enum) *Type               { return &Type{Kind: EnumT, Name: e.Name, Enum: e} }
func R(r *Record) *Type             { return &Type{Kind: RecT, Name: r.Name, Rec: r} }

// String renders the type in bebop syntax (array[T] / map[K, V] spelling).
func (t *Type) String() string {
	switch t.Kind {
	case ArrayT:
		return "array[" + t.Elem.String() + "]"
	case MapT:
		return "map[" + t.Key + ", " + t.Elem.String() + "]"
	}
	return t.Name
}

// Depth is the container nesting depth.
func (t *Type) Depth() int {
	if t.Kind == ArrayT || t.Kind == MapT {
		return 1 + t.Elem.Depth()
	}
	return 0
}

// Class is a coarse shape class used in violation signatures (never generated identifiers).
func (t *Type) Class() string {
	switch t.Kind {
	case ArrayT:
		return "array[" + t.Elem.Class() + "]"
	case MapT:
		return "map[" + t.Key + "," + t.Elem.Class() + "]"
	case EnumT:
		b := t.Enum.Base
		if b == "" {
			b = "default"
		}
		return "enum:" + b
	case RecT:
		return t.Rec.ClassName()
	}
	return t.Name
}

type RecKind int

const (
	Struct RecKind = iota
	Message
	Union
)

func (k RecKind) String() string { return [...]string{"struct", "message", "union"}[k] }

type Field struct {
	Name       string
	Index      int // message index
	Type       *Type
	Deprecated bool
	Tag        string // rendered as a //[tag(...)] comment above the field
}

type Branch struct {
	Disc int
	Rec  *Record // inline struct or message
	Dep  bool    // the branch carries [deprecated("...")] (a union branch stays on the wire; only message fields are dropped)
}

type Record struct {
	Kind     RecKind
	Name     string
	ReadOnly bool
	OpCode   string // text inside [opcode(...)], "" if none
	Fields   []Field
	Branches []Branch
	Support  bool   // shared support definition, not a case under test
	Label    string // class label for support records (signatures)
	Inline   bool   // defined inline in a union
}

func (r *Record) ClassName() string {
	if r.Label != "" {
		return r.Label
	}
	s := r.Kind.String()
	if r.ReadOnly {
		s = "readonly-" + s
	}
	return s
}

type Member struct {
	Name  string
	Text  string // literal / expression text
	Value uint64 // value as bits of the base type (reference evaluation)
}

type Enum struct {
	Name    string
	Base    string // "" = default (uint32)
	Flags   bool
	Members []Member
}

func (e *Enum) BaseType() string {
	if e.Base == "" {
		return "uint32"
	}
	return e.Base
}

// Schema is an ordered list of definitions.
type Schema struct {
	Enums   []*Enum
	Records []*Record // top-level records in source order
}

func (s *Schema) Render() string {
	var b strings.Builder
	for _, e := range s.Enums {
		renderEnum(&b, e)
	}
	for _, r := range s.Records {
		RenderRecord(&b, r, "")
	}
	return b.String()
}

func renderEnum(b *strings.Builder, e *Enum) {
	if e.Flags {
		b.WriteString("[flags]\n")
	}
	if e.Base != "" {
		fmt.Fprintf(b, "enum %s : %s {\n", e.Name, e.Base)
	} else {
		fmt.Fprintf(b, "enum %s {\n", e.Name)
	}
	for _, m := range e.Members {
		fmt.Fprintf(b, "\t%s = %s;\n", m.Name, m.Text)
	}
	b.WriteString("}\n")
}

func RenderRecord(b *strings.Builder, r *Record, ind string) {
	if r.OpCode != "" && !r.Inline {
		fmt.Fprintf(b, "%s[opcode(%s)]\n", ind, r.OpCode)
	}
	switch r.Kind {
	case Struct:
		ro := ""
		if r.ReadOnly {
			ro = "readonly "
		}
		fmt.Fprintf(b, "%s%sstruct %s {\n", indIf(r.Inline, ind), ro, r.Name)
		for _, f := range r.Fields {
			if f.Tag != "" {
				fmt.Fprintf(b, "%s\t//[tag(%s)]\n", ind, f.Tag)
			}
			fmt.Fprintf(b, "%s\t%s %s;\n", ind, f.Type.String(), f.Name)
		}
		fmt.Fprintf(b, "%s}\n", ind)
	case Message:
		fmt.Fprintf(b, "%smessage %s {\n", indIf(r.Inline, ind), r.Name)
		for _, f := range r.Fields {
			if f.Tag != "" {
				fmt.Fprintf(b, "%s\t//[tag(%s)]\n", ind, f.Tag)
			}
			if f.Deprecated {
				// an empty reason is still a deprecation; a trailing comment must not carry it over to the next field
				reason := "old"
				if len(r.Name)%2 == 1 {
					reason = ""
				}
				fmt.Fprintf(b, "%s\t[deprecated(\"%s\")]\n", ind, reason)
				fmt.Fprintf(b, "%s\t%d -> %s %s; // no longer sent\n", ind, f.Index, f.Type.String(), f.Name)
				continue
			}
			fmt.Fprintf(b, "%s\t%d -> %s %s;\n", ind, f.Index, f.Type.String(), f.Name)
		}
		fmt.Fprintf(b, "%s}\n", ind)
	case Union:
		fmt.Fprintf(b, "%sunion %s {\n", ind, r.Name)
		for _, br := range r.Branches {
			if br.Dep {
				fmt.Fprintf(b, "%s\t[deprecated(\"branch on its way out\")]\n", ind)
			}
			fmt.Fprintf(b, "%s\t%d -> ", ind, br.Disc)
			RenderRecord(b, br.Rec, ind+"\t")
		}
		fmt.Fprintf(b, "%s}\n", ind)
	}
}

func indIf(inline bool, ind string) string {
	if inline {
		return ""
	}
	return ind
}

// AllRecords lists r and, for unions, its inline branch records.
func (r *Record) AllRecords() []*Record {
	out := []*Record{r}
	for _, b := range r.Branches {
		out = append(out, b.Rec)
	}
	return out
}

var Primitives = []string{"bool", "byte", "uint8", "uint16", "int16", "uint32", "int32", "uint64", "int64", "float32", "float64", "string", "guid", "date"}

var FixedSize = map[string]int{"bool": 1, "byte": 1, "uint8": 1, "uint16": 2, "int16": 2, "uint32": 4, "int32": 4, "uint64": 8, "int64": 8, "float32": 4, "float64": 8, "guid": 16, "date": 8}
