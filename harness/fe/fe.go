// Package fe is the front end of the codec harness: it renders enumerated cases into batch
// schemas, runs the real ReadFile + Generate from the working tree under an option set,
// type-checks the output in-process, isolates cases whose generated code does not build
// (those are C12 results, not codec cases) and emits the surviving batches as Go packages.
package fe

import (
	"bytes"
	"fmt"
	"go/ast"
	"go/parser"
	"go/token"
	"os"
	"path/filepath"
	"sort"
	"strings"
	"sync"

	"github.com/200sc/bebop"
	"verif/driver"
	"verif/schema"
	"verif/tc"
	"verif/vlib"
)

// Dropped records a case that could not be carried into the compiled harness.
type Dropped struct {
	CaseID   string `json:"case"`
	Class    string `json:"class"`
	Opt      int    `json:"opt"`
	Phase    string `json:"phase"` // readfile | generate | typecheck | interaction
	Category string `json:"category"`
	Msg      string `json:"msg"`
	Schema   string `json:"schema,omitempty"`
}

// Gen runs ReadFile+Generate on schema text; a panic is reported as an error of phase "panic".
func Gen(text string, opt int, pkg string) (out []byte, phase string, err error) {
	defer func() {
		if r := recover(); r != nil {
			phase, err = "panic", fmt.Errorf("panic: %v", r)
		}
	}()
	f, _, err := bebop.ReadFile(strings.NewReader(text))
	if err != nil {
		return nil, "readfile", err
	}
	var buf bytes.Buffer
	st := driver.Settings(opt)
	st.PackageName = pkg
	if err := f.Generate(&buf, st); err != nil {
		return nil, "generate", err
	}
	return buf.Bytes(), "", nil
}

// GenFiles materialises the given schema files in a scratch directory and generates root with the option set, in combined
// (or separate) import mode.
func GenFiles(files map[string]string, root string, opt int, pkg string, combined bool) (out []byte, phase string, err error) {
	defer func() {
		if r := recover(); r != nil {
			phase, err = "panic", fmt.Errorf("panic: %v", r)
		}
	}()
	dir, derr := os.MkdirTemp("", "verif-files-")
	if derr != nil {
		vlib.Fatal("%v", derr)
	}
	defer os.RemoveAll(dir)
	for n, t := range files {
		p := filepath.Join(dir, n)
		os.MkdirAll(filepath.Dir(p), 0o755)
		if werr := os.WriteFile(p, []byte(t), 0o644); werr != nil {
			vlib.Fatal("%v", werr)
		}
	}
	f, _, err := bebop.ReadFile(strings.NewReader(files[root]))
	if err != nil {
		return nil, "readfile", err
	}
	f.FileName = filepath.Join(dir, root)
	st := driver.Settings(opt)
	st.PackageName = pkg
	st.ImportGenerationMode = bebop.ImportGenerationModeSeparate
	if combined {
		st.ImportGenerationMode = bebop.ImportGenerationModeCombined
	}
	var buf bytes.Buffer
	if err := f.Generate(&buf, st); err != nil {
		return nil, "generate", err
	}
	return buf.Bytes(), "", nil
}

// Batch is one generated package.
type Batch struct {
	Opt   int
	Index int
	Cases []*schema.Case
	Src   []byte
	Names map[string]string // case ID -> Go type name
	// separately generated imported package (import batch only): source and directory below the option directory
	DepSrc []byte
	DepDir string
}

func (b *Batch) PkgName() string { return fmt.Sprintf("o%db%d", b.Opt, b.Index) }

// recordNames reads the `var _ bebop.Record = &X{}` assertions so naming rules are not re-implemented.
func recordNames(src []byte) ([]string, error) {
	fset := token.NewFileSet()
	f, err := parser.ParseFile(fset, "gen.go", src, parser.SkipObjectResolution)
	if err != nil {
		return nil, err
	}
	var out []string
	for _, d := range f.Decls {
		gd, ok := d.(*ast.GenDecl)
		if !ok || gd.Tok != token.VAR {
			continue
		}
		for _, sp := range gd.Specs {
			vs := sp.(*ast.ValueSpec)
			if len(vs.Names) != 1 || vs.Names[0].Name != "_" || len(vs.Values) != 1 {
				continue
			}
			ue, ok := vs.Values[0].(*ast.UnaryExpr)
			if !ok {
				continue
			}
			cl, ok := ue.X.(*ast.CompositeLit)
			if !ok {
				continue
			}
			if id, ok := cl.Type.(*ast.Ident); ok {
				out = append(out, id.Name)
			}
		}
	}
	return out, nil
}

// BuildBatches generates and filters all batches for one option set.
// When atomic is set the cases depend on each other (they are generated as one batch and never isolated).
func BuildBatches(sup *schema.Support, cases []*schema.Case, opt int, chk *tc.Checker, batchSize int, atomic bool, firstIndex int) ([]*Batch, []Dropped) {
	var mu sync.Mutex
	var dropped []Dropped
	drop := func(d Dropped) {
		mu.Lock()
		dropped = append(dropped, d)
		mu.Unlock()
	}
	nb := (len(cases) + batchSize - 1) / batchSize
	batches := make([]*Batch, nb)
	vlib.ParallelFor(nb, func(bi int) {
		lo, hi := bi*batchSize, (bi+1)*batchSize
		if hi > len(cases) {
			hi = len(cases)
		}
		cs := cases[lo:hi]
		b := &Batch{Opt: opt, Index: firstIndex + bi}
		try := func(cs []*schema.Case) (src []byte, phase, cat, msg string) {
			text := sup.BatchSchema(cs).Render()
			out, ph, err := Gen(text, opt, b.PkgName())
			if err != nil {
				return nil, ph, "rejected", err.Error()
			}
			res := chk.Check("gen.go", out)
			if res.ParseErr != nil {
				return nil, "typecheck", "syntax", res.ParseErr.Error()
			}
			if len(res.Errs) > 0 {
				return nil, "typecheck", tc.Category(res.Errs[0]), tc.ErrLine(res.Errs[0])
			}
			return out, "", "", ""
		}
		src, phase, cat0, msg0 := try(cs)
		if phase != "" && atomic {
			for _, c := range cs {
				drop(Dropped{CaseID: c.ID, Class: c.Class, Opt: opt, Phase: phase, Category: cat0, Msg: msg0})
			}
			batches[bi] = nil
			return
		}
		if phase != "" {
			// isolate: each case alone with the support definitions
			var ok []*schema.Case
			for _, c := range cs {
				_, ph, cat, msg := try([]*schema.Case{c})
				if ph != "" {
					drop(Dropped{CaseID: c.ID, Class: c.Class, Opt: opt, Phase: ph, Category: cat, Msg: msg, Schema: renderCase(c)})
					continue
				}
				ok = append(ok, c)
			}
			cs = ok
			if len(cs) == 0 {
				batches[bi] = nil
				return
			}
			var cat, msg string
			src, phase, cat, msg = try(cs)
			if phase != "" {
				for _, c := range cs {
					drop(Dropped{CaseID: c.ID, Class: c.Class, Opt: opt, Phase: "interaction", Category: cat, Msg: msg})
				}
				batches[bi] = nil
				return
			}
		}
		names, err := recordNames(src)
		if err != nil {
			vlib.Fatal("cannot re-parse generated source: %v", err)
		}
		byLower := map[string]string{}
		for _, n := range names {
			byLower[strings.ToLower(n)] = n
		}
		b.Names = map[string]string{}
		for _, c := range cs {
			n, ok := byLower[strings.ToLower(c.Rec.Name)]
			if !ok {
				vlib.Fatal("generated source has no record assertion for case %s", c.ID)
			}
			b.Names[c.ID] = n
		}
		b.Cases = cs
		b.Src = src
		batches[bi] = b
	})
	var out []*Batch
	for _, b := range batches {
		if b != nil {
			out = append(out, b)
		}
	}
	sort.Slice(dropped, func(i, j int) bool { return dropped[i].CaseID < dropped[j].CaseID })
	return out, dropped
}

// BuildImportBatch generates the import cases in separate import mode: dep.bop into its own package (the importer's
// option set without PrivateDefinitions, the configuration the generator documents), the importing file into the batch
// package. modPrefix is the import path under which WritePackage's root will be visible (".../gen").
func BuildImportBatch(is *schema.ImportSet, opt int, chk *tc.Checker, index int, modPrefix string) (*Batch, []Dropped) {
	b := &Batch{Opt: opt, Index: index, DepDir: "dep"}
	depPath := fmt.Sprintf("%s/o%d/dep", modPrefix, opt)
	dropAll := func(phase, cat, msg string) (*Batch, []Dropped) {
		var d []Dropped
		for _, c := range is.Cases {
			d = append(d, Dropped{CaseID: c.ID, Class: c.Class, Opt: opt, Phase: phase, Category: cat, Msg: msg})
		}
		return nil, d
	}
	depText, mainText := is.Render(depPath, "dep.bop")
	dir, err := os.MkdirTemp("", "verif-imp-")
	if err != nil {
		vlib.Fatal("%v", err)
	}
	defer os.RemoveAll(dir)
	if err := os.WriteFile(filepath.Join(dir, "dep.bop"), []byte(depText), 0o644); err != nil {
		vlib.Fatal("%v", err)
	}
	gen := func(text, fileName string, st bebop.GenerateSettings) (out []byte, phase string, err error) {
		defer func() {
			if r := recover(); r != nil {
				phase, err = "panic", fmt.Errorf("panic: %v", r)
			}
		}()
		f, _, err := bebop.ReadFile(strings.NewReader(text))
		if err != nil {
			return nil, "readfile", err
		}
		f.FileName = fileName
		var buf bytes.Buffer
		if err := f.Generate(&buf, st); err != nil {
			return nil, "generate", err
		}
		return buf.Bytes(), "", nil
	}
	dst := driver.Settings(opt &^ driver.OptPrivate)
	depSrc, ph, err := gen(depText, filepath.Join(dir, "dep.bop"), dst)
	if err != nil {
		return dropAll("import-dep-"+ph, "rejected", err.Error())
	}
	dres := chk.Check("dep.go", depSrc)
	if !dres.OK() {
		msg := "imported package does not type-check"
		if len(dres.Errs) > 0 {
			msg = tc.ErrLine(dres.Errs[0])
		}
		return dropAll("import-dep-typecheck", "typecheck", msg)
	}
	chk.AddPackage(depPath, dres.Pkg)
	mst := driver.Settings(opt)
	mst.PackageName = b.PkgName()
	mst.ImportGenerationMode = bebop.ImportGenerationModeSeparate
	// build generates and type-checks the importing file with the given cases only
	build := func(cases []*schema.Case) (src []byte, phase, cat, msg string) {
		sub := *is
		sub.Cases = cases
		_, text := sub.Render(depPath, "dep.bop")
		src, ph, err := gen(text, filepath.Join(dir, "main.bop"), mst)
		if err != nil {
			return nil, "import-" + ph, "rejected", err.Error()
		}
		res := chk.Check("gen.go", src)
		if !res.OK() {
			cat, msg := "syntax", ""
			if res.ParseErr != nil {
				msg = res.ParseErr.Error()
			} else {
				cat, msg = tc.Category(res.Errs[0]), tc.ErrLine(res.Errs[0])
			}
			return nil, "import-typecheck", cat, msg
		}
		return src, "", "", ""
	}
	_ = mainText
	src, ph, cat, msg := build(is.Cases)
	var droppedCases []Dropped
	if src == nil {
		// some case does not generate or compile: find those cases by halving, keep the rest
		var good []*schema.Case
		var rec func(cs []*schema.Case)
		rec = func(cs []*schema.Case) {
			if len(cs) == 0 {
				return
			}
			if s, p, c, m := build(cs); s != nil {
				good = append(good, cs...)
			} else if len(cs) == 1 {
				droppedCases = append(droppedCases, Dropped{CaseID: cs[0].ID, Class: cs[0].Class, Opt: opt, Phase: p, Category: c, Msg: m})
			} else {
				rec(cs[:len(cs)/2])
				rec(cs[len(cs)/2:])
			}
		}
		rec(is.Cases)
		if len(good) == 0 {
			return dropAll(ph, cat, msg)
		}
		sub := *is
		sub.Cases = good
		is = &sub
		if src, ph, cat, msg = build(good); src == nil {
			return dropAll(ph, cat, msg)
		}
	}
	names, err := recordNames(src)
	if err != nil {
		vlib.Fatal("cannot re-parse generated source: %v", err)
	}
	byLower := map[string]string{}
	for _, n := range names {
		byLower[strings.ToLower(n)] = n
	}
	b.Names = map[string]string{}
	for _, c := range is.Cases {
		n, ok := byLower[strings.ToLower(c.Rec.Name)]
		if !ok {
			vlib.Fatal("generated source has no record assertion for import case %s", c.ID)
		}
		b.Names[c.ID] = n
	}
	b.Cases, b.Src, b.DepSrc = is.Cases, src, depSrc
	return b, droppedCases
}

func renderCase(c *schema.Case) string {
	var sb strings.Builder
	schema.RenderRecord(&sb, c.Rec, "")
	return sb.String()
}

// WritePackage stores the batch as a Go package below root (root/o<opt>/b<k>/).
func (b *Batch) WritePackage(root string) (importSuffix string, err error) {
	dir := filepath.Join(root, fmt.Sprintf("o%d", b.Opt), fmt.Sprintf("b%d", b.Index))
	if err := os.MkdirAll(dir, 0o755); err != nil {
		return "", err
	}
	if err := os.WriteFile(filepath.Join(dir, "gen.go"), b.Src, 0o644); err != nil {
		return "", err
	}
	if b.DepSrc != nil {
		ddir := filepath.Join(root, fmt.Sprintf("o%d", b.Opt), b.DepDir)
		if err := os.MkdirAll(ddir, 0o755); err != nil {
			return "", err
		}
		if err := os.WriteFile(filepath.Join(ddir, "gen.go"), b.DepSrc, 0o644); err != nil {
			return "", err
		}
	}
	var rb strings.Builder
	fmt.Fprintf(&rb, "package %s\n\nimport \"github.com/200sc/bebop\"\n\n", b.PkgName())
	rb.WriteString("// Registry maps case IDs to constructors of the generated record types.\n")
	rb.WriteString("func Registry() map[string]func() bebop.Record {\n\treturn map[string]func() bebop.Record{\n")
	ids := make([]string, 0, len(b.Names))
	for id := range b.Names {
		ids = append(ids, id)
	}
	sort.Strings(ids)
	for _, id := range ids {
		fmt.Fprintf(&rb, "\t\t%q: func() bebop.Record { return &%s{} },\n", id, b.Names[id])
	}
	rb.WriteString("\t}\n}\n")
	if err := os.WriteFile(filepath.Join(dir, "reg.go"), []byte(rb.String()), 0o644); err != nil {
		return "", err
	}
	return fmt.Sprintf("o%d/b%d", b.Opt, b.Index), nil
}
