package main

import (
	"bytes"
	"context"
	"errors"
	"fmt"
	"os"
	"os/exec"
	"path/filepath"
	"sort"
	"strconv"
	"strings"
	"sync/atomic"
	"syscall"
	"time"
)

type fault struct {
	K    int    `json:"k"`
	Kind string `json:"kind"`
}

// opRec is one line of the seam's log.
type opRec struct {
	K     int
	Op    string
	Rel   string // path relative to the run's scratch directory
	Fault string // "-" or the injected kind ("NA:<kind>" if the kind does not apply to this op)
	Rel2  string // second path (rename, link)
}

type result struct {
	Exit     int
	Killed   bool // died by signal
	Signal   string
	TimedOut bool
	Output   string
	After    map[string]*string // target -> content, nil when absent
	Ops      []opRec
	Extra    []string // other files left in the scratch directory (normalised), for information
	Millis   int64
}

func (r *result) failed() bool { return r.Exit != 0 || r.Killed }

func (r *result) status() string {
	switch {
	case r.TimedOut:
		return "timeout"
	case r.Killed:
		return "killed(" + r.Signal + ")"
	}
	return "exit " + strconv.Itoa(r.Exit)
}

type runner struct {
	work    string // /verif/.cache/work/c19-<pid>
	bins    map[string]string
	seq     atomic.Int64
	runs    atomic.Int64
	timeout time.Duration
}

func faultEnv(fs []fault) (at, kind string) {
	var a, k []string
	for _, f := range fs {
		a = append(a, strconv.Itoa(f.K))
		k = append(k, f.Kind)
	}
	return strings.Join(a, ","), strings.Join(k, ",")
}

// run executes the scenario once, in its own scratch directory, with the given faults.
// Errors are harness errors (the scratch directory could not be prepared, the seam log is unreadable).
func (rn *runner) run(sc *scenario, faults []fault) (*result, error) {
	rn.runs.Add(1)
	dir := filepath.Join(rn.work, "runs", strconv.FormatInt(rn.seq.Add(1), 10))
	fsdir := filepath.Join(dir, "fs")
	defer os.RemoveAll(dir)
	if err := os.MkdirAll(filepath.Join(fsdir, ".tmp"), 0o755); err != nil {
		return nil, err
	}
	for _, d := range sc.Dirs {
		if err := os.MkdirAll(filepath.Join(fsdir, d), 0o755); err != nil {
			return nil, err
		}
	}
	for rel, content := range sc.Files {
		p := filepath.Join(fsdir, rel)
		if err := os.MkdirAll(filepath.Dir(p), 0o755); err != nil {
			return nil, err
		}
		if err := os.WriteFile(p, []byte(content), 0o644); err != nil {
			return nil, err
		}
	}
	for link, target := range sc.Symlinks {
		lp := filepath.Join(fsdir, link)
		if err := os.MkdirAll(filepath.Dir(lp), 0o755); err != nil {
			return nil, err
		}
		rel, err := filepath.Rel(filepath.Dir(lp), filepath.Join(fsdir, target))
		if err != nil {
			return nil, err
		}
		if err := os.Symlink(rel, lp); err != nil {
			return nil, err
		}
	}
	for link, target := range sc.Hardlinks {
		lp := filepath.Join(fsdir, link)
		if err := os.MkdirAll(filepath.Dir(lp), 0o755); err != nil {
			return nil, err
		}
		if err := os.Link(filepath.Join(fsdir, target), lp); err != nil {
			return nil, err
		}
	}
	args := make([]string, len(sc.Args))
	for i, a := range sc.Args {
		args[i] = strings.ReplaceAll(a, "{FS}", fsdir)
	}
	logPath := filepath.Join(dir, "ops.log")
	ctx, cancel := context.WithTimeout(context.Background(), rn.timeout)
	defer cancel()
	cmd := exec.CommandContext(ctx, rn.bins[sc.binary()], args...)
	cmd.Dir = fsdir
	cmd.WaitDelay = 2 * time.Second
	env := []string{}
	for _, e := range os.Environ() {
		if strings.HasPrefix(e, "VERIF_FAULT_") || strings.HasPrefix(e, "TMPDIR=") {
			continue
		}
		env = append(env, e)
	}
	env = append(env, "VERIF_FAULT_DIR="+fsdir, "VERIF_FAULT_LOG="+logPath, "TMPDIR="+filepath.Join(fsdir, ".tmp"))
	if len(faults) > 0 {
		at, kind := faultEnv(faults)
		env = append(env, "VERIF_FAULT_AT="+at, "VERIF_FAULT_KIND="+kind)
	}
	cmd.Env = env
	var out bytes.Buffer
	cmd.Stdout = &out
	cmd.Stderr = &out
	start := time.Now()
	err := cmd.Run()
	res := &result{After: map[string]*string{}, Millis: time.Since(start).Milliseconds()}
	res.Output = out.String()
	if ctx.Err() == context.DeadlineExceeded {
		res.TimedOut = true
	}
	if err != nil {
		var ee *exec.ExitError
		if errors.As(err, &ee) {
			if ws, ok := ee.Sys().(syscall.WaitStatus); ok && ws.Signaled() {
				res.Killed = true
				res.Signal = ws.Signal().String()
			} else {
				res.Exit = ee.ExitCode()
			}
		} else if !res.TimedOut {
			return nil, fmt.Errorf("cannot execute %s: %w", rn.bins[sc.binary()], err)
		}
	}
	for _, t := range sc.Targets {
		b, err := os.ReadFile(filepath.Join(fsdir, t))
		switch {
		case err == nil:
			s := string(b)
			res.After[t] = &s
		case os.IsNotExist(err):
			res.After[t] = nil
		default:
			// e.g. the target became a directory: record as a recognisable non-content
			s := "<unreadable: " + err.Error() + ">"
			res.After[t] = &s
		}
	}
	// seam log
	if b, err := os.ReadFile(logPath); err == nil {
		for _, line := range strings.Split(strings.TrimRight(string(b), "\n"), "\n") {
			if line == "" {
				continue
			}
			f := strings.Split(line, "\t")
			if len(f) != 5 {
				return nil, fmt.Errorf("malformed seam log line %q", line)
			}
			k, err := strconv.Atoi(f[0])
			if err != nil {
				return nil, fmt.Errorf("malformed seam log line %q", line)
			}
			res.Ops = append(res.Ops, opRec{K: k, Op: f[1], Rel: relTo(fsdir, f[2]), Fault: f[3], Rel2: relTo(fsdir, f[4])})
		}
	} else if !os.IsNotExist(err) {
		return nil, err
	}
	for i, o := range res.Ops {
		if o.K != i+1 {
			return nil, fmt.Errorf("seam log not numbered consecutively at line %d (%d)", i+1, o.K)
		}
	}
	// leftovers (temporary files and the like)
	_ = filepath.Walk(fsdir, func(p string, info os.FileInfo, err error) error {
		if err != nil || info.IsDir() {
			return nil
		}
		rel := relTo(fsdir, p)
		if _, ok := sc.Files[rel]; ok || sc.isTarget(rel) {
			return nil
		}
		res.Extra = append(res.Extra, sc.normPath(rel))
		return nil
	})
	sort.Strings(res.Extra)
	return res, nil
}

func relTo(base, p string) string {
	if p == "" {
		return ""
	}
	if p == base {
		return "."
	}
	if strings.HasPrefix(p, base+"/") {
		return p[len(base)+1:]
	}
	return p
}
