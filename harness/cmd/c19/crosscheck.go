package main

import (
	"bytes"
	"context"
	"errors"
	"fmt"
	"os"
	"os/exec"
	"path/filepath"
	"strings"
)

// crossCheck is a sanity check of the seam, not part of the verdict: for bebopfmt -w on one valid
// file (exactly one write to the target) the same errno is injected twice - by the os seam in the
// overlaid binary, and by the kernel-side `strace -e inject` into the write(2) of a binary built
// WITHOUT the overlay - and exit status and resulting file must agree. strace's counters are per
// thread, so only this single-write case is compared. Skipped when strace is unusable here.
func crossCheck(rn *runner, preps []*prepared) []map[string]any {
	var out []map[string]any
	skip := func(why string) []map[string]any {
		return append(out, map[string]any{"status": "skipped", "reason": why})
	}
	strace, err := exec.LookPath("strace")
	if err != nil {
		return skip("strace not installed")
	}
	var p *prepared
	for _, q := range preps {
		if q.sc.Tool == "bebopfmt-file" && q.sc.Input == "valid" {
			p = q
		}
	}
	if p == nil {
		return skip("no bebopfmt-file|valid scenario")
	}
	writeK := 0
	for _, o := range p.dry.Ops {
		if o.Op == "write" && p.sc.role(o.Rel) == "target" {
			if writeK != 0 {
				return skip("more than one write to the target")
			}
			writeK = o.K
		}
	}
	if writeK == 0 {
		return skip("the tool no longer writes to the target file itself (e.g. it writes a temporary file)")
	}
	for _, c := range []struct{ kind, errno string }{{"enospc", "ENOSPC"}, {"eio", "EIO"}} {
		seam, err := rn.run(p.sc, []fault{{writeK, c.kind}})
		if err != nil {
			return skip("seam run failed: " + err.Error())
		}
		dir := filepath.Join(rn.work, "runs", "strace-"+c.kind)
		fsdir := filepath.Join(dir, "fs")
		if err := os.MkdirAll(fsdir, 0o755); err != nil {
			return skip(err.Error())
		}
		target := filepath.Join(fsdir, "file.bop")
		if err := os.WriteFile(target, []byte(p.sc.Files["file.bop"]), 0o644); err != nil {
			return skip(err.Error())
		}
		trace := filepath.Join(dir, "trace.txt")
		ctx, cancel := context.WithTimeout(context.Background(), rn.timeout)
		cmd := exec.CommandContext(ctx, strace, "-f", "-o", trace, "-P", target, "-e", "trace=write",
			"-e", "inject=write:error="+c.errno+":when=1", rn.bins["bebopfmt-plain"], "-w", target)
		cmd.Dir = fsdir
		var buf bytes.Buffer
		cmd.Stdout, cmd.Stderr = &buf, &buf
		rerr := cmd.Run()
		cancel()
		rn.runs.Add(1)
		exit := 0
		var ee *exec.ExitError
		if errors.As(rerr, &ee) {
			exit = ee.ExitCode()
		} else if rerr != nil {
			_ = os.RemoveAll(dir)
			return skip("strace could not be run: " + rerr.Error())
		}
		tb, _ := os.ReadFile(trace)
		after, aerr := os.ReadFile(target)
		_ = os.RemoveAll(dir)
		if n := strings.Count(string(tb), "(INJECTED)"); n != 1 {
			return skip(fmt.Sprintf("strace injected %d times (ptrace unavailable?): %s", n, firstLine(buf.String())))
		}
		rec := map[string]any{"fault": c.kind + " at the write to the target", "seam": seam.status(), "strace": fmt.Sprintf("exit %d", exit)}
		seamAfter := seam.After["file.bop"]
		same := seam.status() == fmt.Sprintf("exit %d", exit) && ((seamAfter == nil) == (aerr != nil)) && (seamAfter == nil || *seamAfter == string(after))
		rec["seam_target"] = describe(seamAfter)
		if aerr == nil {
			s := string(after)
			rec["strace_target"] = describe(&s)
		} else {
			rec["strace_target"] = "absent"
		}
		if !same {
			rec["status"] = "DISAGREE"
			out = append(out, rec)
			fatal("seam cross-check: os seam and strace injection disagree: %v", rec)
		}
		rec["status"] = "agree"
		out = append(out, rec)
	}
	return out
}
