package main

import (
	"fmt"
	"reflect"
	"sort"
	"strings"

	"github.com/200sc/bebop"
	"verif/vlib"
)

// The model: every target file is in one of these states after a run, relative to its content
// before the run (prior) and the complete output of the fault-free run (expected).
const (
	stUnchanged = "unchanged"    // byte-equal to the prior state (absent stays absent)
	stComplete  = "complete-new" // byte-equal to the complete expected output
	stAbsent    = "removed"      // existed before, gone now
	stEmpty     = "truncated"    // zero bytes
	stPartial   = "partial"      // a proper, non-empty prefix of the expected output
	stOther     = "corrupted"    // anything else
)

func classify(prior, expected, after *string) string {
	switch {
	case prior == nil && after == nil:
		return stUnchanged
	case prior != nil && after != nil && *prior == *after:
		return stUnchanged
	case expected != nil && after != nil && *expected == *after:
		return stComplete
	case after == nil:
		return stAbsent
	case *after == "":
		return stEmpty
	case expected != nil && len(*after) < len(*expected) && strings.HasPrefix(*expected, *after):
		return stPartial
	}
	return stOther
}

type violation struct {
	Outcome string // last component of the signature
	Msg     string
}

func isCrash(kind string) bool { return kind == "crash" || kind == "crash-after-torn" }

// judge applies the oracle to one run. expected maps target -> complete new content (absent from
// the map when the tool, run fault-free on that input, produces none). injected are the faults that
// the seam log confirms were injected.
func judge(sc *scenario, expected map[string]string, injected []fault, res *result, leftovers *vlib.Counter) []violation {
	var vs []violation
	add := func(outcome, format string, a ...any) {
		vs = append(vs, violation{outcome, fmt.Sprintf(format, a...)})
	}
	if res.TimedOut {
		add("hang", "the process did not finish within the timeout")
		return vs
	}
	crashed := false
	for _, f := range injected {
		if isCrash(f.Kind) {
			crashed = true
		}
	}
	if res.Killed && !crashed {
		add("died-by-signal", "the process died by signal %s although no crash was injected", res.Signal)
	}
	targets := append([]string{}, sc.Targets...)
	sort.Strings(targets)
	for _, t := range targets {
		var prior, exp *string
		if c, ok := sc.Files[t]; ok {
			prior = &c
		}
		if c, ok := expected[t]; ok {
			exp = &c
		}
		after := res.After[t]
		st := classify(prior, exp, after)
		if res.failed() {
			// Rule 1: a failed run leaves every previously existing target as it was. A target that
			// was completely replaced is tolerated where the failure came later than its rewrite:
			// in directory mode, and after process death (nothing can be undone after the rename).
			if prior == nil {
				if leftovers != nil {
					left := st
					if st == stUnchanged {
						left = "absent"
					}
					leftovers.Add(sc.Tool + "|" + sc.Input + "|" + left)
				}
				continue
			}
			switch st {
			case stUnchanged:
			case stComplete:
				if !sc.dirMode() && !(res.Killed && crashed) {
					add("target-replaced-despite-failure", "%s: %s, yet %s holds the complete new output instead of its previous content", res.status(), firstLine(res.Output), t)
				}
			default:
				add("target-"+st, "%s (%s); %s held %d bytes before the run and is now %s", res.status(), firstLine(res.Output), t, len(*prior), describe(after))
			}
			continue
		}
		// exit status 0: rules 2 and 3 - the target holds the complete expected output; a target for
		// which the tool has no output (an input it must reject) stays as it was.
		switch {
		case exp == nil && st != stUnchanged:
			add("exit0-target-"+st, "exit 0, but %s (an input the tool cannot process) is now %s", t, describe(after))
		case exp != nil && st != stComplete && !(st == stUnchanged && prior != nil && *prior == *exp):
			what := "exit0-target-" + st
			if len(injected) > 0 {
				what = "error-swallowed-target-" + st
			}
			add(what, "exit 0, but %s is %s instead of the complete output (%d bytes) of the fault-free run", t, describe(after), len(*exp))
		}
	}
	return vs
}

// judgeFaultFree adds the rules that only make sense without injected faults: rule 5 (exit status
// vs. input class) and rule 4 (bebopfmt -w preserves the schema).
func judgeFaultFree(sc *scenario, res *result) []violation {
	var vs []violation
	if res.TimedOut {
		return nil
	}
	if sc.AnyOutcome {
		return vs
	}
	if sc.ExpectFail && !res.failed() {
		vs = append(vs, violation{"exit-0-on-unprocessable-input", "the input cannot be processed, yet the exit status is 0 (output: " + firstLine(res.Output) + ")"})
	}
	if !sc.ExpectFail && res.failed() {
		vs = append(vs, violation{"nonzero-exit-on-valid-input", res.status() + " on a valid input: " + firstLine(res.Output)})
	}
	if sc.Tool != "bebopc-go" && !res.failed() {
		targets := append([]string{}, sc.Targets...)
		sort.Strings(targets)
		for _, t := range targets {
			before, ok := sc.Files[t]
			after := res.After[t]
			if !ok || after == nil || before == *after {
				continue
			}
			fb, _, err := bebop.ReadFile(strings.NewReader(before))
			if err != nil {
				continue // was not a schema before; nothing to preserve (rule 5 covers the exit status)
			}
			fa, _, err := bebop.ReadFile(strings.NewReader(*after))
			if err != nil {
				vs = append(vs, violation{"rewritten-file-no-longer-parses", fmt.Sprintf("exit 0; %s parsed before the rewrite, now: %v; new content %q", t, err, vlib.Short(*after, 200))})
				continue
			}
			// the formatter may attach a comment elsewhere, but a //[tag(...)] comment has to stay a tag: generated code
			// depends on it. Compared as a multiset over the whole file.
			if tb, ta := allTags(fb), allTags(fa); tb != ta {
				vs = append(vs, violation{"rewritten-file-loses-tags", fmt.Sprintf("exit 0; the field tags of %s changed with the rewrite: before %s, after %s; new content %q", t, tb, ta, vlib.Short(*after, 300))})
			}
			normalize(&fb)
			normalize(&fa)
			if !reflect.DeepEqual(fb, fa) {
				vs = append(vs, violation{"rewritten-file-schema-differs", fmt.Sprintf("exit 0; %s parses to a different schema after the rewrite: before %+v, after %+v; new content %q", t, fb, fa, vlib.Short(*after, 200))})
			}
		}
	}
	return vs
}

// allTags renders every tag of the file, sorted.
func allTags(f bebop.File) string {
	var l []string
	add := func(fs []bebop.Field) {
		for _, fd := range fs {
			for _, t := range fd.Tags {
				l = append(l, fmt.Sprintf("%s=%q/%v", t.Key, t.Value, t.Boolean))
			}
		}
	}
	msg := func(m bebop.Message) {
		for _, fd := range m.Fields {
			for _, t := range fd.Tags {
				l = append(l, fmt.Sprintf("%s=%q/%v", t.Key, t.Value, t.Boolean))
			}
		}
	}
	for _, st := range f.Structs {
		add(st.Fields)
	}
	for _, m := range f.Messages {
		msg(m)
	}
	for _, u := range f.Unions {
		for _, uf := range u.Fields {
			for _, t := range uf.Tags {
				l = append(l, fmt.Sprintf("%s=%q/%v", t.Key, t.Value, t.Boolean))
			}
			if uf.Struct != nil {
				add(uf.Struct.Fields)
			}
			if uf.Message != nil {
				msg(*uf.Message)
			}
		}
	}
	sort.Strings(l)
	return strings.Join(l, " ")
}

// normalize blanks what the formatter is free to change: comments and the tags derived from them.
func normalize(f *bebop.File) {
	f.FileName = ""
	normStruct := func(s *bebop.Struct) {
		s.Comment = ""
		for i := range s.Fields {
			s.Fields[i].Comment = ""
			s.Fields[i].Tags = nil
		}
	}
	normMessage := func(m *bebop.Message) {
		m.Comment = ""
		for k, fd := range m.Fields {
			fd.Comment = ""
			fd.Tags = nil
			m.Fields[k] = fd
		}
	}
	for i := range f.Structs {
		normStruct(&f.Structs[i])
	}
	for i := range f.Messages {
		normMessage(&f.Messages[i])
	}
	for i := range f.Enums {
		f.Enums[i].Comment = ""
		for j := range f.Enums[i].Options {
			f.Enums[i].Options[j].Comment = ""
		}
	}
	for i := range f.Consts {
		f.Consts[i].Comment = ""
	}
	for i := range f.Unions {
		f.Unions[i].Comment = ""
		for k, uf := range f.Unions[i].Fields {
			uf.Tags = nil
			if uf.Struct != nil {
				normStruct(uf.Struct)
			}
			if uf.Message != nil {
				normMessage(uf.Message)
			}
			f.Unions[i].Fields[k] = uf
		}
	}
}

func describe(s *string) string {
	if s == nil {
		return "absent"
	}
	if *s == "" {
		return "empty (0 bytes)"
	}
	return fmt.Sprintf("%d bytes starting %q", len(*s), vlib.Short(*s, 60))
}

func firstLine(s string) string {
	s = strings.TrimSpace(s)
	// usage text comes first for some errors: prefer the last non-empty line, which carries the error
	lines := strings.Split(s, "\n")
	for i := len(lines) - 1; i >= 0; i-- {
		if strings.TrimSpace(lines[i]) != "" {
			if strings.HasPrefix(lines[0], "panic:") {
				return vlib.Short(lines[0], 160)
			}
			return vlib.Short(strings.TrimSpace(lines[i]), 160)
		}
	}
	return "(no output)"
}
