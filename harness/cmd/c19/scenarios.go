package main

import (
	"bytes"
	"fmt"
	"sort"
	"strings"
	"verif/textgen"

	"github.com/200sc/bebop"
)

// formatFixpoint returns the formatter's output for schema if formatting that output again
// reproduces it (so "already formatted" really is a fixpoint); "" otherwise.
func formatFixpoint(schema string) string {
	var a, b bytes.Buffer
	if err := bebop.Format(strings.NewReader(schema), &a); err != nil {
		return ""
	}
	if err := bebop.Format(bytes.NewReader(a.Bytes()), &b); err != nil || !bytes.Equal(a.Bytes(), b.Bytes()) {
		return ""
	}
	return a.String()
}

// scenario is one word of the alphabet tool x input class x prior state. Everything needed to
// re-create it is in the struct (it is stored verbatim in replay files).
type scenario struct {
	Tool       string            `json:"tool"`        // bebopc-go | bebopfmt-file | bebopfmt-dir
	Input      string            `json:"input_class"` // valid, syntax-error, validation-error, ...
	Prior      string            `json:"prior"`       // absent | existing
	Files      map[string]string `json:"files"`       // relative path -> content, materialised before every run
	Dirs       []string          `json:"dirs"`        // relative directories created (empty) before every run
	Args       []string          `json:"args"`        // {FS} stands for the per-run scratch directory
	Targets    []string          `json:"targets"`     // relative paths the oracle watches
	ExpectFail bool              `json:"expect_fail"` // the fault-free run has to report an error (rule 5)
	RelCwd     bool              `json:"relative_paths"`
	Symlinks   map[string]string `json:"symlinks"`  // relative link path -> relative target, created after Files
	Hardlinks  map[string]string `json:"hardlinks"` // relative link path -> relative existing file (a second name for the same inode)
	NoFaults   bool              `json:"no_faults"`
	AnyOutcome bool              `json:"any_outcome"` // the fault-free run may succeed or fail (platform limits decide); only the file-state rules apply // corpus scenarios: fault-free run only (the formatter is the subject, not the file operations)
}

func (s *scenario) id() string { return s.Tool + "|" + s.Input + "|prior=" + s.Prior }

func (s *scenario) dirMode() bool { return s.Tool == "bebopfmt-dir" }

func (s *scenario) binary() string {
	if s.Tool == "bebopc-go" {
		return "bebopc-go"
	}
	return "bebopfmt"
}

func (s *scenario) isTarget(rel string) bool {
	for _, t := range s.Targets {
		if t == rel {
			return true
		}
	}
	return false
}

const previous = "PREVIOUS CONTENT\n"

// Schemas. The "valid" ones are deliberately not in canonical format, so that a rewrite by
// bebopfmt changes bytes and old and new content can be told apart.
const (
	schemaValid     = "struct A {\n\tint32 x;\n}\nmessage M {\n\t1 -> string s;\n}\n"
	schemaValidRaw  = "struct A {\nint32 x;\n}\nmessage M {\n1 -> string s;\n}\n"
	schemaValidRaw2 = "// a point\nstruct P {\n  float32 x;\n  float32 y;\n}\nenum Color {\n  Red = 1;\n  Blue = 2;\n}\n"
	schemaValidRaw3 = "union U {\n1 -> struct B {\nint64 v;\n}\n2 -> message C {\n1 -> bool b;\n}\n}\n"
	schemaSyntax    = "struct A {\n\tint32 x\n}\n"
	schemaSyntax2   = "message M {\n\t1 -> string s;\n"
	schemaUndefined = "struct A {\n  Foo x;\n}\n"
	schemaDuplicate = "struct A {\n  int32 x;\n}\nstruct A {\n  int32 y;\n}\n"
	schemaImport    = "import \"missing.bop\"\nstruct A {\n\tint32 x;\n}\n"
	schemaTypedEnum = "enum E : uint8 {\n\tA = 1;\n}\n"
	schemaFlagsEnum = "[flags]\nenum F {\n\tA = 1;\n\tB = 2;\n}\n"
	schemaBigger    = "const int32 k = 7;\n/* doc */\nreadonly struct S {\n  guid id;\n  date when;\n  string[] names;\n  map[string, int32] m;\n}\n[opcode(0x12345678)]\nmessage Msg {\n  1 -> S s;\n  [deprecated(\"old\")]\n  2 -> uint16 n;\n}\n"
)

func compileScenario(input, schema, prior string, expectFail bool) *scenario {
	s := &scenario{Tool: "bebopc-go", Input: input, Prior: prior, Files: map[string]string{},
		Args: []string{"-i", "{FS}/in.bop", "-o", "{FS}/out.go"}, Targets: []string{"out.go"}, ExpectFail: expectFail}
	if schema != "" {
		s.Files["in.bop"] = schema
	}
	if prior == "existing" {
		s.Files["out.go"] = previous
	}
	return s
}

func fmtFileScenario(input, schema string, expectFail bool) *scenario {
	s := &scenario{Tool: "bebopfmt-file", Input: input, Prior: "existing", Files: map[string]string{"file.bop": schema},
		Args: []string{"-w", "{FS}/file.bop"}, Targets: []string{"file.bop"}, ExpectFail: expectFail}
	return s
}

func fmtDirScenario(input string, files map[string]string, dirs []string, expectFail bool) *scenario {
	s := &scenario{Tool: "bebopfmt-dir", Input: input, Prior: "existing", Files: map[string]string{}, Dirs: dirs,
		Args: []string{"-w", "{FS}/d"}, ExpectFail: expectFail}
	for n, c := range files {
		s.Files["d/"+n] = c
		s.Targets = append(s.Targets, "d/"+n)
	}
	sort.Strings(s.Targets)
	return s
}

func scenarios(thorough bool) []*scenario {
	var out []*scenario
	for _, prior := range []string{"absent", "existing"} {
		out = append(out,
			compileScenario("valid", schemaValid, prior, false),
			compileScenario("syntax-error", schemaSyntax, prior, true),
			compileScenario("validation-error", schemaUndefined, prior, true),
			compileScenario("missing-import", schemaImport, prior, true),
			compileScenario("unreadable-input/nonexistent", "", prior, true),
		)
		if prior == "existing" {
			// -o is a symbolic link to the previously generated file
			for _, in := range []struct {
				class, schema string
				fail          bool
			}{{"valid", schemaValid, false}, {"validation-error", schemaUndefined, true}} {
				l := compileScenario(in.class+"/output-is-symlink", in.schema, prior, in.fail)
				delete(l.Files, "out.go")
				l.Files["gen/real.go"] = previous
				l.Symlinks = map[string]string{"out.go": "gen/real.go"}
				out = append(out, l)
			}
		}
		if prior == "existing" {
			// -o has a second hard link (link count 2): tools that "preserve links" rewrite such files in place
			for _, in := range []struct {
				class, schema string
				fail          bool
			}{{"valid", schemaValid, false}, {"validation-error", schemaUndefined, true}} {
				l := compileScenario(in.class+"/output-is-hard-linked", in.schema, prior, in.fail)
				l.Hardlinks = map[string]string{"gen/second-name.go": "out.go"}
				out = append(out, l)
			}
		}
		if prior == "existing" {
			// an output name so long (251 bytes) that a temporary name derived from it exceeds NAME_MAX: the run has to fail
			// and leave the target alone - not fall back to rewriting it in place
			long := strings.Repeat("g", 248) + ".go"
			for _, in := range []struct {
				class, schema string
			}{{"valid", schemaValid}} {
				l := compileScenario(in.class+"/output-name-251-bytes", in.schema, prior, false)
				delete(l.Files, "out.go")
				l.Files["gen/"+long] = previous
				l.Args = []string{"-i", "{FS}/in.bop", "-o", "{FS}/gen/" + long}
				l.Targets = []string{"gen/" + long}
				l.AnyOutcome = true
				out = append(out, l)
			}
		}
		d := compileScenario("unreadable-input/directory", "", prior, true)
		d.Dirs = []string{"in.bop"}
		out = append(out, d)
		if thorough {
			out = append(out,
				compileScenario("validation-error/duplicate-name", schemaDuplicate, prior, true),
				compileScenario("valid/bigger-schema", schemaBigger, prior, false),
				compileScenario("syntax-error/unterminated", schemaSyntax2, prior, true),
			)
			r := compileScenario("valid/relative-paths", schemaValid, prior, false)
			r.Args = []string{"-i", "in.bop", "-o", "out.go"}
			r.RelCwd = true
			out = append(out, r)
			r = compileScenario("validation-error/relative-paths", schemaUndefined, prior, true)
			r.Args = []string{"-i", "in.bop", "-o", "./out.go"}
			r.RelCwd = true
			out = append(out, r)
		}
	}

	out = append(out,
		fmtFileScenario("valid", schemaValidRaw, false),
		fmtFileScenario("syntax-error", schemaSyntax, true),
		fmtFileScenario("validation-error", schemaUndefined, false), // parses; the formatter has nothing to report
		fmtFileScenario("formatter-mangled/typed-enum", schemaTypedEnum, false),
		fmtFileScenario("formatter-mangled/flags-enum", schemaFlagsEnum, false),
	)
	// field tags are comments the generator reads: //[tag(...)] directly after the slashes
	out = append(out, fmtFileScenario("valid/with-field-tags", "struct Account {\n//[tag(json:\"id,omitempty\")]\n//[tag(db:\"account_id\")]\nguid id;\n// plain comment\n//[tag(json:\"name\")]\nstring name;\n}\nmessage Event {\n//[tag(json:\"at\")]\n1 -> date at;\n//[tag(boolean)]\n2 -> bool seen;\n}\nunion Either {\n//[tag(kind:\"a\")]\n1 -> struct A {\n//[tag(json:\"x\")]\nint32 x;\n}\n2 -> message B {\n//[tag(json:\"y\")]\n1 -> int32 y;\n}\n}\n", false))
	hl := fmtFileScenario("valid/file-is-hard-linked", schemaValidRaw, false)
	hl.Hardlinks = map[string]string{"elsewhere/second-name.bop": "file.bop"}
	out = append(out, hl)
	// lines longer than any reader buffer (bufio: 4096 bytes, bufio.Scanner: 64 KiB) between definitions
	for _, n := range []int{4096, 70000} {
		long := "struct A {\nint32 x;\n}\n// " + strings.Repeat("c", n) + "\nmessage M {\n1 -> string s;\n}\nenum E {\nOne = 1;\n}\n"
		out = append(out, fmtFileScenario(fmt.Sprintf("valid/comment-line-of-%d-bytes", n), long, false))
	}
	// files larger than one reader buffer (4096 bytes) written compactly, one definition per line: formatting makes them
	// longer, so output position overtakes input position early (in-place tricks on the source buffer break here)
	for _, defs := range []int{60, 120, 1200} {
		text := textgen.CompactLarge(defs)
		out = append(out, fmtFileScenario(fmt.Sprintf("valid/compact-file-of-%d-bytes", len(text)), text, false))
	}
	// files beyond size thresholds a tool might assume (64 KiB, 1 MiB, 4 MiB; 16 MiB in thorough): definitions first and last,
	// short comment lines between them, so that the text cut at ANY offset inside the padding is still a valid schema
	sizes := []int{1 << 16, 1 << 20, 1 << 22}
	if thorough {
		sizes = append(sizes, 1<<24)
	}
	for _, n := range sizes {
		var b strings.Builder
		b.WriteString("enum Kind : uint8 {\nA = 1;\nB = 2;\n}\nstruct Head {\nint32 x;\nKind k;\n}\n")
		line := "// " + strings.Repeat("padding ", 7) + "\n"
		for b.Len() < n+n/16 {
			b.WriteString(line)
		}
		b.WriteString("message Tail {\n1 -> string s;\n2 -> Head h;\n}\nunion U {\n1 -> struct UA {\nint32 a;\n}\n}\nconst int32 last = 7;\n")
		big := fmtFileScenario(fmt.Sprintf("valid/padded-file-of-%d-bytes", b.Len()), b.String(), false)
		big.NoFaults = true
		out = append(out, big)
	}
	if fp := formatFixpoint(schemaValidRaw); fp != "" {
		out = append(out, fmtFileScenario("valid/already-formatted", fp, false))
	}
	u := fmtFileScenario("unreadable-input/nonexistent", "", true)
	u.Files = map[string]string{}
	u.Prior = "absent"
	out = append(out, u)
	if thorough {
		out = append(out,
			fmtFileScenario("valid/bigger-schema", schemaBigger, false),
			fmtFileScenario("valid/union", schemaValidRaw3, false),
			fmtFileScenario("syntax-error/unterminated", schemaSyntax2, true),
			fmtFileScenario("validation-error/duplicate-name", schemaDuplicate, false),
		)
		r := fmtFileScenario("valid/relative-paths", schemaValidRaw, false)
		r.Args = []string{"-w", "file.bop"}
		r.RelCwd = true
		out = append(out, r)
	}

	three := func(a, b, c string) map[string]string { return map[string]string{"a.bop": a, "b.bop": b, "c.bop": c} }
	out = append(out,
		fmtDirScenario("valid", three(schemaValidRaw, schemaValidRaw2, schemaValidRaw3), nil, false),
		fmtDirScenario("syntax-error/in-a", three(schemaSyntax, schemaValidRaw2, schemaValidRaw3), nil, true),
		fmtDirScenario("syntax-error/in-b", three(schemaValidRaw, schemaSyntax, schemaValidRaw3), nil, true),
		fmtDirScenario("syntax-error/in-c", three(schemaValidRaw, schemaValidRaw2, schemaSyntax), nil, true),
		fmtDirScenario("validation-error", three(schemaValidRaw, schemaUndefined, schemaValidRaw3), nil, false),
		fmtDirScenario("formatter-mangled/typed-enum", three(schemaValidRaw, schemaTypedEnum, schemaValidRaw3), nil, false),
	)
	// a directory in a mixed state: some files are formatted already (a second run after a file was added), in every
	// position relative to the ones that still need rewriting
	if f1, f3 := formatFixpoint(schemaValidRaw), formatFixpoint(schemaValidRaw3); f1 != "" && f3 != "" {
		out = append(out,
			fmtDirScenario("valid/formatted-file-first", three(f1, schemaValidRaw2, schemaValidRaw3), nil, false),
			fmtDirScenario("valid/formatted-file-last", three(schemaValidRaw, schemaValidRaw2, f3), nil, false),
			fmtDirScenario("valid/formatted-first-and-last", three(f1, schemaValidRaw2, f3), nil, false),
			fmtDirScenario("valid/only-last-unformatted", map[string]string{"a.bop": f1, "b.bop": f3, "c.bop": schemaValidRaw2}, nil, false),
		)
	}
	// 256 and 257 files that cannot be parsed (an exit status is one byte: a count of failures wraps to 0 at 256)
	for _, n := range []int{256, 257} {
		files := map[string]string{"zz_valid.bop": schemaValidRaw}
		for i := 0; i < n; i++ {
			files[fmt.Sprintf("bad%03d.bop", i)] = schemaSyntax
		}
		many := fmtDirScenario(fmt.Sprintf("syntax-error/in-%d-files", n), files, nil, true)
		many.NoFaults = true
		out = append(out, many)
	}
	// several paths in one run: files (and directories) that share a base name in different directories, a file named
	// twice, a file named directly and through its directory. Whatever the tool remembers between paths must not be
	// keyed by less than the path. Fault-free runs only.
	multi := func(input string, files map[string]string, args []string, expectFail bool) *scenario {
		m := fmtDirScenario(input, files, nil, expectFail)
		m.Args = append([]string{"-w"}, args...)
		m.NoFaults = true
		return m
	}
	for _, form := range []struct {
		name string
		args []string
	}{{"files", []string{"{FS}/d/p/x.bop", "{FS}/d/q/x.bop"}}, {"directories", []string{"{FS}/d/p", "{FS}/d/q"}},
		{"file-then-directory", []string{"{FS}/d/p/x.bop", "{FS}/d/q"}}, {"directory-then-file", []string{"{FS}/d/p", "{FS}/d/q/x.bop"}}} {
		out = append(out,
			multi("valid/same-base-name-"+form.name, map[string]string{"p/x.bop": schemaValidRaw, "q/x.bop": schemaValidRaw2}, form.args, false),
			multi("syntax-error/same-base-name-second-"+form.name, map[string]string{"p/x.bop": schemaValidRaw, "q/x.bop": schemaSyntax}, form.args, true),
			multi("syntax-error/same-base-name-first-"+form.name, map[string]string{"p/x.bop": schemaSyntax2, "q/x.bop": schemaValidRaw3}, form.args, true),
			multi("syntax-error/same-content-name-second-"+form.name, map[string]string{"p/x.bop": schemaValidRaw, "q/x.bop": schemaValidRaw + "struct"}, form.args, true),
		)
	}
	out = append(out,
		multi("valid/same-file-twice", map[string]string{"p/x.bop": schemaValidRaw}, []string{"{FS}/d/p/x.bop", "{FS}/d/p/x.bop"}, false),
		multi("valid/file-and-its-directory", map[string]string{"p/x.bop": schemaValidRaw, "p/y.bop": schemaValidRaw2}, []string{"{FS}/d/p/x.bop", "{FS}/d/p"}, false),
		multi("syntax-error/file-and-its-directory", map[string]string{"p/x.bop": schemaSyntax}, []string{"{FS}/d/p", "{FS}/d/p/x.bop"}, true),
		multi("valid/three-paths", map[string]string{"p/a.bop": schemaValidRaw, "q/a.bop": schemaValidRaw2, "r/a.bop": schemaValidRaw3}, []string{"{FS}/d/r", "{FS}/d/p/a.bop", "{FS}/d/q"}, false),
	)
	ud := fmtDirScenario("unreadable-input/subdirectory", map[string]string{"a.bop": schemaValidRaw, "c.bop": schemaValidRaw3}, []string{"d/b.bop"}, true)
	out = append(out, ud)
	un := fmtDirScenario("unreadable-input/nonexistent", map[string]string{}, nil, true)
	un.Prior = "absent"
	out = append(out, un)
	// formatter corpus: every definition of the C11/C16 alphabet, one file each, in several layouts. bebopfmt -w must
	// exit 0 and every rewritten file must still parse to the same schema (fault-free runs only).
	for _, li := range []int{0, 7, 9, 12, 14, 15, 16} {
		if li >= len(textgen.Layouts) {
			continue
		}
		l := textgen.Layouts[li]
		files := map[string]string{}
		for i, d := range textgen.Alphabet(0) {
			files[fmt.Sprintf("f%02d.bop", i)] = textgen.Render([]*textgen.Def{d}, l)
		}
		c := fmtDirScenario("valid/corpus-"+l.Name, files, nil, false)
		c.NoFaults = true
		out = append(out, c)
	}
	if thorough {
		out = append(out,
			fmtDirScenario("formatter-mangled/flags-enum", three(schemaFlagsEnum, schemaValidRaw2, schemaValidRaw3), nil, false),
			fmtDirScenario("valid/bigger-schema", three(schemaBigger, schemaValidRaw2, schemaValidRaw), nil, false),
		)
	}
	return out
}

// role classifies a path of the op log for signatures and for the determinism comparison.
func (s *scenario) role(rel string) string {
	switch {
	case rel == "":
		return ""
	case s.isTarget(rel):
		return "target"
	}
	if _, ok := s.Files[rel]; ok {
		return "input"
	}
	return "other"
}

// normPath maps a logged path to something stable across runs: scenario files keep their name,
// anything else (temporary files with random names) becomes <dir>/*.
func (s *scenario) normPath(rel string) string {
	if rel == "" || s.isTarget(rel) {
		return rel
	}
	if _, ok := s.Files[rel]; ok {
		return rel
	}
	for _, d := range s.Dirs {
		if d == rel {
			return rel
		}
	}
	i := strings.LastIndex(rel, "/")
	if i < 0 {
		return "*"
	}
	return rel[:i] + "/*"
}
