// C19 — the command-line tools never damage files they cannot process.
//
// Model checking by exhaustive fault/crash-point enumeration: bebopc-go and bebopfmt are built
// from /repo's working tree with a go build -overlay that patches package os (generated at check
// time from the installed GOROOT, see verif/overlay.OSFaultSeam) so that every mutating file
// operation below a scratch directory is numbered and can be made to fail, tear, or kill the
// process. A dry run fixes the number K of operations of a scenario; then every k in 1..K is
// combined with every fault kind that applies to operation k, and a file-state model judges the
// outcome. See NOTES.md.
package main

import (
	"encoding/json"
	"flag"
	"fmt"
	"os"
	"os/exec"
	"path/filepath"
	"sort"
	"strings"
	"sync"
	"time"

	"verif/overlay"
	"verif/vlib"
)

const workers = 16

var workDir string

func fatal(format string, a ...any) {
	if workDir != "" {
		_ = os.RemoveAll(workDir)
	}
	vlib.Fatal(format, a...)
}

// build generates the overlay and builds both CLIs from the repository's current working tree.
func build(work string) *runner {
	ov := &overlay.File{}
	ovDir := filepath.Join(work, "overlay")
	if err := overlay.OSFaultSeam(ov, ovDir); err != nil {
		fatal("%v", err)
	}
	ovPath, err := ov.Write(ovDir)
	if err != nil {
		fatal("cannot write overlay: %v", err)
	}
	harness := filepath.Join(vlib.VerifDir(), "harness")
	extra := []string{}
	if repo := vlib.RepoDir(); repo != "/repo" {
		// the module replace of verif/go.mod points at /repo: build against another tree through -modfile
		b, err := os.ReadFile(filepath.Join(harness, "go.mod"))
		if err != nil {
			fatal("%v", err)
		}
		if !strings.Contains(string(b), "=> /repo") {
			fatal("go.mod of the harness has no replace => /repo to redirect to %s", repo)
		}
		modDir := filepath.Join(work, "mod")
		_ = os.MkdirAll(modDir, 0o755)
		mf := filepath.Join(modDir, "go.mod")
		if err := os.WriteFile(mf, []byte(strings.Replace(string(b), "=> /repo", "=> "+repo, 1)), 0o644); err != nil {
			fatal("%v", err)
		}
		extra = append(extra, "-modfile="+mf)
	}
	rn := &runner{work: work, bins: map[string]string{}, timeout: 60 * time.Second}
	var wg sync.WaitGroup
	errs := make([]string, 3)
	// the third binary is bebopfmt WITHOUT the overlay, for the strace cross-check of the seam
	for i, name := range []string{"bebopc-go", "bebopfmt", "bebopfmt-plain"} {
		out := filepath.Join(work, "bin", name)
		rn.bins[name] = out
		wg.Add(1)
		go func(i int, name, out string) {
			defer wg.Done()
			args := []string{"build"}
			if name == "bebopfmt-plain" {
				name = "bebopfmt"
			} else {
				args = append(args, "-overlay", ovPath)
			}
			args = append(args, extra...)
			args = append(args, "-o", out, "github.com/200sc/bebop/main/"+name)
			cmd := exec.Command("go", args...)
			cmd.Dir = harness
			cmd.Env = os.Environ()
			if b, err := cmd.CombinedOutput(); err != nil {
				errs[i] = fmt.Sprintf("go %s: %v\n%s", strings.Join(args, " "), err, b)
			}
		}(i, name, out)
	}
	wg.Wait()
	for _, e := range errs {
		if e != "" {
			fatal("building the CLIs from %s with the os overlay failed (not a verdict about the property):\n%s", vlib.RepoDir(), e)
		}
	}
	return rn
}

// kindsFor lists the fault kinds that apply to an operation of the seam.
func kindsFor(op string, thorough bool) []string {
	switch {
	case op == "write" || op == "writeat":
		k := []string{"enospc", "eio", "torn", "crash", "crash-after-torn"}
		if thorough {
			k = append(k, "efbig")
		}
		return k
	case op == "close" || op == "sync" || op == "ftruncate" || op == "fchmod":
		return []string{"enospc", "eio", "crash"}
	default: // open(...) and the path operations: rename remove removeall truncate chmod mkdir link symlink
		return []string{"enospc", "eio", "eacces", "crash"}
	}
}

// prepared is a scenario after its fault-free runs.
type prepared struct {
	sc       *scenario
	dry      *result
	expected map[string]string // target -> complete new content
	baseline map[string]bool   // outcomes already violated without any fault
	ffViol   []violation
}

func opKey(sc *scenario, o opRec) string {
	s := o.Op + " " + sc.normPath(o.Rel)
	if o.Rel2 != "" {
		s += " -> " + sc.normPath(o.Rel2)
	}
	return s
}

func opName(sc *scenario, o opRec) string {
	role := sc.role(o.Rel)
	if r2 := sc.role(o.Rel2); r2 == "target" {
		role = r2
	}
	return o.Op + "@" + role
}

func sameObservation(sc *scenario, a, b *result) string {
	if a.status() != b.status() {
		return fmt.Sprintf("status %s vs %s", a.status(), b.status())
	}
	for _, t := range sc.Targets {
		x, y := a.After[t], b.After[t]
		if (x == nil) != (y == nil) || (x != nil && *x != *y) {
			return fmt.Sprintf("target %s: %s vs %s", t, describe(x), describe(y))
		}
	}
	if len(a.Ops) != len(b.Ops) {
		return fmt.Sprintf("%d vs %d numbered operations", len(a.Ops), len(b.Ops))
	}
	for i := range a.Ops {
		if opKey(sc, a.Ops[i]) != opKey(sc, b.Ops[i]) || a.Ops[i].Fault != b.Ops[i].Fault {
			return fmt.Sprintf("operation %d: %q/%s vs %q/%s", i+1, opKey(sc, a.Ops[i]), a.Ops[i].Fault, opKey(sc, b.Ops[i]), b.Ops[i].Fault)
		}
	}
	return ""
}

// prepare performs the fault-free runs of a scenario: reference runs that define the complete
// new content of every target, the dry run that fixes K, and a second dry run (determinism).
func prepare(rn *runner, sc *scenario) (*prepared, error) {
	p := &prepared{sc: sc, expected: map[string]string{}, baseline: map[string]bool{}}
	dry, err := rn.run(sc, nil)
	if err != nil {
		return nil, err
	}
	again, err := rn.run(sc, nil)
	if err != nil {
		return nil, err
	}
	if d := sameObservation(sc, dry, again); d != "" && !dry.TimedOut && !again.TimedOut {
		return nil, fmt.Errorf("scenario %s is not deterministic without faults: %s", sc.id(), d)
	}
	p.dry = dry
	if sc.dirMode() {
		// complete new content of a file = what bebopfmt -w writes when given that file alone
		for _, t := range sc.Targets {
			ref := fmtFileScenario("reference", sc.Files[t], false)
			r, err := rn.run(ref, nil)
			if err != nil {
				return nil, err
			}
			if !r.failed() && !r.TimedOut && r.After["file.bop"] != nil {
				p.expected[t] = *r.After["file.bop"]
			}
		}
	} else if !dry.failed() && !dry.TimedOut {
		for _, t := range sc.Targets {
			if dry.After[t] != nil {
				p.expected[t] = *dry.After[t]
			}
		}
	}
	return p, nil
}

type job struct {
	p      *prepared
	faults []fault
}

type outcome struct {
	res      *result
	injected []fault
	names    []string // op@role of the injected operations
	viol     []violation
}

// execute runs one faulted job and judges it. Harness errors are returned, never reported.
func execute(rn *runner, j job, leftovers *vlib.Counter) (*outcome, error) {
	sc := j.p.sc
	res, err := rn.run(sc, j.faults)
	if err != nil {
		return nil, err
	}
	o := &outcome{res: res}
	if len(j.faults) > 0 && res.TimedOut {
		for _, f := range j.faults {
			if f.K <= len(res.Ops) && res.Ops[f.K-1].Fault == f.Kind {
				o.injected = append(o.injected, f)
				o.names = append(o.names, opName(sc, res.Ops[f.K-1]))
			}
		}
	}
	if len(j.faults) > 0 && !res.TimedOut {
		k1 := j.faults[0].K
		if len(res.Ops) < k1 {
			return nil, fmt.Errorf("%s fault %v: the run performed only %d numbered operations, the dry run %d (divergence before the fault point)", sc.id(), j.faults, len(res.Ops), len(j.p.dry.Ops))
		}
		for i := 0; i < k1; i++ {
			if opKey(sc, res.Ops[i]) != opKey(sc, j.p.dry.Ops[i]) {
				return nil, fmt.Errorf("%s fault %v: operation %d is %q, in the dry run it was %q (divergence before the fault point)", sc.id(), j.faults, i+1, opKey(sc, res.Ops[i]), opKey(sc, j.p.dry.Ops[i]))
			}
		}
		for i, f := range j.faults {
			if f.K <= len(res.Ops) && res.Ops[f.K-1].Fault == f.Kind {
				o.injected = append(o.injected, f)
				o.names = append(o.names, opName(sc, res.Ops[f.K-1]))
			} else if i == 0 {
				return nil, fmt.Errorf("%s fault %v: the seam did not inject it (log says %q)", sc.id(), f, res.Ops[f.K-1].Fault)
			}
		}
	}
	o.viol = judge(sc, j.p.expected, o.injected, res, leftovers)
	if len(j.faults) == 0 {
		o.viol = append(o.viol, judgeFaultFree(sc, res)...)
	}
	return o, nil
}

func outcomesOf(vs []violation) string {
	s := []string{}
	for _, v := range vs {
		s = append(s, v.Outcome)
	}
	sort.Strings(s)
	return strings.Join(s, ",")
}

// sigID names tool, input class and prior state. Variants of an input class ("syntax-error/in-b")
// share the signature of the class; the variant is in the case map.
func sigID(sc *scenario) string {
	class := sc.Input
	if i := strings.Index(class, "/"); i >= 0 {
		class = class[:i]
	}
	return sc.Tool + "|" + class + "|prior=" + sc.Prior
}

// signature: C19|tool|input class|prior=..|fault=kind[|op=name@role]|outcome. A faulted run that merely
// shows again what the scenario already does without any fault is counted under the fault=none signature.
func signature(p *prepared, o *outcome, v violation) string {
	if len(o.injected) == 0 || p.baseline[v.Outcome] {
		return "C19|" + sigID(p.sc) + "|fault=none|" + v.Outcome
	}
	kinds := []string{}
	for _, f := range o.injected {
		kinds = append(kinds, f.Kind)
	}
	return "C19|" + sigID(p.sc) + "|fault=" + strings.Join(kinds, "+") + "|op=" + strings.Join(o.names, "+") + "|" + v.Outcome
}

func caseOf(p *prepared, faults []fault, o *outcome) map[string]any {
	states := map[string]string{}
	for _, t := range p.sc.Targets {
		var prior, exp *string
		if c, ok := p.sc.Files[t]; ok {
			prior = &c
		}
		if c, ok := p.expected[t]; ok {
			exp = &c
		}
		states[t] = classify(prior, exp, o.res.After[t])
	}
	ops := []string{}
	for _, op := range o.res.Ops {
		if len(ops) >= 12 {
			ops = append(ops, fmt.Sprintf("... %d operations in total", len(o.res.Ops)))
			break
		}
		ops = append(ops, fmt.Sprintf("%d %s [%s]", op.K, opKey(p.sc, op), op.Fault))
	}
	return map[string]any{
		"scenario": p.sc, "faults": faults, "fault_ops": o.names, "status": o.res.status(), "output": vlib.Short(o.res.Output, 300),
		"target_states": states, "operations": ops, "leftover_files": o.res.Extra, "dry_run_operations": len(p.dry.Ops),
	}
}

func parallel(n int, f func(i int)) {
	var wg sync.WaitGroup
	ch := make(chan int, 64)
	for w := 0; w < workers; w++ {
		wg.Add(1)
		go func() {
			defer wg.Done()
			for i := range ch {
				f(i)
			}
		}()
	}
	for i := 0; i < n; i++ {
		ch <- i
	}
	close(ch)
	wg.Wait()
}

type replayFile struct {
	Signature string `json:"signature"`
	Message   string `json:"message"`
	Case      struct {
		Scenario scenario `json:"scenario"`
		Faults   []fault  `json:"faults"`
		FaultOps []string `json:"fault_ops"`
	} `json:"case"`
}

func doReplay(rn *runner, path string) int {
	b, err := os.ReadFile(path)
	if err != nil {
		fatal("cannot read replay file: %v", err)
	}
	var rf replayFile
	if err := json.Unmarshal(b, &rf); err != nil || rf.Case.Scenario.Tool == "" {
		fatal("replay file %s has no C19 case: %v", path, err)
	}
	sc := &rf.Case.Scenario
	p, err := prepare(rn, sc)
	if err != nil {
		fatal("%v", err)
	}
	fmt.Printf("replaying %s\n  scenario %s, args %v, faults %v\n", rf.Signature, sc.id(), sc.Args, rf.Case.Faults)
	fmt.Printf("  fault-free run: %s, %d numbered operations\n", p.dry.status(), len(p.dry.Ops))
	o, err := execute(rn, job{p, nil}, nil)
	if err != nil {
		fatal("%v", err)
	}
	for _, v := range o.viol {
		p.baseline[v.Outcome] = true
	}
	// The replay file names fault points by index. If the code changed, the index may now denote another
	// operation: re-locate each fault on the first operation of the recorded name, or give up cleanly.
	for i := range rf.Case.Faults {
		f := &rf.Case.Faults[i]
		if i >= len(rf.Case.FaultOps) {
			break
		}
		want := rf.Case.FaultOps[i]
		if f.K >= 1 && f.K <= len(p.dry.Ops) && opName(sc, p.dry.Ops[f.K-1]) == want {
			continue
		}
		found := 0
		bare := func(n string) string { return strings.SplitN(n, "@", 2)[0] }
		if f.K >= 1 && f.K <= len(p.dry.Ops) && bare(opName(sc, p.dry.Ops[f.K-1])) == bare(want) {
			continue // same operation at the same index, now on another file (e.g. a temporary file)
		}
		for pass := 0; pass < 2 && found == 0; pass++ { // exact name first, then the same operation on any file
			for _, op := range p.dry.Ops {
				n := opName(sc, op)
				if (n == want || (pass == 1 && bare(n) == bare(want))) && (i == 0 || op.K > rf.Case.Faults[i-1].K) {
					found = op.K
					break
				}
			}
		}
		if found == 0 {
			fmt.Printf("  operation %d (%s) of the recorded run does not exist in this build (now %d operations); the recorded fault cannot be injected any more\n", f.K, want, len(p.dry.Ops))
			if len(o.viol) == 0 {
				fmt.Println("  the fault-free run of the scenario satisfies the property")
				return 0
			}
			rf.Case.Faults = nil
			break
		}
		fmt.Printf("  operation %d is no longer %s; fault moved to operation %d\n", f.K, want, found)
		f.K = found
	}
	if len(rf.Case.Faults) > 0 {
		if o, err = execute(rn, job{p, rf.Case.Faults}, nil); err != nil {
			fatal("%v", err)
		}
	}
	fmt.Printf("  observed: %s; output: %s\n", o.res.status(), firstLine(o.res.Output))
	for _, op := range o.res.Ops {
		if op.K <= 6 || op.Fault != "-" || op.K == len(o.res.Ops) {
			fmt.Printf("    op %d %s [%s]\n", op.K, opKey(sc, op), op.Fault)
		}
	}
	for _, t := range sc.Targets {
		var prior *string
		if c, ok := sc.Files[t]; ok {
			prior = &c
		}
		fmt.Printf("  target %s: before %s, after %s\n", t, describe(prior), describe(o.res.After[t]))
	}
	if len(o.viol) == 0 {
		fmt.Println("  the property holds for this case now")
		return 0
	}
	for _, v := range o.viol {
		fmt.Printf("VIOLATION property=C19\n  signature: %s\n  %s\n", signature(p, o, v), v.Msg)
	}
	return 1
}

func main() {
	prop := flag.String("property", "C19", "")
	replay := flag.String("replay", "", "")
	flag.Parse()
	if *prop != "C19" {
		vlib.Fatal("this binary checks C19 only, not %s", *prop)
	}
	run := vlib.NewRun("C19", "fault_enumeration")
	workDir = filepath.Join(vlib.VerifDir(), ".cache", "work", fmt.Sprintf("c19-%d", os.Getpid()))
	_ = os.RemoveAll(workDir)
	if err := os.MkdirAll(filepath.Join(workDir, "runs"), 0o755); err != nil {
		fatal("%v", err)
	}
	buildStart := time.Now()
	rn := build(workDir)
	buildSecs := time.Since(buildStart).Seconds()

	if *replay != "" {
		rc := doReplay(rn, *replay)
		_ = os.RemoveAll(workDir)
		os.Exit(rc)
	}

	scs := scenarios(run.Thorough())
	seen := map[string]bool{}
	for _, s := range scs {
		if seen[s.id()] {
			fatal("duplicate scenario id %s", s.id())
		}
		seen[s.id()] = true
	}

	// Phase 1: fault-free runs.
	preps := make([]*prepared, len(scs))
	var emu sync.Mutex
	var firstErr error
	setErr := func(err error) {
		emu.Lock()
		if firstErr == nil {
			firstErr = err
		}
		emu.Unlock()
	}
	leftovers := vlib.NewCounter()
	ffOutcomes := make([]*outcome, len(scs))
	parallel(len(scs), func(i int) {
		p, err := prepare(rn, scs[i])
		if err != nil {
			setErr(err)
			return
		}
		preps[i] = p
		// judge the dry run itself (no extra process needed)
		o := &outcome{res: p.dry}
		o.viol = append(judge(p.sc, p.expected, nil, p.dry, leftovers), judgeFaultFree(p.sc, p.dry)...)
		for _, v := range o.viol {
			p.baseline[v.Outcome] = true
		}
		p.ffViol = o.viol
		ffOutcomes[i] = o
	})
	if firstErr != nil {
		fatal("%v", firstErr)
	}
	// the seam must be live: a successful compile performs at least open, write, close
	for _, p := range preps {
		if p.sc.Tool == "bebopc-go" && p.sc.Input == "valid" && !p.dry.failed() && len(p.dry.Ops) < 2 {
			fatal("the os seam logged %d operations for a successful bebopc-go run: overlay not in effect", len(p.dry.Ops))
		}
	}

	states := vlib.NewCounter()
	triples := vlib.NewCounter()
	statuses := vlib.NewCounter()
	perScenario := []map[string]any{}
	for i, p := range preps {
		states.Add(p.sc.id() + "|none")
		statuses.Add("fault=none: " + p.dry.status())
		for _, v := range ffOutcomes[i].viol {
			run.Report(signature(p, ffOutcomes[i], v), v.Msg, caseOf(p, nil, ffOutcomes[i]))
		}
		ops := vlib.NewCounter()
		for _, o := range p.dry.Ops {
			ops.Add(opName(p.sc, o))
		}
		perScenario = append(perScenario, map[string]any{"scenario": p.sc.id(), "K": len(p.dry.Ops), "fault_free_status": p.dry.status(),
			"ops": ops.Top(20), "fault_free_violations": outcomesOf(ffOutcomes[i].viol)})
	}

	// Phase 2: every fault point x every applicable kind (thorough: also every pair for small K).
	const pairLimit = 20
	var jobs []job
	for _, p := range preps {
		if p.sc.NoFaults {
			continue
		}
		K := len(p.dry.Ops)
		for k := 1; k <= K; k++ {
			for _, kind := range kindsFor(p.dry.Ops[k-1].Op, run.Thorough()) {
				jobs = append(jobs, job{p, []fault{{k, kind}}})
			}
		}
		if run.Thorough() && K <= pairLimit {
			for k1 := 1; k1 <= K; k1++ {
				for _, kind1 := range kindsFor(p.dry.Ops[k1-1].Op, true) {
					if kind1 == "crash" || kind1 == "crash-after-torn" {
						continue // nothing runs after process death
					}
					for k2 := k1 + 1; k2 <= K; k2++ {
						for _, kind2 := range kindsFor(p.dry.Ops[k2-1].Op, true) {
							jobs = append(jobs, job{p, []fault{{k1, kind1}, {k2, kind2}}})
						}
					}
				}
			}
		}
	}
	type reported struct {
		j job
		o *outcome
	}
	var rmu sync.Mutex
	var reports []reported
	secondReached := 0
	parallel(len(jobs), func(i int) {
		if run.TimeUp("fault enumeration") {
			return
		}
		j := jobs[i]
		o, err := execute(rn, j, leftovers)
		if err != nil {
			setErr(err)
			return
		}
		if len(o.viol) > 0 {
			// a violation is only reported when a second execution shows exactly the same thing
			o2, err := execute(rn, j, nil)
			if err != nil {
				setErr(err)
				return
			}
			if d := sameObservation(j.p.sc, o.res, o2.res); d != "" || outcomesOf(o.viol) != outcomesOf(o2.viol) {
				setErr(fmt.Errorf("%s fault %v behaves differently on re-execution (%s; %s vs %s)", j.p.sc.id(), j.faults, d, outcomesOf(o.viol), outcomesOf(o2.viol)))
				return
			}
		}
		key := j.p.sc.id()
		for n, f := range o.injected {
			key += fmt.Sprintf("|%d:%s", f.K, f.Kind)
			triples.Add(j.p.sc.id() + "|" + o.names[n] + "|" + f.Kind)
		}
		states.Add(key)
		statuses.Add("fault=" + j.faults[0].Kind + ": " + o.res.status())
		rmu.Lock()
		if len(o.injected) > 1 {
			secondReached++
		}
		if len(o.viol) > 0 {
			reports = append(reports, reported{j, o})
		}
		rmu.Unlock()
	})
	if firstErr != nil {
		fatal("%v", firstErr)
	}
	// report in a deterministic order (the first case of a signature becomes its replay file)
	sort.SliceStable(reports, func(a, b int) bool {
		x, y := reports[a], reports[b]
		if x.j.p.sc.id() != y.j.p.sc.id() {
			return x.j.p.sc.id() < y.j.p.sc.id()
		}
		if len(x.j.faults) != len(y.j.faults) {
			return len(x.j.faults) < len(y.j.faults)
		}
		for i := range x.j.faults {
			if x.j.faults[i] != y.j.faults[i] {
				if x.j.faults[i].K != y.j.faults[i].K {
					return x.j.faults[i].K < y.j.faults[i].K
				}
				return x.j.faults[i].Kind < y.j.faults[i].Kind
			}
		}
		return false
	})
	// Two-fault runs: when one of the two faults alone already produces the same outcome in the same
	// scenario, the case is counted under that single fault's signature; only outcomes that need both
	// faults get a signature naming both.
	single := map[string]*outcome{}
	skey := func(p *prepared, f fault, outcome string) string {
		return fmt.Sprintf("%s|%d|%s|%s", p.sc.id(), f.K, f.Kind, outcome)
	}
	for _, r := range reports {
		if len(r.j.faults) == 1 && len(r.o.injected) == 1 {
			for _, v := range r.o.viol {
				single[skey(r.j.p, r.j.faults[0], v.Outcome)] = r.o
			}
		}
	}
	sampled := map[string]bool{}
	for _, r := range reports {
		for _, v := range r.o.viol {
			sig := signature(r.j.p, r.o, v)
			if len(r.o.injected) > 1 {
				for _, f := range r.o.injected {
					if so, ok := single[skey(r.j.p, f, v.Outcome)]; ok {
						sig = signature(r.j.p, so, v)
						break
					}
				}
			}
			run.Report(sig, v.Msg, caseOf(r.j.p, r.j.faults, r.o))
		}
	}
	// samples: fault-free and faulted cases as they were really executed
	for i, p := range preps {
		if i%7 == 0 {
			run.Sample(caseOf(p, nil, ffOutcomes[i]))
		}
	}
	for _, r := range reports {
		k := r.j.p.sc.Tool + r.j.faults[0].Kind
		if !sampled[k] && len(sampled) < 6 {
			sampled[k] = true
			run.Sample(caseOf(r.j.p, r.j.faults, r.o))
		}
	}

	cross := crossCheck(rn, preps)
	if firstErr != nil {
		fatal("%v", firstErr)
	}
	run.Coverage["seam_crosscheck_strace"] = cross

	runs := int(rn.runs.Load())
	run.Coverage["evaluations"] = runs
	run.Coverage["transitions"] = runs
	run.Coverage["traces_validated_against_impl"] = runs
	run.Coverage["states"] = states.Distinct()
	run.Coverage["distinct_nontrivial"] = triples.Distinct()
	run.Coverage["scenarios"] = perScenario
	run.Coverage["fault_jobs"] = len(jobs)
	run.Coverage["second_fault_reached"] = secondReached
	run.Coverage["exit_status_by_fault_kind"] = statuses.Top(100)
	run.Coverage["prior_absent_leftovers_after_failed_runs"] = leftovers.Top(200)
	run.Coverage["build_seconds"] = buildSecs
	run.Coverage["numbered_os_operations"] = overlay.OSFaultOps
	run.Coverage["rule"] = "state = (scenario, fault set): scenario = tool x input class x prior state of the target; fault set = none, or one (k, kind) for every numbered mutating file operation k of the dry run and every kind applicable to it (thorough: also all pairs k1<k2 for scenarios with K<=12); every state is one real process execution of the CLI built from the working tree; distinct_nontrivial = distinct (scenario, operation name@role, fault kind) triples the seam log confirms as injected"
	run.Coverage["explanation"] = "fault-free runs are executed twice (determinism) and define K and the complete new content; each faulted run's op log must agree with the dry run up to the fault point; violating cases are executed twice before being reported"
	run.Assume = []string{
		"the CLIs reach the file system only through package os (OpenFile/Create/WriteFile/CreateTemp, File.Write/WriteString/WriteAt/ReadFrom/Close/Sync/Truncate/Chmod, Truncate, Rename, Remove, RemoveAll, Chmod, Mkdir, Link, Symlink); direct syscall use would bypass the seam",
		"crash = SIGKILL of the process: everything written before stays (no power-loss / page-cache model, no reordering)",
		"an injected errno replaces the operation (it is not performed); a torn write writes the first half of the buffer and reports ENOSPC",
		"a failed Close is modelled as 'descriptor stays open, data already written stays'",
		"after process death, and in directory mode, a target may hold its complete new content instead of the previous one",
		"prior-absent targets are not judged after a failed run (what is left behind is only tallied)",
		"Go " + goVersion() + " linux/amd64; running as root, so permission faults are injected (EACCES) rather than produced with chmod",
	}
	_ = os.RemoveAll(workDir)
	run.Finish()
}

func goVersion() string {
	b, err := exec.Command("go", "env", "GOVERSION").Output()
	if err != nil {
		return "?"
	}
	return strings.TrimSpace(string(b))
}
