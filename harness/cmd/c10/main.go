// C10 — ReadFile always terminates and never silently drops part of a schema.
// Explicit search over inputs (all lexeme strings and byte strings up to a small length, from several
// parser start states) and over reader fault points, on the real ReadFile.
package main

import (
	"encoding/json"
	"errors"
	"flag"
	"fmt"
	"io"
	"os"
	"strings"
	"sync"
	"sync/atomic"
	"time"

	"github.com/200sc/bebop"
	"verif/textgen"
	"verif/vlib"
)

type result struct {
	ok    bool
	err   string
	panic string
	file  bebop.File
}

func readFile(r io.Reader) (res result) {
	defer func() {
		if p := recover(); p != nil {
			res.panic = fmt.Sprint(p)
		}
	}()
	f, _, err := bebop.ReadFile(r)
	if err != nil {
		res.err = err.Error()
		return
	}
	res.ok = true
	res.file = f
	return
}

func hasStruct(f bebop.File, name string) bool {
	for _, s := range f.Structs {
		if s.Name == name {
			return true
		}
	}
	return false
}

const sentinel = "\nstruct Zq9 {}\n"

var lexemes = []string{"struct", "message", "enum", "union", "const", "readonly", "import", "[", "]", "(", ")", "{", "}", ";", ",", "=", ":", "->", "|", "<<",
	"a", "1", "-1", "\"s\"", "//c\n", "/*c*/", "\n", "flags", "opcode", "deprecated", "int32", "1.5", "&", ">>", "map", "array", "+"}

var byteAlphabet = []byte{'/', '*', '"', '\\', '-', '>', '<', '0', '1', 'x', '.', 'e', 'a', 'f', 'i', 'n', '\n', ' ', '{', '}', '[', ';', 0x80, 0xff, '\r', '\t', '+'}

type ctx struct{ name, prefix, suffixHint string }

var contexts = []ctx{
	{"empty", "", ""},
	{"after-definition", "struct A {}\n", ""},
	{"in-struct-body", "struct A {\n", ""},
	{"in-enum-body", "enum E {\n", ""},
	{"in-message-body", "message M {\n", ""},
	{"in-union-branch", "union U {\n1 -> struct B {\n", ""},
	{"after-const-eq", "const int32 x = ", ""},
	{"after-open-square", "[", ""},
	{"in-flags-expr", "[flags]\nenum F {\nA = ", ""},
	{"after-import", "import ", ""},
	{"in-field-type", "struct A {\nmap[", ""},
}

func panicClass(p string) string {
	switch {
	case strings.Contains(p, "negative shift"):
		return "negative-shift"
	case strings.Contains(p, "unreadByte"):
		return "unread-byte"
	case strings.Contains(p, "index out of range"):
		return "index-out-of-range"
	case strings.Contains(p, "slice bounds"):
		return "slice-bounds"
	case strings.Contains(p, "nil pointer"):
		return "nil-deref"
	case strings.Contains(p, "decodeIntegerType"):
		return "decode-integer-type"
	}
	return "other"
}

func byteClass(b byte) string {
	switch {
	case b >= 0x80:
		return "non-ascii"
	case b == '\n' || b == '\r' || b == ' ' || b == '\t':
		return "whitespace"
	case b >= '0' && b <= '9':
		return "digit"
	case (b >= 'a' && b <= 'z') || (b >= 'A' && b <= 'Z'):
		return "letter"
	}
	return fmt.Sprintf("%q", string(b))
}

// faultReader returns the first k bytes and then fails.
type faultReader struct {
	data  []byte
	pos   int
	k     int
	style int // 0: (0,err) at the offset; 1: last good bytes together with err; 2: (0,err) once at the offset, the data continues afterwards (transient failure)
	chunk int // 0: as much as asked; 1: one byte per call; 2: seven bytes per call; 3: as much as asked, every other call answers (0, nil)
	calls int
	fired bool
}

// richFaultReader offers io.ByteReader and io.RuneReader on top of the same schedule (bytes.Reader, bufio.Reader and
// strings.Reader do): a ReadFile that probes its reader for them takes a different path.
type richFaultReader struct{ *faultReader }

func (r richFaultReader) ReadByte() (byte, error) {
	var p [1]byte
	for i := 0; i < 3; i++ {
		n, err := r.faultReader.Read(p[:])
		if n == 1 {
			return p[0], nil // an error delivered with the byte comes again on the next call (or never, for a transient one)
		}
		if err != nil {
			return 0, err
		}
	}
	return 0, io.ErrNoProgress
}

var errRead = errors.New("injected read failure")

func (f *faultReader) Read(p []byte) (int, error) {
	f.calls++
	if f.calls > 1<<20 {
		panic("reader polled more than a million times after failing")
	}
	if len(p) == 0 {
		return 0, nil
	}
	if f.chunk == 3 && f.calls%2 == 0 {
		return 0, nil
	}
	limit := f.k
	if f.style == 2 && f.fired {
		limit = len(f.data)
	}
	avail := limit - f.pos
	if avail <= 0 {
		if f.style == 2 && f.fired {
			return 0, io.EOF
		}
		f.fired = true
		return 0, errRead
	}
	n := avail
	if n > len(p) {
		n = len(p)
	}
	if f.chunk == 1 {
		n = 1
	}
	if f.chunk == 2 && n > 7 {
		n = 7
	}
	copy(p, f.data[f.pos:f.pos+n])
	f.pos += n
	if f.style == 1 && f.pos >= f.k {
		f.fired = true
		return n, errRead
	}
	return n, nil
}

func main() {
	prop := flag.String("property", "C10", "")
	replay := flag.String("replay", "", "")
	flag.Parse()
	run := vlib.NewRun(*prop, "model_checking")
	var states, trans, accepted, faults int64
	outcomes := vlib.NewCounter()

	// hang watchdog: each worker publishes what it is working on
	type slot struct {
		mu    sync.Mutex
		text  string
		since time.Time
	}
	slots := make([]*slot, 64)
	for i := range slots {
		slots[i] = &slot{}
	}
	var slotIdx int64
	stop := make(chan struct{})
	go func() {
		reported := map[string]bool{}
		for {
			select {
			case <-stop:
				return
			case <-time.After(2 * time.Second):
			}
			for _, s := range slots {
				s.mu.Lock()
				if s.text != "" && time.Since(s.since) > 60*time.Second && !reported[s.text] {
					reported[s.text] = true
					run.Report("C10|hang", fmt.Sprintf("ReadFile has been running for more than 60 s on %q", vlib.Short(s.text, 200)), map[string]any{"input": s.text})
					// the stuck goroutine cannot be stopped: finish the run with what has been explored
					run.Cap("a ReadFile call hung; exploration stopped")
					s.mu.Unlock()
					run.Coverage["states"], run.Coverage["transitions"], run.Coverage["traces_validated_against_impl"] = atomic.LoadInt64(&states), atomic.LoadInt64(&trans), atomic.LoadInt64(&trans)
					run.Coverage["evaluations"], run.Coverage["distinct_nontrivial"] = atomic.LoadInt64(&states), 2
					run.Sample(map[string]any{"hung_on": s.text})
					run.Finish()
				}
				s.mu.Unlock()
			}
		}
	}()
	guarded := func(text string, f func() result) result {
		s := slots[int(atomic.AddInt64(&slotIdx, 1))%len(slots)]
		s.mu.Lock()
		s.text, s.since = text, time.Now()
		s.mu.Unlock()
		r := f()
		s.mu.Lock()
		s.text = ""
		s.mu.Unlock()
		return r
	}

	// judge one input text: no panic, and success implies the whole input was consumed.
	judge := func(text, origin, ctxName, tailClass string) {
		atomic.AddInt64(&states, 1)
		r := guarded(text, func() result { return readFile(strings.NewReader(text)) })
		atomic.AddInt64(&trans, 1)
		c := map[string]any{"input": text, "origin": origin, "context": ctxName}
		if r.panic != "" {
			run.Report(fmt.Sprintf("C10|panic|%s|%s", panicClass(r.panic), origin), fmt.Sprintf("ReadFile panicked on %q: %s", vlib.Short(text, 200), r.panic), c)
			outcomes.Add("panic:" + panicClass(r.panic))
			return
		}
		if !r.ok {
			outcomes.Add("error")
			return
		}
		atomic.AddInt64(&accepted, 1)
		outcomes.Add("accepted:" + textgen.Canon(r.file, textgen.CanonOpt{NoComments: true}))
		ext := text + sentinel
		r2 := guarded(ext, func() result { return readFile(strings.NewReader(ext)) })
		atomic.AddInt64(&trans, 1)
		if r2.panic != "" {
			run.Report(fmt.Sprintf("C10|panic|%s|%s", panicClass(r2.panic), origin), fmt.Sprintf("ReadFile panicked on %q: %s", vlib.Short(ext, 200), r2.panic), map[string]any{"input": ext, "origin": origin})
			return
		}
		if r2.ok && !hasStruct(r2.file, "Zq9") {
			c["extended_input"] = ext
			run.Report(fmt.Sprintf("C10|silent-drop|%s|ctx=%s|tail=%s", origin, ctxName, tailClass),
				fmt.Sprintf("ReadFile(%q) succeeds, and so does the same input followed by a valid struct definition — but the File does not contain that definition: the end of the input is silently ignored", vlib.Short(text, 200)), c)
		}
	}

	if *replay != "" {
		b, err := os.ReadFile(*replay)
		if err != nil {
			vlib.Fatal("replay: %v", err)
		}
		var v struct {
			Case map[string]any `json:"case"`
		}
		json.Unmarshal(b, &v)
		text, _ := v.Case["input"].(string)
		if k, ok := v.Case["fail_at"].(float64); ok {
			chunk := int(v.Case["chunk"].(float64))
			fr := &faultReader{data: []byte(text), k: int(k), style: int(v.Case["style"].(float64)), chunk: chunk % 4}
			var src io.Reader = fr
			if chunk == 4 {
				src = richFaultReader{fr}
			}
			r := readFile(src)
			fmt.Printf("input %q failing at byte %d: ok=%v err=%q panic=%q\n", text, int(k), r.ok, r.err, r.panic)
			if r.ok || r.panic != "" {
				fmt.Printf("VIOLATION property=C10 replay=%s\n", *replay)
				os.Exit(1)
			}
			os.Exit(0)
		}
		judge(text, fmt.Sprint(v.Case["origin"]), fmt.Sprint(v.Case["context"]), "replay")
		r := readFile(strings.NewReader(text))
		fmt.Printf("input %q: ok=%v err=%q panic=%q\n", text, r.ok, r.err, r.panic)
		run.Coverage["states"], run.Coverage["transitions"], run.Coverage["traces_validated_against_impl"] = 1, 1, 1
		run.Coverage["evaluations"], run.Coverage["distinct_nontrivial"] = 1, 2
		run.Sample(map[string]any{"replay": *replay})
		run.Finish()
	}

	// A1: all lexeme sequences up to length maxLex, from two start states (empty, after a definition)
	maxLex := 3
	if run.Thorough() {
		maxLex = 4
	}
	type job struct{ text, origin, ctx, tail string }
	var jobs []job
	var recL func(cur []string)
	recL = func(cur []string) {
		if len(cur) > 0 {
			body := strings.Join(cur, " ")
			jobs = append(jobs, job{body, "lexemes", "empty", strings.TrimSpace(cur[len(cur)-1])})
			jobs = append(jobs, job{"struct A {}\n" + body, "lexemes", "after-definition", strings.TrimSpace(cur[0])})
		}
		if len(cur) == maxLex {
			return
		}
		for _, l := range lexemes {
			recL(append(append([]string{}, cur...), l))
		}
	}
	recL(nil)
	nLex := len(jobs)
	// A2: all byte strings up to length maxBytes after every context prefix
	maxBytes := 3
	if run.Thorough() {
		maxBytes = 4
	}
	for _, cx := range contexts {
		var recB func(cur []byte)
		recB = func(cur []byte) {
			if len(cur) > 0 {
				jobs = append(jobs, job{cx.prefix + string(cur), "bytes", cx.name, byteClass(cur[0])})
			}
			if len(cur) == maxBytes {
				return
			}
			for _, b := range byteAlphabet {
				recB(append(append([]byte{}, cur...), b))
			}
		}
		recB(nil)
	}
	// A2c: everything that can stand inside a string literal, in every place a string literal is interpreted
	// (opcode, deprecation message, const string / guid, import path): all contents up to maxStr characters
	{
		strAlphabet := []string{"a", "Z", "0", "\\", "\"", "n", "x", " ", "\x80", "\n", "%"}
		maxStr := 4
		if run.Thorough() {
			maxStr = 5
		}
		frames := []struct{ name, pre, post string }{
			{"opcode-string", "[opcode(\"", "\")]\nstruct A {\n}\n"},
			{"deprecated-message", "message M {\n[deprecated(\"", "\")]\n1 -> int32 x;\n}\n"},
			{"const-string", "const string s = \"", "\";\n"},
			{"const-guid", "const guid g = \"", "\";\n"},
			{"import-path", "import \"", "\"\nstruct A {\n}\n"},
			{"enum-member-deprecation", "enum E {\n[deprecated(\"", "\")]\nA = 1;\n}\n"},
		}
		var recS func(cur string, n int)
		var contents []string
		recS = func(cur string, n int) {
			contents = append(contents, cur)
			if n == maxStr {
				return
			}
			for _, c := range strAlphabet {
				recS(cur+c, n+1)
			}
		}
		recS("", 0)
		for _, fr := range frames {
			for _, c := range contents {
				if fr.name != "opcode-string" && len(c) > 3 && !run.Thorough() {
					continue // the four-byte rule makes length 4 special for opcodes only
				}
				jobs = append(jobs, job{fr.pre + c + fr.post, "string-content", fr.name, byteClass(append([]byte(c), ' ')[0])})
			}
		}
	}
	// A2e: everything that can stand inside a LINE COMMENT where comments are interpreted (field tags in struct, message and
	// union bodies, doc comments above definitions): all sequences of up to maxCmt pieces over the pieces of the tag syntax
	{
		pieces := []string{"[tag(", "k", ":", "\"", "v", ")]", " ", "[", ")", "`", "'c'", "\\"}
		maxCmt := 4
		if run.Thorough() {
			maxCmt = 5
		}
		frames := []struct{ name, pre, post string }{
			{"struct-field-comment", "struct A {\n//", "\nint32 x;\n}\n"},
			{"message-field-comment", "message M {\n//", "\n1 -> int32 x;\n}\n"},
			{"union-branch-comment", "union U {\n//", "\n1 -> struct B {\n//[tag(a:\"b\")]\nint32 x;\n}\n}\n"},
			{"top-level-comment", "//", "\nstruct A {\n}\n"},
			{"enum-member-comment", "enum E {\n//", "\nA = 1;\n}\n"},
			{"trailing-field-comment", "struct A {\nint32 x; //", "\nint32 y;\n}\n"},
		}
		var contents []string
		var recC func(cur string, n int)
		recC = func(cur string, n int) {
			contents = append(contents, cur)
			if n == maxCmt {
				return
			}
			for _, c := range pieces {
				recC(cur+c, n+1)
			}
		}
		recC("", 0)
		for _, fr := range frames {
			for _, c := range contents {
				jobs = append(jobs, job{fr.pre + c + fr.post, "comment-content", fr.name, byteClass(append([]byte(c), ' ')[0])})
				jobs = append(jobs, job{strings.ReplaceAll(fr.pre+c+fr.post, "\n", "\r\n"), "comment-content", fr.name + "-crlf", byteClass(append([]byte(c), ' ')[0])})
			}
		}
	}
	// A2d: inputs of several megabytes (a size cap inside ReadFile would silently drop what lies beyond it): structs one per
	// line, and one struct followed by megabytes of line comments; the appended-definition test sees the end of each
	for _, mib := range []int{3, 5, 9} {
		var sb strings.Builder
		for i := 0; sb.Len() < mib<<20; i++ {
			fmt.Fprintf(&sb, "struct ZqL%07d { int32 a; }\n", i)
		}
		jobs = append(jobs, job{sb.String(), "megabytes", fmt.Sprintf("%d-MiB-of-structs", mib), "struct"})
		var cb strings.Builder
		cb.WriteString("struct ZqHead { int32 a; }\n")
		for cb.Len() < mib<<20 {
			cb.WriteString("// 0123456789 0123456789 0123456789 0123456789 0123456789 0123456\n")
		}
		jobs = append(jobs, job{cb.String(), "megabytes", fmt.Sprintf("%d-MiB-of-comments", mib), "comment"})
	}
	// A2b: well-formed texts of the C11 alphabet followed by every "tail" that leaves the tokenizer in a bad state
	tails := []string{"/* unterminated", "\"unterminated", "-", "1.", "0x", "1e", "/", "<", ">", "\x80", "@", "-i", "-in", "/* c */", "// c", "/* c */ ", "\t", " ", "\r", "\r\n", ";", "}", "]", ")", "1", "a", "\"s\"", "->"}
	for _, d := range textgen.Alphabet(0) {
		base := textgen.Render([]*textgen.Def{d}, textgen.Layouts[0])
		for _, t := range tails {
			jobs = append(jobs, job{base + t, "tail-after-" + d.Kind.String(), "after-definition", fmt.Sprintf("%q", t)})
			jobs = append(jobs, job{strings.TrimRight(base, "\n") + t, "tail-after-" + d.Kind.String(), "directly-after-definition", fmt.Sprintf("%q", t)})
		}
	}
	// A4: every [flags] expression of up to 4 tokens over a small token alphabet, for every base type
	exprTokens := []string{"1", "-1", "64", "0x7fffffffffffffff", "A", "N", "<<", ">>", "|", "&", "(", ")"}
	maxExpr := 4
	if run.Thorough() {
		maxExpr = 5
	}
	var exprs []string
	var recE func(cur []string)
	recE = func(cur []string) {
		if len(cur) > 0 {
			exprs = append(exprs, strings.Join(cur, " "))
		}
		if len(cur) == maxExpr {
			return
		}
		for _, t := range exprTokens {
			recE(append(append([]string{}, cur...), t))
		}
	}
	recE(nil)
	for _, base := range []string{"", "byte", "uint16", "uint64", "int16", "int32", "int64"} {
		hdr := "[flags]\nenum F {\n"
		if base != "" {
			hdr = "[flags]\nenum F : " + base + " {\n"
		}
		for _, e := range exprs {
			if base != "" && base != "int32" && !run.Thorough() && len(strings.Fields(e)) > 3 {
				continue
			}
			neg := "N = -1;\n"
			if base == "" || base == "byte" || strings.HasPrefix(base, "uint") {
				neg = "N = 7;\n"
			}
			jobs = append(jobs, job{hdr + "A = 1;\n" + neg + "B = " + e + ";\n}\n", "flags-expr", "base=" + base, strings.Fields(e)[0]})
		}
	}
	for _, base := range []string{"int16", "int32", "int64"} {
		for _, e := range []string{"1 << ( -1 )", "1 >> ( -1 )", "1 << ( N )", "1 << ( N | N )", "8 >> -1 | 0", "( 1 << N ) | 1", "1 << ( 0 | -1 )", "A << ( N & -1 )"} {
			jobs = append(jobs, job{"[flags]\nenum F : " + base + " {\nA = 1;\nN = -1;\nB = " + e + ";\n}\n", "flags-expr", "base=" + base, "negative-count"})
		}
	}
	vlib.ParallelFor(len(jobs), func(i int) { judge(jobs[i].text, jobs[i].origin, jobs[i].ctx, jobs[i].tail) })

	// A5: the result must not depend on how the reader chunks its data (differential against one full read): every
	// alphabet text and pair under 1-, 2-, 3-, 5- and 7-byte reads; and a text longer than the tokenizer's 4096-byte
	// buffer, shifted byte by byte so that every token straddles a refill boundary once.
	{
		var texts []string
		b0, b1 := textgen.Alphabet(0), textgen.Alphabet(1)
		for i, d := range b0 {
			texts = append(texts, textgen.Render([]*textgen.Def{d}, textgen.Layouts[0]))
			texts = append(texts, textgen.Render([]*textgen.Def{d, b1[(i*5+1)%len(b1)]}, textgen.Layouts[4]))
		}
		var long strings.Builder
		for p := 0; long.Len() < 9000; p++ {
			long.WriteString(textgen.Render(textgen.Alphabet(p+10), textgen.Layouts[0]))
		}
		longText := long.String()
		type cjob struct {
			text  string
			chunk int
			pad   int
		}
		var cjobs []cjob
		for _, t := range texts {
			for _, c := range []int{1, 2, 3, 5, 7} {
				cjobs = append(cjobs, cjob{t, c, 0})
			}
		}
		shifts := 96
		if run.Thorough() {
			shifts = 512
		}
		for pad := 0; pad < shifts; pad++ {
			cjobs = append(cjobs, cjob{longText, 0, pad}) // ordinary reader, shifted
		}
		for _, c := range []int{1, 3, 4096, 4097} {
			cjobs = append(cjobs, cjob{longText, c, 0})
		}
		vlib.ParallelFor(len(cjobs), func(i int) {
			j := cjobs[i]
			text := strings.Repeat("\n", j.pad) + j.text
			full := readFile(strings.NewReader(text))
			var r io.Reader = strings.NewReader(text)
			if j.chunk > 0 {
				r = &chunkReader{data: []byte(text), chunk: j.chunk}
			} else {
				r = bufioSized(text)
			}
			got := guarded(text, func() result { return readFile(r) })
			atomic.AddInt64(&states, 1)
			atomic.AddInt64(&trans, 2)
			c := map[string]any{"input": vlib.Short(text, 3000), "chunk": j.chunk, "pad": j.pad, "origin": "chunking"}
			if got.panic != "" {
				run.Report(fmt.Sprintf("C10|panic|%s|chunking", panicClass(got.panic)), "ReadFile panicked under a chunked reader: "+got.panic, c)
				return
			}
			if full.ok != got.ok || (full.ok && textgen.Canon(full.file, textgen.CanonOpt{}) != textgen.Canon(got.file, textgen.CanonOpt{})) {
				kind := "different-file"
				if full.ok && !got.ok {
					kind = "rejected-when-chunked"
				} else if !full.ok && got.ok {
					kind = "accepted-when-chunked"
				}
				run.Report(fmt.Sprintf("C10|chunking|%s|long=%v", kind, len(j.text) > 4096),
					fmt.Sprintf("ReadFile's result depends on how the reader delivers the same %d bytes (chunk=%d, %d bytes of leading padding): one read gives ok=%v (%d definitions), chunked gives ok=%v err=%q", len(text), j.chunk, j.pad, full.ok, defs(full.file), got.ok, got.err), c)
			}
		})
	}

	// A3: every valid text × every reader failure offset × 2 delivery styles × 2 chunkings
	var texts []struct{ text, label string }
	a0, a1 := textgen.Alphabet(0), textgen.Alphabet(1)
	for _, d := range a0 {
		texts = append(texts, struct{ text, label string }{textgen.Render([]*textgen.Def{d}, textgen.Layouts[0]), d.Label})
	}
	for i, d0 := range a0 {
		d1 := a1[(i*7+3)%len(a1)]
		texts = append(texts, struct{ text, label string }{textgen.Render([]*textgen.Def{d0, d1}, textgen.Layouts[0]), d0.Label + ">" + d1.Label})
		if run.Thorough() {
			for _, d1 := range a1 {
				texts = append(texts, struct{ text, label string }{textgen.Render([]*textgen.Def{d0, d1}, textgen.Layouts[1]), d0.Label + ">" + d1.Label})
			}
		}
	}
	vlib.ParallelFor(len(texts), func(ti int) {
		t := texts[ti]
		if !readFile(strings.NewReader(t.text)).ok {
			return
		}
		// offsets at which the text so far is itself a complete accepted schema = definition boundaries
		for k := 0; k <= len(t.text); k++ {
			boundary := "inside-definition"
			if pre := readFile(strings.NewReader(t.text[:k])); pre.ok {
				boundary = "at-definition-boundary"
			}
			for style := 0; style < 3; style++ {
				for chunk := 0; chunk < 5; chunk++ {
					if k == len(t.text) && style == 1 {
						continue // the error arrives together with the last byte: still a failed read
					}
					fr := &faultReader{data: []byte(t.text), k: k, style: style, chunk: chunk % 4}
					var src io.Reader = fr
					if chunk == 4 {
						src = richFaultReader{fr} // full reads through a reader that also offers ReadByte
					}
					atomic.AddInt64(&states, 1)
					atomic.AddInt64(&faults, 1)
					r := guarded(t.text, func() result { return readFile(src) })
					atomic.AddInt64(&trans, 1)
					c := map[string]any{"input": t.text, "fail_at": k, "style": style, "chunk": chunk, "definitions": t.label}
					if r.panic != "" {
						run.Report(fmt.Sprintf("C10|read-fault|panic|%s", panicClass(r.panic)), fmt.Sprintf("ReadFile panicked when the reader failed at byte %d: %s", k, r.panic), c)
					} else if r.ok {
						run.Report(fmt.Sprintf("C10|read-fault|error-swallowed|%s|style=%d", boundary, style),
							fmt.Sprintf("the reader failed after %d of %d bytes (%s) but ReadFile returned nil (%d definitions)", k, len(t.text), boundary, len(r.file.Structs)+len(r.file.Messages)+len(r.file.Enums)+len(r.file.Unions)+len(r.file.Consts)+len(r.file.Imports)), c)
					}
				}
			}
		}
	})
	close(stop)

	run.Sample(map[string]any{"lexeme_input": jobs[40].text})
	run.Sample(map[string]any{"byte_input": jobs[nLex+100].text, "context": jobs[nLex+100].ctx})
	run.Sample(map[string]any{"read_fault": "every offset 0..len of " + fmt.Sprint(len(texts)) + " valid texts × {(0,err), (n,err), transient (0,err) after which the data continues} × {full reads, 1-byte reads, 7-byte reads, reads interleaved with (0,nil), full reads through a reader that also offers ReadByte}"})
	run.Coverage["states"] = states
	run.Coverage["transitions"] = trans
	run.Coverage["traces_validated_against_impl"] = trans
	run.Coverage["evaluations"] = states
	run.Coverage["accepted_inputs"] = accepted
	run.Coverage["reader_fault_points"] = faults
	run.Coverage["distinct_nontrivial"] = outcomes.Distinct()
	run.Coverage["lexeme_alphabet"] = len(lexemes)
	run.Coverage["max_lexemes"] = maxLex
	run.Coverage["byte_alphabet"] = len(byteAlphabet)
	run.Coverage["max_bytes"] = maxBytes
	run.Coverage["start_states"] = len(contexts)
	run.Coverage["rule"] = "state = one input (all lexeme strings ≤ max_lexemes over a 37-lexeme alphabet from 2 start states; all byte strings ≤ max_bytes over a 27-byte alphabet from 11 start states; every comment content of up to 4 (5) pieces of the tag syntax in 6 comment positions; 34 well-formed definitions × 28 tails) or one (valid text, failure offset, style, chunking) reader fault; oracle: no panic, returns (60 s watchdog), a failing reader yields an error, success implies an appended definition is seen; distinct = distinct outcomes (error / panic class / accepted File)"
	run.Assume = []string{"the coverage-guided fuzzing clause of the quantifier is a different technique and is replaced by exhaustive small-alphabet strings"}
	run.Finish()
}

// chunkReader returns at most chunk bytes per Read.
type chunkReader struct {
	data  []byte
	pos   int
	chunk int
}

func (c *chunkReader) Read(p []byte) (int, error) {
	if c.pos >= len(c.data) {
		return 0, io.EOF
	}
	n := c.chunk
	if n > len(p) {
		n = len(p)
	}
	if n > len(c.data)-c.pos {
		n = len(c.data) - c.pos
	}
	copy(p, c.data[c.pos:c.pos+n])
	c.pos += n
	return n, nil
}

// bufioSized is an ordinary reader (whole-slice reads), so only the tokenizer's own buffer boundaries matter.
func bufioSized(text string) io.Reader { return strings.NewReader(text) }

func defs(f bebop.File) int {
	return len(f.Structs) + len(f.Messages) + len(f.Enums) + len(f.Unions) + len(f.Consts) + len(f.Imports)
}
