package main

import (
	"bytes"
	"fmt"
	"os"
	"time"

	"github.com/200sc/bebop"
)

func main() {
	for _, m := range []bebop.ImportGenerationMode{bebop.ImportGenerationModeSeparate, bebop.ImportGenerationModeCombined} {
		f, _ := os.Open(os.Args[1])
		bf, _, err := bebop.ReadFile(f)
		f.Close()
		if err != nil {
			panic(err)
		}
		var b bytes.Buffer
		t0 := time.Now()
		for i := 0; i < 1000; i++ {
			b.Reset()
			err = bf.Generate(&b, bebop.GenerateSettings{PackageName: "out", ImportGenerationMode: m})
		}
		fmt.Println(time.Since(t0)/1000, err, b.Len())
		if m == 0 {
			fmt.Println(b.String()[:600])
		}
	}
}
