// C18 — Imports resolve, terminate, and mean the same as inlining the files.
//
// Bounded-exhaustive model check on the real generator: every directed graph (self-loops allowed)
// over n <= 3 files (quick: plus the 4,096 self-import-free graphs over 4 files; thorough: all 65,536)
// x go_package assignment x import mode x directory placement / import spelling is materialised on
// disk and generated with the code under test; an independent reference (own reachability, own
// cycle DFS, own inliner) says what must come out. See NOTES.md.
package main

import (
	"encoding/json"
	"flag"
	"fmt"
	"os"
	"path/filepath"
	"runtime"
	"sort"
	"strings"
	"sync"
	"sync/atomic"
	"syscall"
	"time"

	"verif/vlib"
)

var workBase string

func cleanup() {
	if workBase != "" {
		_ = os.RemoveAll(workBase)
	}
}

func fatalf(format string, a ...any) {
	cleanup()
	vlib.Fatal(format, a...)
}

// ---------------------------------------------------------------------------------------------
// violation collector: keeps, per signature, the smallest witness (deterministic whatever the
// scheduling of the workers) and the number of cases.

type entry struct {
	count int
	rank  []int
	msg   string
	c     map[string]any
}

type collector struct {
	mu sync.Mutex
	m  map[string]*entry
}

func less(a, b []int) bool {
	for i := range a {
		if i >= len(b) {
			return false
		}
		if a[i] != b[i] {
			return a[i] < b[i]
		}
	}
	return len(a) < len(b)
}

func (c *collector) add(sig, msg string, rank []int, mk func() map[string]any) {
	c.mu.Lock()
	defer c.mu.Unlock()
	e := c.m[sig]
	if e == nil {
		e = &entry{}
		c.m[sig] = e
	}
	e.count++
	if e.c == nil || less(rank, e.rank) {
		e.rank, e.msg, e.c = rank, msg, mk()
	}
}

// ---------------------------------------------------------------------------------------------

type explorer struct {
	run      *vlib.Run
	col      *collector
	states   atomic.Int64
	asserted atomic.Int64 // states where more than termination is asserted
	evals    atomic.Int64
	triples  *vlib.Counter // (canonical graph+package pattern, mode, outcome class) on flat/plain
	classes  *vlib.Counter // mode/outcome class
	shapes   *vlib.Counter // shape classes explored
	sampleMu sync.Mutex
	sampled  map[string]bool
	verbose  bool
}

type worker struct {
	x       *explorer
	sc      *scratch
	lastDur map[string]time.Duration // Generate time per mode of the last base-placement run
}

// oddness orders witnesses: separate mode prefers "every file has its own go_package", combined
// mode prefers "no go_package anywhere".
func oddness(s *spec, e *expectation, mode string) int {
	if mode == modeCombined {
		return e.PkgFiles
	}
	seen := map[string]bool{}
	odd := 0
	for _, p := range s.Pkgs {
		if p == "" || seen[p] {
			odd++
		}
		seen[p] = true
	}
	return odd
}

// edgeCode is a deterministic tie-breaker between graphs of the same size.
func edgeCode(s *spec) int {
	v := 0
	for _, e := range s.edges() {
		v = (v*31 + e[0]*s.N + e[1] + 1) % 1000003
	}
	return v
}

var shapeRank = map[string]int{"tree": 0, "diamond": 1, "cycle": 2, "root-reimported": 3, "self-import": 4, "root-self-import": 5, "no-imports": 6}

func placementIndex(p placement) int {
	for i, q := range allPlacements {
		if p == q {
			return i
		}
	}
	return len(allPlacements)
}

func where(p placement) string {
	if p.Kind == "flat" {
		return "same-directory-spelling-" + p.Style
	}
	return "transitive-import-in-other-directory"
}

func expectedText(e *expectation, mode string) string {
	if mode == modeSeparate {
		switch {
		case e.MissingPkg && e.PkgCyclic:
			return "an import-cycle error (an imported file has no go_package, and the go_package graph is cyclic however such files are counted)"
		case e.MissingPkg:
			return "an error (an imported file has no go_package)"
		case e.PkgCyclic:
			return "an import-cycle error (go_package graph reachable from the root is cyclic)"
		}
		return "a result (go_package graph reachable from the root is acyclic)"
	}
	if e.FileCyclic {
		return "termination with a result or an error (cyclic file graph)"
	}
	return "the output of the inlined schema"
}

func excerpt(b []byte) string { return vlib.Short(string(b), 1200) }

// explore runs one (graph, package assignment) through the given placements and both modes.
// fixedFiles (replay only) overrides the materialised files of a placement.
func (w *worker) explore(s *spec, places []placement, onlyMode string, assignIdx int, fixedFiles map[string]map[string]string, sampleAs string) []finding {
	x := w.x
	e := derive(s)
	var ref *inlineRef
	if !e.FileCyclic {
		ref = makeInlineRef(s, e)
	}
	x.shapes.Add(e.Shape)
	flatSigs := map[string]map[string]bool{}
	flatRes := map[string]result{}
	var all []finding
	for _, p := range places {
		files := materialise(s, p)
		if ff, ok := fixedFiles[p.name()]; ok {
			files = ff
		}
		slot := "p-" + p.Kind + "-" + p.Style
		w.sc.install(slot, files)
		root := w.sc.abs(p.rel(0))
		for mi, mode := range modes {
			if onlyMode != "" && mode != onlyMode {
				continue
			}
			r := generateFile(root, mode)
			x.states.Add(1)
			x.evals.Add(1)
			if !(mode == modeCombined && e.FileCyclic) {
				x.asserted.Add(1)
			}
			counterfactual := func() bool {
				x.evals.Add(1)
				p2 := make([]string, s.N)
				p2[0] = s.Pkgs[0]
				s2 := s.withPkgs(p2)
				e2 := derive(s2)
				ref2 := makeInlineRef(s2, e2)
				w.sc.install(slot, materialise(s2, p))
				r2 := generateFile(root, modeCombined)
				w.sc.install(slot, files)
				if r2.class() != "ok" {
					return false
				}
				k, _ := compareDecls(r2.Out, ref2.Out)
				return k == ""
			}
			fs := judge(s, e, mode, r, ref, counterfactual)
			marker := strings.Contains(string(r.Out), decoyMarker) || strings.Contains(r.errText(), decoyMarker)
			isBase := p == allPlacements[0]
			if isBase {
				flatSigs[mode] = map[string]bool{}
				for _, f := range fs {
					flatSigs[mode][f.Sig] = true
				}
				flatRes[mode] = r
				if w.lastDur == nil {
					w.lastDur = map[string]time.Duration{}
				}
				w.lastDur[mode] = r.Dur
				x.triples.Add(canon(s, e) + "|" + mode + "|" + r.class())
				x.classes.Add(mode + "/" + r.class())
			} else {
				// oracle 4: the same logical graph in another placement / spelling must behave the same.
				var out []finding
				label := "wrong-result"
				if r.Err != nil {
					label = "error"
				}
				switch {
				case marker:
					out = append(out, finding{Sig: fmt.Sprintf("C18|path-resolution|%s|decoy-picked|%s", where(p), mode),
						Msg: fmt.Sprintf("placement %s: a decoy file next to the ROOT (never addressed by any import path relative to its importing file) was read: it shows in the %s", p.name(), map[bool]string{true: "error: " + r.errText(), false: "generated output"}[r.Err != nil])})
				default:
					for _, f := range fs {
						base, known := flatSigs[mode]
						if strings.HasPrefix(f.Sig, "C18|termination|") || (known && base[f.Sig]) {
							out = append(out, f)
							continue
						}
						out = append(out, finding{Sig: fmt.Sprintf("C18|path-resolution|%s|%s|%s", where(p), label, mode),
							Msg: fmt.Sprintf("placement %s (every import path written relative to the importing file) deviates although the same graph in one directory conforms: %s [%s]", p.name(), f.Msg, f.Sig)})
					}
					if fr, ok := flatRes[mode]; ok && len(fs) == 0 && len(flatSigs[mode]) == 0 && mode == modeSeparate &&
						r.class() == "ok" && fr.class() == "ok" && string(r.Out) != string(fr.Out) {
						x.evals.Add(1)
						out = append(out, finding{Sig: fmt.Sprintf("C18|path-resolution|%s|output-differs-from-single-directory|%s", where(p), mode),
							Msg: "the generated output differs from the output for the same files placed in one directory"})
					}
				}
				fs = out
			}
			if sampleAs != "" && isBase {
				x.run.Sample(map[string]any{"what": sampleAs, "edges": s.edgeString(), "go_packages": s.Pkgs, "mode": mode, "placement": p.name(),
					"files": files, "shape": e.Shape, "reference_expects": expectedText(e, mode), "observed": r.class(), "error": r.errText(),
					"generate_us": r.Dur.Microseconds(), "output_bytes": len(r.Out), "verdict": map[bool]string{true: "conforms", false: "VIOLATION"}[len(fs) == 0]})
			}
			for _, f := range fs {
				f := f
				f.Place, f.Mode, f.Observed, f.ObservedErr = p.name(), mode, r.class(), r.errText()
				all = append(all, f)
				rank := []int{shapeRank[e.Shape], len(e.Reach), len(s.edges()), s.N, oddness(s, e, mode), edgeCode(s), assignIdx, placementIndex(p), mi}
				x.col.add(f.Sig, f.Msg, rank, func() map[string]any {
					c := map[string]any{
						"kind": "graph", "n": s.N, "edges": s.edgeString(), "edge_pairs": s.edges(), "go_packages": s.Pkgs, "hollow": s.Hollow,
						"mode": mode, "placement": map[string]string{"kind": p.Kind, "style": p.Style}, "root": p.rel(0),
						"files": files, "shape": e.Shape, "reachable_files": e.Reach,
						"file_graph_cyclic": e.FileCyclic, "go_package_graph_cyclic": e.PkgCyclic, "imported_file_without_go_package": e.MissingPkg,
						"reference_expects": expectedText(e, mode), "observed": r.class(), "observed_error": r.errText(),
						"observed_output": excerpt(r.Out), "generate_us": r.Dur.Microseconds(),
					}
					if ref != nil && mode == modeCombined {
						c["inline_schema"] = ref.Text
					}
					return c
				})
			}
		}
	}
	return all
}

// ---------------------------------------------------------------------------------------------

func parallel(n int, f func(w *worker, i int), x *explorer) {
	nw := runtime.NumCPU()
	if nw > n {
		nw = n
	}
	if nw < 1 {
		nw = 1
	}
	var next atomic.Int64
	var wg sync.WaitGroup
	for k := 0; k < nw; k++ {
		wg.Add(1)
		go func(k int) {
			defer wg.Done()
			w := &worker{x: x, sc: newScratch(filepath.Join(workBase, fmt.Sprintf("w%d", k)))}
			for {
				i := int(next.Add(1)) - 1
				if i >= n {
					return
				}
				f(w, i)
			}
		}(k)
	}
	wg.Wait()
}

func main() {
	prop := flag.String("property", "C18", "")
	replay := flag.String("replay", "", "")
	relchild := flag.Bool("relchild", false, "internal: generate a root given by relative name from another cwd")
	cwd := flag.String("cwd", "", "internal")
	rootArg := flag.String("root", "", "internal")
	modeArg := flag.String("mode", "", "internal")
	flag.Parse()
	if *relchild {
		relChildMain(*cwd, *rootArg, *modeArg)
		return
	}
	workBase = filepath.Join(vlib.VerifDir(), ".cache", "work", fmt.Sprintf("c18-%d", os.Getpid()))
	if err := os.MkdirAll(workBase, 0o755); err != nil {
		vlib.Fatal("cannot create %s: %v", workBase, err)
	}
	run := vlib.NewRun(*prop, "model_checking")
	// resources must not grow with the number of import statements: the soft open-file limit is lowered to 512, and one of
	// the termination families has more import statements than that
	var rl syscall.Rlimit
	if err := syscall.Getrlimit(syscall.RLIMIT_NOFILE, &rl); err == nil && rl.Cur > 512 {
		rl.Cur = 512
		_ = syscall.Setrlimit(syscall.RLIMIT_NOFILE, &rl)
	}
	x := &explorer{run: run, col: &collector{m: map[string]*entry{}}, triples: vlib.NewCounter(), classes: vlib.NewCounter(),
		shapes: vlib.NewCounter(), sampled: map[string]bool{}}
	if *replay != "" {
		rc := doReplay(x, *replay)
		cleanup()
		os.Exit(rc)
	}

	// ---- phase 1: all directed graphs ----
	t0 := time.Now()
	// a job is a block of consecutive masks (only f0's imports change between neighbours, so most
	// files on disk stay as they are)
	type job struct {
		n      int
		lo, hi uint64
	}
	// quick tier, 4 files: only the 4,096 graphs without self-imports (all 65,536 in thorough)
	skip := func(n int, mask uint64) bool {
		if n != 4 || run.Thorough() {
			return false
		}
		for i := 0; i < n; i++ {
			if mask&(1<<uint(i*n+i)) != 0 {
				return true
			}
		}
		return false
	}
	var jobs []job
	graphsPerN := map[string]int{}
	totalGraphs := 0
	for n := 1; n <= 4; n++ {
		cnt := uint64(1) << uint(n*n)
		for m := uint64(0); m < cnt; m++ {
			if !skip(n, m) {
				graphsPerN[fmt.Sprint(n)]++
				totalGraphs++
			}
		}
		block := uint64(1) << uint(n) // all choices of f0's imports
		if n == 3 {
			block = 16
		}
		if n == 4 {
			block = 64
		}
		for lo := uint64(0); lo < cnt; lo += block {
			jobs = append(jobs, job{n, lo, lo + block})
		}
	}
	assign := map[int][][]string{1: pkgAssignments(1), 2: pkgAssignments(2), 3: pkgAssignments(3)}
	for n := 2; n <= 3; n++ {
		assign[n] = append(assign[n], collidingPkgs(n)...)
	}
	// 4 files: quick = distinct go_packages in one directory; thorough = the 8
	// representative assignments of pkgAssignments4 in one directory, two of them also in the
	// nested / decoy (and mixed-spelling) placements.
	places4full := []placement{{"flat", "plain"}, {"flat", "mixed"}, {"deep", "plain"}, {"decoy", "plain"}}
	places4 := map[int][]placement{}
	if run.Thorough() {
		assign[4] = pkgAssignments4()
		for ai := range assign[4] {
			places4[ai] = allPlacements[:1]
		}
		places4[0] = places4full                                                           // all distinct
		places4[4] = []placement{{"flat", "plain"}, {"deep", "plain"}, {"decoy", "plain"}} // two imported files share a package
	} else {
		// quick: all distinct, in one directory - once with ordinary names, once with names whose concatenations coincide
		assign[4] = append(pkgAssignments4()[:1], collidingPkgs(4)[0])
		places4[0] = []placement{allPlacements[0], {"samename", "plain"}} // two real files with one spelling need four files
		places4[1] = allPlacements[:1]
	}
	samples := map[string]string{ // n:mask:assignment index -> label
		fmt.Sprintf("3:%d", 1<<1|1<<2|1<<5):         "diamond over 3 files: f0 imports f1 and f2, f1 imports f2",
		fmt.Sprintf("3:%d", 1<<1|1<<(3+2)|1<<(6+1)): "cycle below the root: f0 -> f1 -> f2 -> f1",
		fmt.Sprintf("2:%d", 1<<1|1<<2):              "root re-imported: f0 -> f1 -> f0",
	}
	var graphsDone, hollowCases atomic.Int64
	parallel(len(jobs), func(w *worker, i int) {
		j := jobs[i]
		for ai, pk := range assign[j.n] {
			places := allPlacements
			if j.n == 4 {
				places = places4[ai]
			}
			if run.TimeUp("graph enumeration") {
				return
			}
			for mask := j.lo; mask < j.hi; mask++ {
				if skip(j.n, mask) {
					continue
				}
				s := specFromMask(j.n, mask).withPkgs(pk)
				label := ""
				if l, ok := samples[fmt.Sprintf("%d:%d", j.n, mask)]; ok && allSet(pk) && allDistinct(pk) {
					label = l
				}
				w.explore(s, places, "", ai, nil, label)
				// the same graph with ONE imported file that has no go_package turned into an index file (imports only)
				for h := 1; h < j.n && j.n <= 3; h++ {
					if pk[h] == "" && reachable(s, h) {
						hollowCases.Add(1)
						w.explore(s.withHollow(h), allPlacements[:1], "", ai, nil, "")
					}
				}
			}
		}
		for mask := j.lo; mask < j.hi; mask++ {
			if !skip(j.n, mask) {
				graphsDone.Add(1)
			}
		}
	}, x)
	if int(graphsDone.Load()) != totalGraphs {
		run.Cap(fmt.Sprintf("graph enumeration stopped after %d of %d graphs", graphsDone.Load(), totalGraphs))
	}
	enumStates := x.states.Load()
	tEnum := time.Since(t0).Seconds()

	// ---- phase 2: termination families (layered diamonds, chains, complete DAGs) ----
	famMs := terminationFamilies(x, run)
	tFam := time.Since(t0).Seconds() - tEnum

	// ---- phase 3: relative root FileName, cwd changed in a subprocess ----
	relRuns := relativeRootCheck(x)
	tRel := time.Since(t0).Seconds() - tEnum - tFam

	// ---- report ----
	sigs := make([]string, 0, len(x.col.m))
	for s := range x.col.m {
		sigs = append(sigs, s)
	}
	sort.Strings(sigs)
	for _, s := range sigs {
		e := x.col.m[s]
		for k := 0; k < e.count; k++ {
			run.Report(s, e.msg, e.c)
		}
	}
	run.Coverage["rule"] = "every directed graph with self-loops over n<=4 files (root = f0) x go_package assignment x {separate, combined} x placement/spelling is written to disk and generated by the real code; reference = own FIFO reachability, own three-colour DFS over the go_package graph, own inliner + go/parser declaration comparison"
	run.Coverage["states"] = x.states.Load()
	run.Coverage["states_graph_enumeration"] = enumStates
	run.Coverage["transitions"] = generateCalls.Load()
	run.Coverage["traces_validated_against_impl"] = x.states.Load()
	run.Coverage["states_asserting_more_than_termination"] = x.asserted.Load()
	run.Coverage["evaluations"] = x.evals.Load()
	run.Coverage["distinct_nontrivial"] = x.triples.Distinct()
	run.Coverage["distinct_nontrivial_meaning"] = "distinct (reachable sub-graph + go_package pattern up to renaming of non-root files, mode, observed outcome class) triples, measured on the flat/plain placement"
	run.Coverage["graphs_per_n"] = graphsPerN
	run.Coverage["graphs_enumerated"] = graphsDone.Load()
	run.Coverage["index_file_cases"] = hollowCases.Load()
	run.Coverage["index_file_cases_meaning"] = "graphs over <=3 files x go_package assignment, with one reachable imported file that has no go_package reduced to its import statements (it declares nothing); single-directory placement, both modes"
	run.Coverage["go_package_assignments_per_n"] = map[string]int{"1": len(assign[1]), "2": len(assign[2]), "3": len(assign[3]), "4": len(assign[4])}
	pn := []string{}
	for _, p := range allPlacements {
		pn = append(pn, p.name())
	}
	run.Coverage["placements"] = pn
	p4 := map[string][]string{}
	for ai, pl := range places4 {
		for _, p := range pl {
			p4[strings.Join(assign[4][ai], ",")] = append(p4[strings.Join(assign[4][ai], ",")], p.name())
		}
	}
	run.Coverage["placements_n4_by_go_package_assignment"] = p4
	run.Coverage["outcome_classes"] = x.classes.Top(20)
	run.Coverage["shape_classes"] = x.shapes.Top(20)
	run.Coverage["max_generate_ms"] = float64(maxGenerateNs.Load()) / 1e6
	run.Coverage["generate_calls_over_5s"] = slowCalls.Load()
	run.Coverage["termination_families_ms"] = famMs
	run.Coverage["relative_root_subprocess_runs"] = relRuns
	run.Coverage["phase_wall_s"] = map[string]float64{"graph_enumeration": tEnum, "termination_families": tFam, "relative_root": tRel}
	run.Coverage["workers"] = runtime.NumCPU()
	run.Assume = append(run.Assume,
		"type names are unique across files (E<i>, S<i>, M<i>); every message references one struct of each directly imported file; PackageName is always given, so a root without go_package is legal in both modes",
		"separate mode: expected = error if an imported file (the root counts when it is re-imported) has no go_package - any error when the go_package graph is acyclic with each package-less file counted as its own package, an error containing 'cycle' when it is cyclic even so; else an error containing 'cycle' iff the go_package graph reachable from the root has a cycle (self-edges count: a file importing itself or a file of its own package); else no error. Nothing is asserted about the text of a separate-mode result except that it does not depend on placement/spelling",
		"combined mode on a cyclic file graph: only termination is asserted",
		"combined mode, inlined reference: go_package is treated as file metadata (only the first go_package const survives inlining, and the Go_package const is exempt from the declaration comparison); an error caused solely by several combined files carrying go_package is reported under its own signature C18|combined|error-on-acyclic|go_package-const-of-several-files-collides",
		"the decoy oracle looks for the substring 'ecoy' (only decoy files contain it) in the output or error; apart from that and the word 'cycle' no error wording is asserted",
		"symlinks, absolute import paths, import paths with backslashes, an empty File.FileName and colliding path.Base(go_package) namespaces are outside the alphabet",
	)
	cleanup()
	run.Finish()
}

func allSet(p []string) bool {
	for _, s := range p {
		if s == "" {
			return false
		}
	}
	return true
}

func allDistinct(p []string) bool {
	seen := map[string]bool{}
	for _, s := range p {
		if seen[s] {
			return false
		}
		seen[s] = true
	}
	return true
}

// ---------------------------------------------------------------------------------------------
// termination families

func layeredDiamond(depth int, closed bool) *spec {
	n := 1 + 2*depth
	var edges [][2]int
	edges = append(edges, [2]int{0, 1}, [2]int{0, 2})
	for k := 1; k < depth; k++ {
		for _, a := range []int{2*k - 1, 2 * k} {
			edges = append(edges, [2]int{a, 2*k + 1}, [2]int{a, 2*k + 2})
		}
	}
	if closed {
		edges = append(edges, [2]int{2*depth - 1, 0}, [2]int{2 * depth, 0})
	}
	return specFromEdges(n, edges)
}

func chain(l int, closed bool) *spec {
	var edges [][2]int
	for i := 0; i+1 < l; i++ {
		edges = append(edges, [2]int{i, i + 1})
	}
	if closed {
		edges = append(edges, [2]int{l - 1, 0})
	}
	return specFromEdges(l, edges)
}

func completeDAG(k int) *spec {
	var edges [][2]int
	for i := 0; i < k; i++ {
		for j := i + 1; j < k; j++ {
			edges = append(edges, [2]int{i, j})
		}
	}
	return specFromEdges(k, edges)
}

func terminationFamilies(x *explorer, run *vlib.Run) map[string]float64 {
	type fam struct {
		name string
		s    *spec
	}
	var fams []fam
	for d := 1; d <= 12; d++ {
		fams = append(fams, fam{fmt.Sprintf("layered-diamond-depth-%02d", d), layeredDiamond(d, false)})
	}
	fams = append(fams, fam{"layered-diamond-depth-12-closed", layeredDiamond(12, true)},
		fam{"layered-diamond-depth-06-closed", layeredDiamond(6, true)})
	chains := []int{2, 10, 50, 200}
	dags := []int{6, 10, 12, 40} // 40 files = 780 import statements, more than the lowered open-file limit (see main)
	if run.Thorough() {
		chains = append(chains, 1000)
		dags = append(dags, 14, 16)
		for _, d := range []int{14, 16, 18} {
			fams = append(fams, fam{fmt.Sprintf("layered-diamond-depth-%02d", d), layeredDiamond(d, false)})
		}
	}
	for _, l := range chains {
		fams = append(fams, fam{fmt.Sprintf("chain-%04d", l), chain(l, false)}, fam{fmt.Sprintf("chain-%04d-closed", l), chain(l, true)})
	}
	for _, k := range dags {
		fams = append(fams, fam{fmt.Sprintf("complete-dag-%02d", k), completeDAG(k)})
	}
	var mu sync.Mutex
	ms := map[string]float64{}
	// the family that exceeds the open-file limit runs alone, after the others: a Generate that keeps its imports open
	// must fail by itself, not make the harness's own file operations fail
	var alone []fam
	for i := 0; i < len(fams); i++ {
		if fams[i].s.N >= 40 && strings.HasPrefix(fams[i].name, "complete-dag") {
			alone = append(alone, fams[i])
			fams = append(fams[:i], fams[i+1:]...)
			i--
		}
	}
	defer func() {
		for _, f := range alone {
			f := f
			parallel(1, func(w *worker, _ int) {
				for ai, pk := range [][]string{distinctPkgs(f.s.N), make([]string, f.s.N)} {
					w.explore(f.s.withPkgs(pk), allPlacements[:1], "", ai, nil, "")
				}
			}, x)
		}
	}()
	parallel(len(fams), func(w *worker, i int) {
		f := fams[i]
		for ai, pk := range [][]string{distinctPkgs(f.s.N), make([]string, f.s.N)} {
			s := f.s.withPkgs(pk)
			w.explore(s, allPlacements[:1], "", ai, nil, "")
			mu.Lock()
			for _, mode := range modes {
				ms[f.name+map[int]string{0: "/distinct-go_packages/", 1: "/no-go_package/"}[ai]+mode] = float64(w.lastDur[mode].Microseconds()) / 1000
			}
			mu.Unlock()
		}
	}, x)
	return ms
}

// ---------------------------------------------------------------------------------------------
// replay

type replayFile struct {
	Signature string         `json:"signature"`
	Message   string         `json:"message"`
	Case      map[string]any `json:"case"`
}

func doReplay(x *explorer, path string) int {
	b, err := os.ReadFile(path)
	if err != nil {
		fatalf("cannot read replay file: %v", err)
	}
	var rf replayFile
	if err := json.Unmarshal(b, &rf); err != nil || rf.Case == nil {
		fatalf("replay file %s has no C18 case: %v", path, err)
	}
	var c struct {
		Kind      string            `json:"kind"`
		N         int               `json:"n"`
		Pairs     [][2]int          `json:"edge_pairs"`
		Pkgs      []string          `json:"go_packages"`
		Hollow    []bool            `json:"hollow"`
		Mode      string            `json:"mode"`
		Placement map[string]string `json:"placement"`
		Files     map[string]string `json:"files"`
		Cwd       string            `json:"cwd"`
	}
	cb, _ := json.Marshal(rf.Case)
	if err := json.Unmarshal(cb, &c); err != nil || c.N == 0 || len(c.Pkgs) != c.N {
		fatalf("replay case is not a C18 case: %v", err)
	}
	s := specFromEdges(c.N, c.Pairs).withPkgs(c.Pkgs)
	if len(c.Hollow) == c.N {
		s.Hollow = c.Hollow
	}
	p := placement{c.Placement["kind"], c.Placement["style"]}
	e := derive(s)
	fmt.Printf("replaying %s\n  graph %s  go_packages %q  mode %s  placement %s  shape %s\n  reference expects: %s\n",
		rf.Signature, s.edgeString(), s.Pkgs, c.Mode, p.name(), e.Shape, expectedText(e, c.Mode))
	if c.Kind == "relative-root" {
		fs := relativeOne(x, s, p, c.Mode, c.Cwd, 0)
		for _, f := range fs {
			fmt.Printf("  STILL VIOLATES %s\n    %s\n", f.Sig, f.Msg)
		}
		if len(fs) > 0 {
			return 1
		}
		fmt.Println("  conforms now")
		return 0
	}
	if len(c.Files) > 0 {
		gen := materialise(s, p)
		same := len(gen) == len(c.Files)
		for k, v := range c.Files {
			if gen[k] != v {
				same = false
			}
		}
		if !same {
			fmt.Println("  note: the files stored in the replay differ from what this harness version would write; using the stored files")
		}
	}
	w := &worker{x: x, sc: newScratch(filepath.Join(workBase, "replay"))}
	places := []placement{allPlacements[0]}
	fixed := map[string]map[string]string{}
	if p != allPlacements[0] {
		places = append(places, p)
	}
	if len(c.Files) > 0 {
		fixed[p.name()] = c.Files
	}
	for _, k := range sortedKeys(c.Files) {
		fmt.Printf("  --- %s\n%s", k, indent(c.Files[k]))
	}
	fs := w.explore(s, places, c.Mode, 0, fixed, "")
	bad := 0
	for _, f := range fs {
		if f.Place != p.name() {
			continue // the single-directory baseline run, only used to classify
		}
		bad++
		fmt.Printf("  observed: %s  error: %q\n  STILL VIOLATES %s\n    %s\n", f.Observed, f.ObservedErr, f.Sig, f.Msg)
	}
	if bad > 0 {
		return 1
	}
	fmt.Println("  conforms now")
	return 0
}

func indent(s string) string {
	return "      " + strings.ReplaceAll(strings.TrimRight(s, "\n"), "\n", "\n      ") + "\n"
}

// reachable: file h is reached from the root by the import worklist.
func reachable(s *spec, h int) bool {
	for _, i := range derive(s).Reach {
		if i == h {
			return true
		}
	}
	return false
}
