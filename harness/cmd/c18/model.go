package main

// The reference model: import graphs, package assignments, reachability, the two cycle verdicts,
// graph-shape classes and canonical forms. Nothing in this file touches the code under test.

import (
	"fmt"
	"sort"
	"strings"
)

// spec is one import graph over files f0..f(N-1) (f0 is the root being generated) plus the
// go_package of every file ("" = the file has no go_package const).
type spec struct {
	N    int
	Out  [][]int // Out[i] = files imported by fi, ascending (the order of the import statements)
	Pkgs []string
	// Hollow[i]: file i declares nothing - it consists of import statements only (an "index file"); nil = no such file
	Hollow []bool
}

func (s *spec) hollow(i int) bool { return s.Hollow != nil && s.Hollow[i] }

func (s *spec) withHollow(i int) *spec {
	h := make([]bool, s.N)
	h[i] = true
	return &spec{N: s.N, Out: s.Out, Pkgs: s.Pkgs, Hollow: h}
}

func newSpec(n int) *spec {
	return &spec{N: n, Out: make([][]int, n), Pkgs: make([]string, n)}
}

// specFromMask: bit i*n+j set <=> fi imports fj.
func specFromMask(n int, mask uint64) *spec {
	s := newSpec(n)
	for i := 0; i < n; i++ {
		for j := 0; j < n; j++ {
			if mask&(1<<uint(i*n+j)) != 0 {
				s.Out[i] = append(s.Out[i], j)
			}
		}
	}
	return s
}

func specFromEdges(n int, edges [][2]int) *spec {
	s := newSpec(n)
	for _, e := range edges {
		s.Out[e[0]] = append(s.Out[e[0]], e[1])
	}
	for i := range s.Out {
		sort.Ints(s.Out[i])
	}
	return s
}

func (s *spec) edges() [][2]int {
	out := [][2]int{}
	for i, l := range s.Out {
		for _, j := range l {
			out = append(out, [2]int{i, j})
		}
	}
	return out
}

func (s *spec) edgeString() string {
	var b strings.Builder
	for _, e := range s.edges() {
		fmt.Fprintf(&b, "%d>%d ", e[0], e[1])
	}
	return strings.TrimSpace(b.String())
}

func (s *spec) withPkgs(p []string) *spec {
	return &spec{N: s.N, Out: s.Out, Pkgs: p, Hollow: s.Hollow}
}

// pkgAssignments enumerates EVERY assignment of go_package values to n files up to renaming:
// each file has none, or belongs to a block of a set partition of the files that have one; a block
// is named after its smallest member ("github.com/t/p<k>"). n=1: 2, n=2: 5, n=3: 15, n=4: 52.
func pkgAssignments(n int) [][]string {
	var out [][]string
	lab := make([]int, n) // -1 none, else block number in restricted-growth form
	var rec func(i, blocks int)
	rec = func(i, blocks int) {
		if i == n {
			first := map[int]int{}
			p := make([]string, n)
			for k, l := range lab {
				if l < 0 {
					continue
				}
				if _, ok := first[l]; !ok {
					first[l] = k
				}
				p[k] = fmt.Sprintf("github.com/t/p%d", first[l])
			}
			out = append(out, p)
			return
		}
		lab[i] = -1
		rec(i+1, blocks)
		for l := 0; l <= blocks; l++ {
			lab[i] = l
			nb := blocks
			if l == blocks {
				nb++
			}
			rec(i+1, nb)
		}
	}
	rec(0, 0)
	return out
}

// collidingPkgs are distinct go_package values chosen so that concatenations of two of them coincide ("m"+"mm" ==
// "mm"+"m", ""+"ab" == "a"+"b"): whatever the implementation keys by a pair of packages must keep the pair apart.
func collidingPkgs(n int) [][]string {
	a := []string{"m", "mm", "mmm", "mmmm"}[:n]
	b := []string{"", "ab", "a", "b"}[:n]
	return [][]string{a, b}
}

func distinctPkgs(n int) []string {
	p := make([]string, n)
	for i := range p {
		p[i] = fmt.Sprintf("github.com/t/p%d", i)
	}
	return p
}

// representative assignments for 4 files (the full set has 52).
func pkgAssignments4() [][]string {
	d := func(i int) string { return fmt.Sprintf("github.com/t/p%d", i) }
	return [][]string{
		{d(0), d(1), d(2), d(3)}, // all distinct
		{"", "", "", ""},         // none anywhere
		{"", d(1), d(2), d(3)},   // root without, imports distinct
		{d(0), d(1), d(2), ""},   // one importable file without
		{d(0), d(1), d(1), d(3)}, // two imported files share a package
		{d(0), d(1), d(2), d(0)}, // root shares its package with an imported file
		{d(0), d(1), d(2), d(2)}, // the two "last" files share
		{d(0), d(0), d(0), d(0)}, // everything in one package
	}
}

// expectation is everything the oracles need, derived from the spec alone.
type expectation struct {
	Order      []int        // imported files in order of first reach by a FIFO worklist (may contain 0)
	Imported   map[int]bool // = set(Order)
	Reach      []int        // {0} ∪ Imported, ascending
	FileCyclic bool         // the file graph reachable from f0 has a cycle (self-imports count)
	MissingPkg bool         // an imported file has no go_package
	PkgCyclic  bool         // the go_package graph reachable from f0 has a cycle (self-edges count)
	PkgFiles   int          // number of files among Reach that carry a go_package const
	Shape      string
}

const (
	white = 0
	grey  = 1
	black = 2
)

// hasCycle is a plain three-colour DFS over an adjacency map (own code, self-edges are cycles).
func hasCycle(nodes []string, adj map[string][]string) bool {
	col := map[string]int{}
	var visit func(u string) bool
	visit = func(u string) bool {
		col[u] = grey
		for _, v := range adj[u] {
			switch col[v] {
			case grey:
				return true
			case white:
				if visit(v) {
					return true
				}
			}
		}
		col[u] = black
		return false
	}
	for _, u := range nodes {
		if col[u] == white && visit(u) {
			return true
		}
	}
	return false
}

func derive(s *spec) *expectation {
	e := &expectation{Imported: map[int]bool{}}
	queue := append([]int(nil), s.Out[0]...)
	for len(queue) > 0 {
		j := queue[0]
		queue = queue[1:]
		if e.Imported[j] {
			continue
		}
		e.Imported[j] = true
		e.Order = append(e.Order, j)
		queue = append(queue, s.Out[j]...)
	}
	inReach := map[int]bool{0: true}
	for j := range e.Imported {
		inReach[j] = true
	}
	for i := range inReach {
		e.Reach = append(e.Reach, i)
	}
	sort.Ints(e.Reach)

	// file graph
	fnodes := []string{}
	fadj := map[string][]string{}
	for _, i := range e.Reach {
		u := fmt.Sprint(i)
		fnodes = append(fnodes, u)
		for _, j := range s.Out[i] {
			fadj[u] = append(fadj[u], fmt.Sprint(j))
		}
	}
	e.FileCyclic = hasCycle(fnodes, fadj)

	// go_package graph: a root without go_package is an anonymous package of its own.
	label := func(i int) string {
		if s.Pkgs[i] == "" {
			return fmt.Sprintf("\x00anonymous-%d", i)
		}
		return s.Pkgs[i]
	}
	for j := range e.Imported {
		if s.Pkgs[j] == "" {
			e.MissingPkg = true
		}
	}
	pnodes := []string{}
	seen := map[string]bool{}
	padj := map[string][]string{}
	for _, i := range e.Reach {
		if s.Pkgs[i] != "" {
			e.PkgFiles++
		}
		u := label(i)
		if !seen[u] {
			seen[u] = true
			pnodes = append(pnodes, u)
		}
		for _, j := range s.Out[i] {
			padj[u] = append(padj[u], label(j))
		}
	}
	e.PkgCyclic = hasCycle(pnodes, padj)
	e.Shape = shapeOf(s, e)
	return e
}

// shapeOf names the shape class of the reachable file graph (first matching rule wins).
func shapeOf(s *spec, e *expectation) string {
	if len(s.Out[0]) == 0 {
		return "no-imports"
	}
	has := func(i, j int) bool {
		for _, k := range s.Out[i] {
			if k == j {
				return true
			}
		}
		return false
	}
	if has(0, 0) {
		return "root-self-import"
	}
	for _, i := range e.Reach {
		if has(i, i) {
			return "self-import"
		}
	}
	if e.Imported[0] {
		return "root-reimported"
	}
	if e.FileCyclic {
		return "cycle"
	}
	indeg := map[int]int{}
	for _, i := range e.Reach {
		for _, j := range s.Out[i] {
			indeg[j]++
		}
	}
	for _, d := range indeg {
		if d >= 2 {
			return "diamond"
		}
	}
	return "tree"
}

// sepShape adds the package-level reason when the file graph is acyclic but the package graph is not.
func sepShape(e *expectation) string {
	if !e.FileCyclic && e.PkgCyclic && !e.MissingPkg {
		return e.Shape + "+shared-go_package"
	}
	return e.Shape
}

// canon is a canonical form of (reachable sub-graph, package pattern) under renaming of the non-root files.
func canon(s *spec, e *expectation) string {
	others := []int{}
	for _, i := range e.Reach {
		if i != 0 {
			others = append(others, i)
		}
	}
	if len(others) > 5 {
		return fmt.Sprintf("large-%d-%s", len(e.Reach), e.Shape)
	}
	best := ""
	perm := make([]int, len(others))
	used := make([]bool, len(others))
	var rec func(k int)
	rec = func(k int) {
		if k == len(others) {
			m := map[int]int{0: 0}
			for idx, p := range perm {
				m[others[p]] = idx + 1
			}
			k := len(others) + 1
			rows := make([][]byte, k)
			for i := range rows {
				rows[i] = []byte(strings.Repeat(".", k))
			}
			inv := make([]int, k)
			for orig, nw := range m {
				inv[nw] = orig
				for _, j := range s.Out[orig] {
					rows[nw][m[j]] = 'x'
				}
			}
			var b strings.Builder
			for _, r := range rows {
				b.Write(r)
				b.WriteByte('/')
			}
			names := map[string]byte{}
			for nw := 0; nw < k; nw++ {
				p := s.Pkgs[inv[nw]]
				if p == "" {
					b.WriteByte('-')
					continue
				}
				if _, ok := names[p]; !ok {
					names[p] = byte('a' + len(names))
				}
				b.WriteByte(names[p])
			}
			if c := b.String(); best == "" || c < best {
				best = c
			}
			return
		}
		for p := range others {
			if !used[p] {
				used[p] = true
				perm[k] = p
				rec(k + 1)
				used[p] = false
			}
		}
	}
	rec(0)
	return best
}
