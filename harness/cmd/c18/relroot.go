package main

// A root opened by a RELATIVE name: File.FileName is then relative and Generate resolves it against
// os.Getwd(). os.Chdir is process-global, so this runs in a subprocess of this binary (-relchild).

import (
	"context"
	"encoding/json"
	"fmt"
	"os"
	"os/exec"
	"path/filepath"
	"time"
)

type childOut struct {
	Class string `json:"class"`
	Err   string `json:"err"`
	Out   []byte `json:"out"`
}

func relChildMain(cwd, root, mode string) {
	if err := os.Chdir(cwd); err != nil {
		fmt.Fprintln(os.Stderr, "HARNESS-ERROR: chdir:", err)
		os.Exit(2)
	}
	r := generateFile(root, mode)
	b, _ := json.Marshal(childOut{Class: r.class(), Err: r.errText(), Out: r.Out})
	os.Stdout.Write(b)
}

// relativeOne: cwdSel "" = scratch top (root named e.g. "a/f0.bop"), "rootdir" = the root's own
// directory (root named "f0.bop"), "elsewhere" = a sibling directory (root named "../a/f0.bop").
func relativeOne(x *explorer, s *spec, p placement, mode, cwdSel string, idx int) []finding {
	sc := newScratch(filepath.Join(workBase, "rel"))
	files := materialise(s, p)
	sc.install("rel", files)
	abs := generateFile(sc.abs(p.rel(0)), mode)
	cwd := filepath.Join(sc.dir, "rel")
	switch cwdSel {
	case "rootdir":
		cwd = filepath.Join(sc.dir, "rel", p.dir(0))
	case "elsewhere":
		cwd = filepath.Join(sc.dir, "rel", "elsewhere")
		if err := os.MkdirAll(cwd, 0o755); err != nil {
			fatalf("mkdir: %v", err)
		}
	}
	rel, err := filepath.Rel(cwd, sc.abs(p.rel(0)))
	if err != nil {
		fatalf("rel: %v", err)
	}
	self, err := os.Executable()
	if err != nil {
		fatalf("cannot find own executable: %v", err)
	}
	ctx, cancel := context.WithTimeout(context.Background(), 2*watchdog)
	defer cancel()
	cmd := exec.CommandContext(ctx, self, "-relchild", "-cwd", cwd, "-root", rel, "-mode", mode)
	cmd.Stderr = os.Stderr
	ob, err := cmd.Output()
	var co childOut
	if err != nil || json.Unmarshal(ob, &co) != nil {
		fatalf("relative-root subprocess failed: %v (%s)", err, ob)
	}
	x.states.Add(1)
	x.evals.Add(1)
	x.asserted.Add(1)
	if co.Class == abs.class() && string(co.Out) == string(abs.Out) {
		return nil
	}
	e := derive(s)
	label := "wrong-result"
	if co.Err != "" {
		label = "error"
	}
	f := finding{Sig: fmt.Sprintf("C18|path-resolution|relative-root-filename|%s|%s", label, mode),
		Msg: fmt.Sprintf("root opened as %q with cwd %s (placement %s): outcome %s %q, but %s %q when the same root is opened by absolute path",
			rel, cwdSel, p.name(), co.Class, co.Err, abs.class(), abs.errText()),
		Place: p.name(), Mode: mode, Observed: co.Class, ObservedErr: co.Err}
	x.col.add(f.Sig, f.Msg, []int{shapeRank[e.Shape], len(e.Reach), len(s.edges()), s.N, idx}, func() map[string]any {
		return map[string]any{"kind": "relative-root", "n": s.N, "edges": s.edgeString(), "edge_pairs": s.edges(), "go_packages": s.Pkgs,
			"mode": mode, "placement": map[string]string{"kind": p.Kind, "style": p.Style}, "root": rel, "cwd": cwdSel, "files": files,
			"observed": co.Class, "observed_error": co.Err, "absolute_root_outcome": abs.class(), "absolute_root_error": abs.errText()}
	})
	return []finding{f}
}

func relativeRootCheck(x *explorer) int {
	t0 := time.Now()
	specs := []*spec{
		specFromEdges(3, [][2]int{{0, 1}, {1, 2}}),
		specFromEdges(4, [][2]int{{0, 1}, {0, 2}, {1, 3}, {2, 3}}),
		specFromEdges(3, [][2]int{{0, 1}, {1, 2}, {2, 0}}),
	}
	n := 0
	for _, base := range specs {
		s := base.withPkgs(distinctPkgs(base.N))
		for _, p := range []placement{{"flat", "plain"}, {"flat", "updown"}, {"siblings", "plain"}, {"deep", "plain"}} {
			for _, mode := range modes {
				for _, cwd := range []string{"", "rootdir", "elsewhere"} {
					relativeOne(x, s, p, mode, cwd, n)
					n++
				}
			}
		}
	}
	_ = t0
	return n
}
