package main

// Running the real generator under a watchdog, and the oracles.

import (
	"bytes"
	"fmt"
	"go/ast"
	"go/parser"
	"go/printer"
	"go/token"
	"os"
	"sort"
	"strings"
	"sync/atomic"
	"time"

	"github.com/200sc/bebop"
)

var watchdog = 30 * time.Second

const (
	modeSeparate = "separate"
	modeCombined = "combined"
)

var modes = []string{modeSeparate, modeCombined}

func modeValue(m string) bebop.ImportGenerationMode {
	if m == modeSeparate {
		return bebop.ImportGenerationModeSeparate
	}
	return bebop.ImportGenerationModeCombined
}

type result struct {
	Out      []byte
	Err      error
	Dur      time.Duration
	TimedOut bool
	Panic    string
}

func (r result) errText() string {
	if r.Err == nil {
		return ""
	}
	return r.Err.Error()
}

// class: the outcome classes the statement distinguishes.
func (r result) class() string {
	switch {
	case r.TimedOut:
		return "no-termination"
	case r.Panic != "":
		return "panic"
	case r.Err == nil:
		return "ok"
	case mentionsCycle(r.Err):
		return "error-cycle"
	}
	return "error-other"
}

func mentionsCycle(err error) bool {
	return err != nil && strings.Contains(strings.ToLower(err.Error()), "cycle")
}

var (
	generateCalls atomic.Int64
	maxGenerateNs atomic.Int64
	slowCalls     atomic.Int64 // > 5 s
)

// guard runs one transition of the system under test with the step watchdog.
func guard(f func() ([]byte, error)) result {
	ch := make(chan result, 1)
	t0 := time.Now()
	go func() {
		var r result
		defer func() {
			if p := recover(); p != nil {
				r.Panic = fmt.Sprint(p)
			}
			r.Dur = time.Since(t0)
			ch <- r
		}()
		r.Out, r.Err = f()
	}()
	timer := time.NewTimer(watchdog)
	defer timer.Stop()
	var r result
	select {
	case r = <-ch:
	case <-timer.C:
		r = result{TimedOut: true, Dur: watchdog}
	}
	generateCalls.Add(1)
	for {
		old := maxGenerateNs.Load()
		if int64(r.Dur) <= old || maxGenerateNs.CompareAndSwap(old, int64(r.Dur)) {
			break
		}
	}
	if r.Dur > 5*time.Second {
		slowCalls.Add(1)
	}
	return r
}

// generateFile: os.Open the root, ReadFile(*os.File) (so FileName is set), Generate.
func generateFile(path, mode string) result {
	return guard(func() ([]byte, error) {
		fh, err := os.Open(path)
		if err != nil {
			fatalf("cannot open root %s: %v", path, err)
		}
		bf, _, err := bebop.ReadFile(fh)
		fh.Close()
		if err != nil {
			fatalf("harness schema %s does not parse: %v", path, err)
		}
		var out bytes.Buffer
		err = bf.Generate(&out, bebop.GenerateSettings{PackageName: "out", ImportGenerationMode: modeValue(mode)})
		return out.Bytes(), err
	})
}

// generateText generates one import-free schema (the inlined reference input).
func generateText(text string) result {
	return guard(func() ([]byte, error) {
		bf, _, err := bebop.ReadFile(strings.NewReader(text))
		if err != nil {
			fatalf("inlined reference schema does not parse: %v\n%s", err, text)
		}
		var out bytes.Buffer
		err = bf.Generate(&out, bebop.GenerateSettings{PackageName: "out", ImportGenerationMode: bebop.ImportGenerationModeCombined})
		return out.Bytes(), err
	})
}

// decls maps "kind name" -> printed source of every top-level declaration (imports excluded).
func decls(src []byte) (map[string]string, []string, error) {
	fset := token.NewFileSet()
	f, err := parser.ParseFile(fset, "out.go", src, 0)
	if err != nil {
		return nil, nil, err
	}
	m := map[string]string{}
	var dups []string
	put := func(k string, n any) {
		var b bytes.Buffer
		_ = printer.Fprint(&b, fset, n)
		if _, ok := m[k]; ok {
			dups = append(dups, k)
		}
		m[k] = b.String()
	}
	for _, d := range f.Decls {
		switch d := d.(type) {
		case *ast.GenDecl:
			for _, sp := range d.Specs {
				switch sp := sp.(type) {
				case *ast.ImportSpec:
					// the Go import block is part of what makes the output a working package
					put("import "+sp.Path.Value, sp)
				case *ast.TypeSpec:
					put("type "+sp.Name.Name, sp)
				case *ast.ValueSpec:
					for _, n := range sp.Names {
						k := strings.ToLower(d.Tok.String()) + " " + n.Name
						if n.Name == "_" {
							var b bytes.Buffer
							_ = printer.Fprint(&b, fset, sp)
							k += " " + b.String()
						}
						put(k, sp)
					}
				}
			}
		case *ast.FuncDecl:
			k := "func " + d.Name.Name
			if d.Recv != nil && len(d.Recv.List) == 1 {
				var b bytes.Buffer
				_ = printer.Fprint(&b, fset, d.Recv.List[0].Type)
				k = "func (" + strings.TrimPrefix(b.String(), "*") + ") " + d.Name.Name
			}
			put(k, d)
		}
	}
	return m, dups, nil
}

// the go_package const is file metadata; which file's value survives inlining is not part of the statement.
func metadataDecl(k string) bool { return strings.EqualFold(k, "const go_package") }

// compareDecls returns "" when both outputs define exactly the same declarations with identical text.
func compareDecls(impl, ref []byte) (kind, detail string) {
	if bytes.Equal(impl, ref) {
		return "", ""
	}
	im, idups, err := decls(impl)
	if err != nil {
		return "output-not-go", err.Error()
	}
	rm, _, err := decls(ref)
	if err != nil {
		fatalf("reference output does not parse as Go: %v", err)
	}
	if len(idups) > 0 {
		sort.Strings(idups)
		return "duplicate-definitions", "declared more than once: " + strings.Join(idups, ", ")
	}
	var missing, extra, differ []string
	for k := range rm {
		if metadataDecl(k) {
			continue
		}
		if t, ok := im[k]; !ok {
			missing = append(missing, k)
		} else if t != rm[k] {
			differ = append(differ, k)
		}
	}
	for k := range im {
		if metadataDecl(k) {
			continue
		}
		if _, ok := rm[k]; !ok {
			extra = append(extra, k)
		}
	}
	sort.Strings(missing)
	sort.Strings(extra)
	sort.Strings(differ)
	switch {
	case len(missing) > 0:
		return "missing-definitions", "not defined by the import-generated output: " + strings.Join(missing, ", ")
	case len(extra) > 0:
		return "extra-definitions", "defined only by the import-generated output: " + strings.Join(extra, ", ")
	case len(differ) > 0:
		return "definition-text-differs", "declarations whose source differs from the inlined schema's: " + strings.Join(differ, ", ")
	}
	return "", ""
}

type finding struct {
	Sig string
	Msg string
	// filled by the explorer
	Place       string
	Mode        string
	Observed    string
	ObservedErr string
}

// inlineRef is the generated reference for one (graph, assignment); only for acyclic file graphs.
type inlineRef struct {
	Text string
	Out  []byte
}

func makeInlineRef(s *spec, e *expectation) *inlineRef {
	t := inlineText(s, e)
	r := generateText(t)
	if r.class() != "ok" {
		fatalf("the inlined reference schema is not generatable (%s %v):\n%s", r.class(), r.Err, t)
	}
	return &inlineRef{Text: t, Out: r.Out}
}

// judge applies oracles 1-3 to one Generate outcome. It knows nothing about placements.
// goPkgCounterfactual (combined mode only) re-runs the case with the imported files' go_package
// consts removed and says whether that conforms; it separates the "go_package const collides when
// files are combined" root cause from every other reason for an error on an acyclic graph.
func judge(s *spec, e *expectation, mode string, r result, ref *inlineRef, goPkgCounterfactual func() bool) []finding {
	shape := e.Shape
	if mode == modeSeparate {
		shape = sepShape(e)
	}
	switch r.class() {
	case "no-termination":
		return []finding{{Sig: fmt.Sprintf("C18|termination|no-result-within-%ds|%s|%s", int(watchdog.Seconds()), shape, mode),
			Msg: fmt.Sprintf("Generate did not return within %v", watchdog)}}
	case "panic":
		return []finding{{Sig: fmt.Sprintf("C18|termination|panic|%s|%s", shape, mode), Msg: "Generate panicked instead of returning a result or an error: " + r.Panic}}
	}
	if mode == modeSeparate {
		switch {
		case e.MissingPkg:
			if r.Err == nil {
				return []finding{{Sig: "C18|separate|import-without-go_package-accepted|" + shape,
					Msg: "separate mode returned a result although an imported file has no go_package const"}}
			}
			// The go_package graph is cyclic even when every file without go_package counts as a package of its own (the
			// reading with the fewest cycles): the statement asks for the import-cycle error, whatever else is wrong.
			if e.PkgCyclic && !mentionsCycle(r.Err) {
				return []finding{{Sig: "C18|cycle-verdict|missed-other-error|" + shape + "|separate",
					Msg: "the go_package graph reachable from the root is cyclic (however files without go_package are counted) but the error does not report a cycle: " + r.errText()}}
			}
		case e.PkgCyclic:
			if r.Err == nil {
				return []finding{{Sig: "C18|cycle-verdict|missed|" + shape + "|separate",
					Msg: "the go_package graph reachable from the root is cyclic but Generate returned a result without error"}}
			}
			if !mentionsCycle(r.Err) {
				return []finding{{Sig: "C18|cycle-verdict|missed-other-error|" + shape + "|separate",
					Msg: "the go_package graph reachable from the root is cyclic but the error does not report a cycle: " + r.errText()}}
			}
		default:
			if mentionsCycle(r.Err) {
				return []finding{{Sig: "C18|cycle-verdict|spurious|" + shape + "|separate",
					Msg: "the go_package graph reachable from the root is acyclic but an import cycle was reported: " + r.errText()}}
			}
			if r.Err != nil {
				return []finding{{Sig: "C18|separate|error-on-acyclic|" + shape,
					Msg: "acyclic go_package graph, every imported file has a go_package, all type names unique, yet Generate failed: " + r.errText()}}
			}
		}
		return nil
	}
	// combined
	if e.FileCyclic {
		return nil // must terminate (it did); nothing else is stated
	}
	if r.Err != nil {
		if e.PkgFiles >= 2 && goPkgCounterfactual != nil && goPkgCounterfactual() {
			return []finding{{Sig: "C18|combined|error-on-acyclic|go_package-const-of-several-files-collides",
				Msg: "combined mode over an acyclic graph failed only because more than one of the combined files carries a go_package const (the same files without it in the imported files generate exactly the inlined schema): " + r.errText()}}
		}
		return []finding{{Sig: "C18|combined|error-on-acyclic|" + shape,
			Msg: "combined mode over an acyclic import graph with unique type names returned an error instead of the inlined schema's output: " + r.errText()}}
	}
	if kind, detail := compareDecls(r.Out, ref.Out); kind != "" {
		return []finding{{Sig: "C18|combined|" + kind + "|" + shape, Msg: "combined output is not the output of the inlined schema: " + detail}}
	}
	return nil
}
