package main

// Schema texts, directory placements, import spellings and the on-disk scratch area.

import (
	"fmt"
	"os"
	"path/filepath"
	"sort"
	"strings"
)

// placement says in which directory every file lives and how import paths are spelled.
// Every import path is ALWAYS written relative to the directory of the file that contains the import.
type placement struct {
	Kind  string // flat | siblings | deep | decoy
	Style string // plain | dot | updown | mixed
}

func (p placement) name() string { return p.Kind + "/" + p.Style }

var allPlacements = []placement{
	{"flat", "plain"},     // every file in top/, `import "f1.bop"`
	{"flat", "dot"},       // `import "./f1.bop"`
	{"flat", "updown"},    // `import "../top/f1.bop"`
	{"flat", "mixed"},     // importer i uses style i mod 3: the same file is addressed by different spellings
	{"siblings", "plain"}, // fi in d<i>/, `import "../d1/f1.bop"` (all directories at the same depth)
	{"deep", "plain"},     // f0 in a/, f1 in b/, f2 in b/sub/, f3 in c/x/y/: `import "sub/f2.bop"`, `import "../../../b/f1.bop"`
	{"decoy", "plain"},    // f0 in a/, the others in b/ importing each other as "f2.bop"; a/f2.bop is a decoy
	{"flatcase", "plain"}, // one directory, file names that differ only in letter case: Node.bop, node.bop, NODE.bop
	{"samename", "plain"}, // f0, f1 in top/, f2, f3 in top/sub/; f1 and f3 are both called common.bop: two REAL files with one spelling
	{"samename", "dot"},
}

func (p placement) dir(i int) string {
	switch p.Kind {
	case "flat", "flatcase":
		return "top"
	case "samename":
		if i >= 2 {
			return "top/sub"
		}
		return "top"
	case "siblings":
		return fmt.Sprintf("d%d", i)
	case "deep":
		switch i {
		case 0:
			return "a"
		case 1:
			return "b"
		case 2:
			return "b/sub"
		case 3:
			return "c/x/y"
		}
		return fmt.Sprintf("e%d", i) + strings.Repeat("/z", i%3)
	case "decoy":
		if i == 0 {
			return "a"
		}
		return "b"
	}
	panic("unknown placement " + p.Kind)
}

func (p placement) fileName(i int) string {
	switch p.Kind {
	case "flatcase":
		if i < 4 {
			return []string{"root.bop", "Node.bop", "node.bop", "NODE.bop"}[i]
		}
	case "samename":
		if i < 4 {
			return []string{"root.bop", "common.bop", "feature.bop", "common.bop"}[i]
		}
	}
	return fmt.Sprintf("f%d.bop", i)
}

func (p placement) rel(i int) string { return p.dir(i) + "/" + p.fileName(i) }

// importPath spells the path of fj as seen from fi's directory.
func (p placement) importPath(i, j int) string {
	r, err := filepath.Rel(p.dir(i), p.dir(j))
	if err != nil {
		panic(err)
	}
	plain := p.fileName(j)
	if r != "." {
		plain = r + "/" + p.fileName(j)
	}
	style := p.Style
	if style == "mixed" {
		style = []string{"plain", "dot", "updown"}[i%3]
	}
	switch style {
	case "plain":
		return plain
	case "dot":
		return "./" + plain
	case "updown":
		return "../" + filepath.Base(p.dir(i)) + "/" + plain
	}
	panic("unknown style " + style)
}

// defs are the definitions of file i: unique names per file, and one message field per directly
// imported file so that imported types are really used.
func defs(s *spec, i int) string {
	var b strings.Builder
	if s.hollow(i) {
		return "// index file: imports only\n"
	}
	fmt.Fprintf(&b, "enum E%d {\n    A = 1;\n    B = 2;\n}\n", i)
	if i%2 == 1 {
		// a date (needs the Go package "time") that occurs in odd-numbered files only: never in the root
		fmt.Fprintf(&b, "struct S%d {\n    int32 x;\n    E%d e;\n    date when;\n}\n", i, i)
	} else {
		fmt.Fprintf(&b, "struct S%d {\n    int32 x;\n    E%d e;\n}\n", i, i)
	}
	fmt.Fprintf(&b, "message M%d {\n    1 -> S%d own;\n", i, i)
	k := 2
	used := map[int]bool{i: true}
	for _, j := range s.Out[i] {
		if used[j] {
			continue
		}
		used[j] = true
		if s.hollow(j) {
			// an index file defines nothing itself; what it imports is visible through it
			for _, l := range s.Out[j] {
				if !used[l] && !s.hollow(l) {
					used[l] = true
					fmt.Fprintf(&b, "    %d -> S%d d%d;\n", k, l, l)
					k++
				}
			}
			continue
		}
		fmt.Fprintf(&b, "    %d -> S%d d%d;\n", k, j, j)
		k++
	}
	b.WriteString("}\n")
	return b.String()
}

func pkgConst(p string) string {
	if p == "" {
		return ""
	}
	return fmt.Sprintf("const string go_package = %q;\n", p)
}

func fileText(s *spec, p placement, i int) string {
	var b strings.Builder
	b.WriteString(pkgConst(s.Pkgs[i]))
	for _, j := range s.Out[i] {
		fmt.Fprintf(&b, "import %q\n", p.importPath(i, j))
	}
	b.WriteString("\n")
	b.WriteString(defs(s, i))
	return b.String()
}

// decoyText is what must never be read: same relative name as fj, next to the ROOT file.
// Everything it contributes is recognisable by the substring "ecoy".
func decoyText(s *spec, j int) string {
	var b strings.Builder
	if s.Pkgs[j] != "" {
		b.WriteString(pkgConst(fmt.Sprintf("github.com/t/decoy%d", j)))
	}
	fmt.Fprintf(&b, "\nstruct S%d {\n    string decoy;\n}\nstruct Decoy%d {\n    int32 x;\n}\n", j, j)
	return b.String()
}

const decoyMarker = "ecoy"

// materialise returns relative path -> text for one (spec, placement).
func materialise(s *spec, p placement) map[string]string {
	m := make(map[string]string, s.N+3)
	for i := 0; i < s.N; i++ {
		m[p.rel(i)] = fileText(s, p, i)
	}
	if p.Kind == "decoy" {
		for j := 1; j < s.N; j++ {
			m[p.dir(0)+"/"+p.fileName(j)] = decoyText(s, j)
		}
	}
	return m
}

// inlineText is the single schema obtained by inlining every transitively imported file once:
// the root's definitions, then each imported file's in order of first reach. go_package is file
// metadata, not a definition: only the first go_package const (root first) is kept, so the inlined
// schema is itself a valid schema.
func inlineText(s *spec, e *expectation) string {
	var b strings.Builder
	havePkg := false
	for _, i := range append([]int{0}, e.Order...) {
		if s.Pkgs[i] != "" && !havePkg {
			b.WriteString(pkgConst(s.Pkgs[i]))
			havePkg = true
		}
		b.WriteString(defs(s, i))
	}
	return b.String()
}

// scratch is one worker's private directory. Every placement gets its own sub-directory (slot), so
// files of one placement can never be picked up by another; within a slot a file is rewritten only
// when its text changes and removed when the next case does not have it.
type scratch struct {
	dir   string
	slot  string
	slots map[string]map[string]string // slot -> rel path -> text on disk
	made  map[string]bool
}

func newScratch(dir string) *scratch {
	if err := os.MkdirAll(dir, 0o755); err != nil {
		fatalf("cannot create scratch %s: %v", dir, err)
	}
	return &scratch{dir: dir, slots: map[string]map[string]string{}, made: map[string]bool{}}
}

// install makes the slot contain exactly the given files.
func (sc *scratch) install(slot string, files map[string]string) {
	sc.slot = slot
	have := sc.slots[slot]
	if have == nil {
		have = map[string]string{}
		sc.slots[slot] = have
	}
	for rel := range have {
		if _, ok := files[rel]; !ok {
			abs := filepath.Join(sc.dir, slot, rel)
			if err := os.Remove(abs); err != nil && !os.IsNotExist(err) {
				fatalf("cannot remove %s: %v", abs, err)
			}
			delete(have, rel)
		}
	}
	for rel, text := range files {
		if old, ok := have[rel]; ok && old == text {
			continue
		}
		abs := filepath.Join(sc.dir, slot, rel)
		d := filepath.Dir(abs)
		if !sc.made[d] {
			if err := os.MkdirAll(d, 0o755); err != nil {
				fatalf("cannot create %s: %v", d, err)
			}
			sc.made[d] = true
		}
		if err := os.WriteFile(abs, []byte(text), 0o644); err != nil {
			fatalf("cannot write %s: %v", abs, err)
		}
		have[rel] = text
	}
}

func (sc *scratch) abs(rel string) string { return filepath.Join(sc.dir, sc.slot, rel) }

func sortedKeys(m map[string]string) []string {
	k := make([]string, 0, len(m))
	for x := range m {
		k = append(k, x)
	}
	sort.Strings(k)
	return k
}
