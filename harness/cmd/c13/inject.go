package main

// Injection classes a..k: each enumerates EVERY applicable site of a base schema and produces one schema text per
// (site, variant). Each class also produces benign twins ("controls": the same edit with a harmless value) that must
// still be accepted - they prove that a rejection of the injected schema is not caused by the edit mechanics.

import (
	"fmt"
	"math/big"
	"strings"
)

type Case struct {
	Base     string
	Class    string
	SiteKind string
	Detail   string // optional third signature component
	Site     string // human description of the exact site
	Schema   string
	Expect   string // "reject", "accept" or "terminate" (verdict unasserted)
	Control  bool
	confirm  bool // second execution after a watchdog expiry
}

func (c *Case) sig() string {
	s := "C13|" + c.Class + "|" + c.SiteKind
	if c.Detail != "" {
		s += "|" + c.Detail
	}
	return s
}

type emitter func(c Case)

const undefinedName = "Nope"
const freshName = "Fresh9"

func msgKind(k string) string {
	if k == kMessage {
		return "top-level-message"
	}
	return k
}

// ---- a. undefined type -----------------------------------------------------------------------------

func injUndefinedType(b *Schema, emit emitter) {
	n := len(b.typeSites())
	for k := 0; k < n; k++ {
		c := b.clone()
		ts := c.typeSites()[k]
		orig := ts.Leaf.Name
		ts.Leaf.Name = undefinedName
		// Where was computed before the edit; recompute for the message
		emit(Case{Class: "undefined-type", SiteKind: ts.Container + "-field", Detail: ts.Pos,
			Site: fmt.Sprintf("%s, leaf %s -> %s", ts.Where, orig, undefinedName), Schema: c.Render(), Expect: "reject"})
		c2 := b.clone()
		ts2 := c2.typeSites()[k]
		ts2.Leaf.Name = "int32"
		emit(Case{Class: "undefined-type", SiteKind: ts.Container + "-field", Detail: ts.Pos, Site: ts.Where + ", leaf -> int32",
			Schema: c2.Render(), Expect: "accept", Control: true})
	}
	for i, d := range b.Defs {
		if d.En == nil {
			continue
		}
		c := b.clone()
		c.Defs[i].En.Base = undefinedName
		emit(Case{Class: "undefined-type", SiteKind: "enum-base", Site: "enum " + d.En.Name + " : " + undefinedName, Schema: c.Render(), Expect: "reject"})
	}
}

// ---- b. duplicate definition name ------------------------------------------------------------------

func injDuplicateDefinition(b *Schema, emit emitter) {
	items := b.namedDefs()
	for i := range items {
		for j := range items {
			if i == j {
				continue
			}
			if items[i].Owner != nil && items[i].Owner == items[j].Owner {
				continue // two members of one union: class c
			}
			c := b.clone()
			ci := c.namedDefs()
			old, nw := *ci[j].Name, *ci[i].Name
			*ci[j].Name = nw
			if ci[j].Kind != "const" {
				c.renameRefs(old, nw)
			}
			detail := ""
			if (items[i].Self != nil && items[j].Owner == items[i].Self) || (items[j].Self != nil && items[i].Owner == items[j].Self) {
				detail = "branch-named-like-its-own-union"
			}
			emit(Case{Class: "duplicate-definition-name", SiteKind: kindPair(items[i].Kind, items[j].Kind), Detail: detail,
				Site:   fmt.Sprintf("%s %s renamed to the name of %s %s", items[j].Kind, old, items[i].Kind, nw),
				Schema: c.Render(), Expect: "reject"})
		}
	}
	for j := range items {
		c := b.clone()
		cj := c.namedDefs()[j]
		old := *cj.Name
		*cj.Name = freshName
		if cj.Kind != "const" {
			c.renameRefs(old, freshName)
		}
		emit(Case{Class: "duplicate-definition-name", SiteKind: items[j].Kind, Site: items[j].Kind + " " + old + " renamed to " + freshName,
			Schema: c.Render(), Expect: "accept", Control: true})
	}
}

// ---- c. duplicate field / union member names --------------------------------------------------------

func injDuplicateField(b *Schema, emit emitter) {
	recs := b.records()
	for ri, r := range recs {
		for x := 0; x < len(r.Rec.Fields); x++ {
			for y := x + 1; y < len(r.Rec.Fields); y++ {
				c := b.clone()
				cr := c.records()[ri].Rec
				old := cr.Fields[y].Name
				cr.Fields[y].Name = cr.Fields[x].Name
				emit(Case{Class: "duplicate-field-name", SiteKind: r.Kind, Site: fmt.Sprintf("%s: field %s renamed to %s", r.Rec.Name, old, cr.Fields[x].Name),
					Schema: c.Render(), Expect: "reject"})
			}
			c := b.clone()
			cr := c.records()[ri].Rec
			cr.Fields[x].Name = "fresh9"
			emit(Case{Class: "duplicate-field-name", SiteKind: r.Kind, Site: r.Rec.Name + ": field renamed to fresh9", Schema: c.Render(), Expect: "accept", Control: true})
		}
	}
	for di, d := range b.Defs {
		if d.Un == nil {
			continue
		}
		for x := 0; x < len(d.Un.Branches); x++ {
			for y := x + 1; y < len(d.Un.Branches); y++ {
				for dir := 0; dir < 2; dir++ {
					from, to := y, x
					if dir == 1 {
						from, to = x, y
					}
					c := b.clone()
					u := c.Defs[di].Un
					old := u.Branches[from].Rec.Name
					u.Branches[from].Rec.Name = u.Branches[to].Rec.Name
					c.renameRefs(old, u.Branches[to].Rec.Name)
					emit(Case{Class: "duplicate-union-member-name", SiteKind: kindPair("union-branch-"+u.Branches[x].Rec.Kind, "union-branch-"+u.Branches[y].Rec.Kind),
						Site: fmt.Sprintf("union %s: member %s renamed to %s", u.Name, old, u.Branches[to].Rec.Name), Schema: c.Render(), Expect: "reject"})
				}
			}
		}
	}
}

// ---- d. duplicate enum option names / values --------------------------------------------------------

func enumSiteKind(e *Enum) string {
	if e.Flags {
		return "flags|" + e.baseName()
	}
	return "plain|" + e.baseName()
}

func renameOptRefs(e *Expr, old, nw string) {
	if e == nil {
		return
	}
	if e.Op == "ref" && e.Text == old {
		e.Text = nw
	}
	renameOptRefs(e.L, old, nw)
	renameOptRefs(e.R, old, nw)
}

// enumValid is the reference validity of an enum: every option evaluates, fits the base type, names and values distinct.
func enumValid(e *Enum) bool {
	env := map[string]*big.Int{}
	vals := map[string]bool{}
	for _, o := range e.Opts {
		v, ok := evalExact(o.Val, env)
		if !ok || !inRange(v, e.effBase()) || vals[v.String()] {
			return false
		}
		if _, dup := env[o.Name]; dup {
			return false
		}
		env[o.Name] = v
		vals[v.String()] = true
	}
	return true
}

func injDuplicateEnum(b *Schema, emit emitter) {
	for di, d := range b.Defs {
		if d.En == nil {
			continue
		}
		e := d.En
		env := enumEnv(e)
		for _, o := range e.Opts {
			if !inRange(env[o.Name], e.effBase()) {
				panic("base enum " + e.Name + "." + o.Name + " is out of range")
			}
		}
		used := map[string]bool{}
		for _, v := range env {
			used[v.String()] = true
		}
		fresh := big.NewInt(5)
		for used[fresh.String()] {
			fresh.Add(fresh, big.NewInt(2))
		}
		for x := 0; x < len(e.Opts); x++ {
			for y := x + 1; y < len(e.Opts); y++ {
				// name
				c := b.clone()
				ce := c.Defs[di].En
				old := ce.Opts[y].Name
				ce.Opts[y].Name = ce.Opts[x].Name
				for _, later := range ce.Opts[y+1:] {
					renameOptRefs(later.Val, old, ce.Opts[x].Name)
				}
				emit(Case{Class: "duplicate-enum-option-name", SiteKind: enumSiteKind(e), Site: fmt.Sprintf("enum %s: option %s renamed to %s", e.Name, old, ce.Opts[x].Name),
					Schema: c.Render(), Expect: "reject"})
				// value, in every spelling
				v := env[e.Opts[x].Name]
				type sp struct {
					name string
					e    *Expr
				}
				sps := []sp{{"dec", Lit(v.String())}, {"hex", Lit(hexLit(v))}}
				if e.Flags {
					a := e.Opts[x].Name
					sps = append(sps, sp{"ident", Ref(a)}, sp{"paren-ident", Par(Ref(a))}, sp{"or-self", Bin("|", Ref(a), Ref(a))},
						sp{"shl-0", Bin("<<", Lit(v.String()), Lit("0"))}, sp{"or-zero", Bin("|", Lit(hexLit(v)), Lit("0"))}, sp{"paren-lit", Par(Lit(v.String()))})
				}
				for _, s := range sps {
					c := b.clone()
					c.Defs[di].En.Opts[y].Val = s.e
					emit(Case{Class: "duplicate-enum-value", SiteKind: enumSiteKind(e), Detail: "as=" + s.name,
						Site:   fmt.Sprintf("enum %s: %s = %s (same value %s as %s)", e.Name, e.Opts[y].Name, s.e, v, e.Opts[x].Name),
						Schema: c.Render(), Expect: "reject"})
				}
			}
			if inRange(fresh, e.effBase()) {
				c := b.clone()
				c.Defs[di].En.Opts[x].Val = Lit(fresh.String())
				// options defined in terms of this one may now collide: then it is not a valid control
				if enumValid(c.Defs[di].En) {
					emit(Case{Class: "duplicate-enum-value", SiteKind: enumSiteKind(e), Site: fmt.Sprintf("enum %s: %s = %s (unused value)", e.Name, e.Opts[x].Name, fresh),
						Schema: c.Render(), Expect: "accept", Control: true})
				}
			}
			c := b.clone()
			ce := c.Defs[di].En
			old := ce.Opts[x].Name
			ce.Opts[x].Name = "Fresh9"
			for _, later := range ce.Opts[x+1:] {
				renameOptRefs(later.Val, old, "Fresh9")
			}
			emit(Case{Class: "duplicate-enum-option-name", SiteKind: enumSiteKind(e), Site: "enum " + e.Name + ": option " + old + " renamed to Fresh9", Schema: c.Render(), Expect: "accept", Control: true})
		}
	}
}

// ---- e/f. message indices and union discriminators ---------------------------------------------------

func injIndices(b *Schema, emit emitter) {
	recs := b.records()
	for ri, r := range recs {
		if r.Rec.Kind != kMessage {
			continue
		}
		sk := msgKind(r.Kind)
		for x := 0; x < len(r.Rec.Fields); x++ {
			for y := x + 1; y < len(r.Rec.Fields); y++ {
				for _, sp := range []string{"same-spelling", "zero-padded"} {
					c := b.clone()
					cr := c.records()[ri].Rec
					idx := cr.Fields[x].Index
					if sp == "zero-padded" {
						idx = "0" + idx
					}
					cr.Fields[y].Index = idx
					emit(Case{Class: "duplicate-message-index", SiteKind: sk, Detail: sp, Site: fmt.Sprintf("%s: field %s gets index %s (field %s has %s)", r.Rec.Name, cr.Fields[y].Name, idx, cr.Fields[x].Name, cr.Fields[x].Index),
						Schema: c.Render(), Expect: "reject"})
				}
			}
			c := b.clone()
			c.records()[ri].Rec.Fields[x].Index = "0"
			emit(Case{Class: "message-index-zero", SiteKind: sk, Site: fmt.Sprintf("%s: field %s gets index 0", r.Rec.Name, r.Rec.Fields[x].Name), Schema: c.Render(), Expect: "reject"})
			// an index is one byte on the wire: 256 is index 0 again, 257 index 1 (a duplicate or not, it cannot be written)
			for _, big := range []string{"256", "257", "512", "65536", "4294967296"} {
				c = b.clone()
				c.records()[ri].Rec.Fields[x].Index = big
				emit(Case{Class: "message-index-zero", SiteKind: sk, Detail: "index=" + big, Site: fmt.Sprintf("%s: field %s gets index %s", r.Rec.Name, r.Rec.Fields[x].Name, big), Schema: c.Render(), Expect: "reject"})
			}
			c = b.clone()
			c.records()[ri].Rec.Fields[x].Index = "201"
			emit(Case{Class: "message-index-zero", SiteKind: sk, Site: fmt.Sprintf("%s: field %s gets index 201", r.Rec.Name, r.Rec.Fields[x].Name), Schema: c.Render(), Expect: "accept", Control: true})
		}
	}
	for di, d := range b.Defs {
		if d.Un == nil {
			continue
		}
		for x := 0; x < len(d.Un.Branches); x++ {
			for y := x + 1; y < len(d.Un.Branches); y++ {
				for _, sp := range []string{"same-spelling", "zero-padded"} {
					c := b.clone()
					u := c.Defs[di].Un
					idx := u.Branches[x].Disc
					if sp == "zero-padded" {
						idx = "0" + idx
					}
					u.Branches[y].Disc = idx
					emit(Case{Class: "duplicate-union-discriminator", SiteKind: kindPair("union-branch-"+u.Branches[x].Rec.Kind, "union-branch-"+u.Branches[y].Rec.Kind), Detail: sp,
						Site: fmt.Sprintf("union %s: member %s gets discriminator %s", u.Name, u.Branches[y].Rec.Name, idx), Schema: c.Render(), Expect: "reject"})
				}
			}
			for _, big := range []string{"256", "257", "65536"} {
				c := b.clone()
				c.Defs[di].Un.Branches[x].Disc = big
				emit(Case{Class: "duplicate-union-discriminator", SiteKind: "union-branch-" + d.Un.Branches[x].Rec.Kind, Detail: "discriminator=" + big,
					Site: "union " + d.Un.Name + ": discriminator " + big + " (one byte on the wire)", Schema: c.Render(), Expect: "reject"})
			}
			c := b.clone()
			c.Defs[di].Un.Branches[x].Disc = "202"
			emit(Case{Class: "duplicate-union-discriminator", SiteKind: "union-branch-" + d.Un.Branches[x].Rec.Kind, Site: "union " + d.Un.Name + ": discriminator 202", Schema: c.Render(), Expect: "accept", Control: true})
		}
	}
}

// ---- g. duplicate opcodes ---------------------------------------------------------------------------

type opHolder struct {
	Kind   string
	Name   string
	Opcode *string
}

func (s *Schema) opHolders() []opHolder {
	var out []opHolder
	for _, d := range s.Defs {
		if d.Rec != nil {
			out = append(out, opHolder{d.Rec.Kind, d.Rec.Name, &d.Rec.Opcode})
		}
		if d.Un != nil {
			out = append(out, opHolder{"union", d.Un.Name, &d.Un.Opcode})
		}
	}
	return out
}

// opcodeValue is the numeric value of an opcode argument as the harness writes them.
func opcodeValue(text string) (uint32, bool) {
	if strings.HasPrefix(text, `"`) {
		s := strings.Trim(text, `"`)
		if len(s) != 4 {
			return 0, false
		}
		return uint32(s[0]) | uint32(s[1])<<8 | uint32(s[2])<<16 | uint32(s[3])<<24, true
	}
	v, ok := parseIntLit(text)
	if !ok || v.Sign() < 0 || v.BitLen() > 32 {
		return 0, false
	}
	return uint32(v.Uint64()), true
}

func spellOpcode(v uint32, how string) string {
	switch how {
	case "dec":
		return fmt.Sprint(v)
	case "hex":
		return fmt.Sprintf("0x%x", v)
	}
	return `"` + string([]byte{byte(v), byte(v >> 8), byte(v >> 16), byte(v >> 24)}) + `"`
}

const dupOpcode = uint32(0x44434241)   // "ABCD"
const otherOpcode = uint32(0x44434242) // "BBCD"

func injDuplicateOpcode(b *Schema, emit emitter) {
	hs := b.opHolders()
	for _, h := range hs {
		if *h.Opcode == "" {
			continue
		}
		v, ok := opcodeValue(*h.Opcode)
		if !ok || v == dupOpcode || v == otherOpcode || v == 0 {
			panic("base opcode " + *h.Opcode + " unusable")
		}
	}
	spellings := []string{"dec", "hex", "str"}
	for i := 0; i < len(hs); i++ {
		for j := i + 1; j < len(hs); j++ {
			for _, si := range spellings {
				for _, sj := range spellings {
					c := b.clone()
					ch := c.opHolders()
					*ch[i].Opcode = spellOpcode(dupOpcode, si)
					*ch[j].Opcode = spellOpcode(dupOpcode, sj)
					a, bb := si, sj
					if kindOrder[hs[i].Kind] > kindOrder[hs[j].Kind] {
						a, bb = sj, si
					}
					emit(Case{Class: "duplicate-opcode", SiteKind: kindPair(hs[i].Kind, hs[j].Kind), Detail: a + "~" + bb,
						Site:   fmt.Sprintf("%s %s [opcode(%s)] and %s %s [opcode(%s)]", hs[i].Kind, hs[i].Name, *ch[i].Opcode, hs[j].Kind, hs[j].Name, *ch[j].Opcode),
						Schema: c.Render(), Expect: "reject"})
					c = b.clone()
					ch = c.opHolders()
					*ch[i].Opcode = spellOpcode(dupOpcode, si)
					*ch[j].Opcode = spellOpcode(otherOpcode, sj)
					emit(Case{Class: "duplicate-opcode", SiteKind: kindPair(hs[i].Kind, hs[j].Kind), Detail: a + "~" + bb, Site: "distinct opcodes on " + hs[i].Name + " and " + hs[j].Name,
						Schema: c.Render(), Expect: "accept", Control: true})
				}
			}
		}
	}
}

// ---- h. enum value outside its base type ------------------------------------------------------------

func injEnumRange(b *Schema, emit emitter) {
	for di, d := range b.Defs {
		if d.En == nil {
			continue
		}
		e := d.En
		base := e.effBase()
		bits, signed, _ := intWidth(base)
		mn, mx := intRange(base)
		above := new(big.Int).Add(mx, big.NewInt(1))
		below := new(big.Int).Sub(mn, big.NewInt(1))
		huge := new(big.Int).Exp(big.NewInt(10), big.NewInt(40), nil)
		env := enumEnv(e)
		for k := range e.Opts {
			type inj struct {
				form   string // how the out-of-range value is written (part of the site kind in flags enums)
				detail string
				e      *Expr
			}
			var injs []inj
			lit := func(v *big.Int, hex bool) {
				t := v.String()
				if hex {
					t = hexLit(v)
				}
				injs = append(injs, inj{"literal", "literal=" + t, Lit(t)})
			}
			lit(above, false)
			lit(above, true)
			lit(below, false)
			if signed {
				lit(below, true)
			}
			injs = append(injs, inj{"literal", "literal=10^40", Lit(huge.String())})
			if signed {
				injs = append(injs, inj{"literal", "literal=-10^40", Lit("-" + huge.String())})
			}
			if e.Flags {
				one := Lit("1")
				ex := func(form string, x *Expr) { injs = append(injs, inj{form, "expr=" + x.compact(), x}) }
				ex("shift-overflow", Bin("<<", one, Lit(fmt.Sprint(bits))))           // 2^W
				ex("shift-overflow", Par(Bin("<<", one, Lit(fmt.Sprint(bits)))))      // parenthesised
				ex("shift-overflow", Bin("<<", one, Lit("100")))                      // shift far beyond any width
				ex("shift-overflow", Bin("<<", Lit(mx.String()), Lit("2")))           // max<<2: bits are lost in every reading
				ex("shift-overflow", Bin("<<", Lit(pow2(bits-2).String()), Lit("2"))) // 2^(W-2) << 2 = 2^W
				ex("oversize-operand", Bin("|", Lit(hexLit(pow2(bits))), one))        // oversize literal inside an expression
				if bits < 64 {
					ex("shift-count-overflow", Bin("<<", one, Lit(pow2(bits).String()))) // the shift count itself does not fit the base type
				}
				if !signed {
					ex("shift-overflow", Bin("<<", Lit(mx.String()), one)) // 255 << 1
					ex("shift-overflow", Bin("<<", Lit(pow2(bits-1).String()), one))
				}
				if signed {
					ex("negative-shift", Bin("<<", one, Lit("-1"))) // negative shift count: no integer value at all
					ex("negative-shift", Bin(">>", one, Lit("-1")))
				}
				// through an earlier option
				for p := 0; p < k; p++ {
					if v := env[e.Opts[p].Name]; v.Sign() > 0 {
						ex("shift-overflow", Bin("<<", Ref(e.Opts[p].Name), Lit(fmt.Sprint(bits))))
						break
					}
				}
			}
			for _, in := range injs {
				// structural oracle: assert only when the exact value is outside the base type. For shift expressions in
				// signed enums additionally require that it does not even fit the W-bit pattern (1 << 15 in an int16
				// flags enum is the customary spelling of the sign bit: unasserted).
				v, ok := evalExact(in.e, env)
				if !unambiguous(in.e) {
					panic("ambiguous injected expression " + in.e.String())
				}
				if ok {
					if inRange(v, base) {
						continue
					}
					if signed && in.e.Op != "lit" && v.Sign() > 0 && v.Cmp(pow2(bits)) < 0 {
						continue
					}
				}
				c := b.clone()
				c.Defs[di].En.Opts[k].Val = in.e
				sk := enumSiteKind(e)
				if e.Flags {
					sk = "flags-" + in.form + "|" + e.baseName()
				}
				emit(Case{Class: "enum-out-of-range", SiteKind: sk, Detail: in.detail,
					Site: fmt.Sprintf("enum %s: %s = %s", e.Name, e.Opts[k].Name, in.e), Schema: c.Render(), Expect: "reject"})
			}
		}
	}
}

// ---- i. const literal not assignable -----------------------------------------------------------------

type constLit struct {
	kind, text string
}

var constLits = []constLit{
	{"int", "1"}, {"float", "1.5"}, {"negative-float", "-2.5"}, {"inf", "inf"}, {"negative-inf", "-inf"}, {"nan", "nan"},
	{"string", `"hello"`}, {"empty-string", `""`}, {"guid-string", goodGUID}, {"guid-string-no-dashes", `"e215a946b26f4567a27613136f0a1708"`},
	{"guid-string-too-short", `"e215a946-b26f-4567-a276-13136f0a170"`}, {"guid-string-too-long", `"e215a946-b26f-4567-a276-13136f0a17081"`},
	{"guid-string-non-hex", `"zzzzzzzz-zzzz-zzzz-zzzz-zzzzzzzzzzzz"`},
	// the right LENGTH (32 or 36 characters) but not 32 hex digits
	{"guid-string-36-chars-31-digits", `"e215a946-b26f-4567-a276-13136f0a-708"`}, {"guid-string-36-digits-no-dashes", `"e215a946b26f4567a27613136f0a1708abcd"`},
	{"guid-string-32-chars-with-dashes", `"e215a946-b26f-4567-a276-13136f0a"`}, {"guid-string-36-dashes", `"------------------------------------"`},
	{"guid-string-32-dashes", `"--------------------------------"`}, {"guid-string-one-non-hex-digit", `"e215a946-b26f-4567-a276-13136f0a170g"`},
	{"true", "true"}, {"false", "false"},
}

// assignable is the reference: +1 assignable, -1 not assignable, 0 unasserted.
func assignable(typ, litKind string) int {
	isString := strings.Contains(litKind, "string")
	if _, _, ok := intWidth(typ); ok {
		if litKind == "int" {
			return 1
		}
		return -1
	}
	switch typ {
	case "float32", "float64":
		switch litKind {
		case "int", "float", "negative-float", "inf", "negative-inf", "nan":
			return 1
		}
		return -1
	case "string":
		if isString {
			return 1
		}
		return -1
	case "guid":
		switch litKind {
		case "guid-string", "guid-string-no-dashes":
			return 1
		}
		return -1
	case "bool":
		if litKind == "true" || litKind == "false" {
			return 1
		}
		return -1
	case "date":
		// there is no date literal; whether a string or an integer could ever denote one is not specified
		if isString || litKind == "int" {
			return 0
		}
		return -1
	}
	panic("assignable: type " + typ)
}

func injConst(b *Schema, emit emitter) {
	var consts []int
	have := map[string]bool{}
	for i, d := range b.Defs {
		if d.Co != nil {
			consts = append(consts, i)
			have[d.Co.Type] = true
		}
	}
	if len(consts) == 0 {
		return
	}
	type site struct {
		idx int // index into Defs, -1 = append a new const
		typ string
	}
	var sites []site
	for _, i := range consts {
		sites = append(sites, site{i, b.Defs[i].Co.Type})
	}
	if b.Name == "consts" { // the const base: also types that have no site of their own
		for _, p := range primitives {
			if !have[p] {
				sites = append(sites, site{-1, p})
			}
		}
	}
	apply := func(s site, lit string) (string, string) {
		c := b.clone()
		if s.idx >= 0 {
			c.Defs[s.idx].Co.Lit = lit
			return c.Render(), fmt.Sprintf("const %s %s = %s", s.typ, c.Defs[s.idx].Co.Name, lit)
		}
		c.Defs = append(c.Defs, co(s.typ, "cInjected", lit))
		return c.Render(), fmt.Sprintf("const %s cInjected = %s (appended)", s.typ, lit)
	}
	for _, s := range sites {
		for _, l := range constLits {
			switch assignable(s.typ, l.kind) {
			case -1:
				text, where := apply(s, l.text)
				emit(Case{Class: "const-not-assignable", SiteKind: s.typ, Detail: l.kind, Site: where, Schema: text, Expect: "reject"})
			case 1:
				text, where := apply(s, l.text)
				emit(Case{Class: "const-not-assignable", SiteKind: s.typ, Detail: l.kind, Site: where, Schema: text, Expect: "accept", Control: true})
			}
		}
		if _, signed, ok := intWidth(s.typ); ok {
			mn, mx := intRange(s.typ)
			above := new(big.Int).Add(mx, big.NewInt(1))
			below := new(big.Int).Sub(mn, big.NewInt(1))
			huge := new(big.Int).Exp(big.NewInt(10), big.NewInt(40), nil)
			type rl struct{ label, text string }
			outs := []rl{{above.String(), above.String()}, {hexLit(above), hexLit(above)}, {below.String(), below.String()}, {"10^40", huge.String()}}
			if signed {
				outs = append(outs, rl{hexLit(below), hexLit(below)}, rl{"-10^40", "-" + huge.String()})
			}
			if s.typ == "uint8" || s.typ == "byte" {
				outs = append(outs, rl{"300", "300"})
			}
			if s.typ == "int16" {
				outs = append(outs, rl{"40000", "40000"})
			}
			for _, o := range outs {
				text, where := apply(s, o.text)
				emit(Case{Class: "const-out-of-range", SiteKind: s.typ, Detail: "literal=" + o.label, Site: where, Schema: text, Expect: "reject"})
			}
			for _, v := range []*big.Int{mn, mx} {
				for _, t := range []string{v.String(), hexLit(v)} {
					text, where := apply(s, t)
					emit(Case{Class: "const-out-of-range", SiteKind: s.typ, Detail: "literal=" + t, Site: where, Schema: text, Expect: "accept", Control: true})
				}
			}
		}
	}
}

// ---- j. definitions named like a primitive -----------------------------------------------------------

func injPrimitiveName(b *Schema, emit emitter) {
	items := b.namedDefs()
	for j, it := range items {
		if it.Kind == "const" {
			continue // a const named like a type is not in the statement
		}
		for _, p := range primitives {
			c := b.clone()
			cj := c.namedDefs()[j]
			old := *cj.Name
			*cj.Name = p
			c.renameRefs(old, p)
			emit(Case{Class: "primitive-named-definition", SiteKind: it.Kind, Detail: "name=" + p, Site: it.Kind + " " + old + " renamed to " + p,
				Schema: c.Render(), Expect: "reject"})
		}
	}
}

// ---- k. by-value edges added to a base schema -------------------------------------------------------

// refModel is the reference recursion analysis over top-level definitions.
type refModel struct {
	kind  map[string]string          // name -> struct | message | union | enum
	plain map[string]map[string]bool // struct -> types it holds directly by value
	any   map[string]map[string]bool // struct -> types it mentions anywhere (arrays, maps too)
	all   map[string]map[string]bool // any top-level definition -> every type its fields (or its branches' fields) mention
}

func buildModel(s *Schema) *refModel {
	m := &refModel{kind: map[string]string{}, plain: map[string]map[string]bool{}, any: map[string]map[string]bool{}, all: map[string]map[string]bool{}}
	addAll := func(owner string, r *Record) {
		if m.all[owner] == nil {
			m.all[owner] = map[string]bool{}
		}
		for _, f := range r.Fields {
			walkLeaves(f.Type, nil, func(l *Ty, pos string) { m.all[owner][l.Name] = true })
		}
	}
	for _, d := range s.Defs {
		switch {
		case d.En != nil:
			m.kind[d.En.Name] = "enum"
		case d.Un != nil:
			m.kind[d.Un.Name] = "union"
			m.all[d.Un.Name] = map[string]bool{}
			for _, b := range d.Un.Branches {
				addAll(d.Un.Name, b.Rec)
			}
		case d.Rec != nil && d.Rec.Kind == kMessage:
			m.kind[d.Rec.Name] = "message"
			addAll(d.Rec.Name, d.Rec)
		case d.Rec != nil:
			m.kind[d.Rec.Name] = "struct"
			addAll(d.Rec.Name, d.Rec)
			m.plain[d.Rec.Name] = map[string]bool{}
			m.any[d.Rec.Name] = map[string]bool{}
			for _, f := range d.Rec.Fields {
				if f.Type.Kind == tyName {
					m.plain[d.Rec.Name][f.Type.Name] = true
				}
				walkLeaves(f.Type, nil, func(l *Ty, pos string) { m.any[d.Rec.Name][l.Name] = true })
			}
		}
	}
	return m
}

// structCycle reports whether the struct-only subgraph over the given edges has a cycle, and a shortest cycle length.
func (m *refModel) structCycle(edges map[string]map[string]bool) (bool, int) {
	best := 0
	for start := range edges {
		// BFS from start's successors back to start
		dist := map[string]int{}
		queue := []string{}
		for t := range edges[start] {
			if m.kind[t] == "struct" {
				if t == start {
					return true, 1
				}
				if _, ok := dist[t]; !ok {
					dist[t] = 1
					queue = append(queue, t)
				}
			}
		}
		for len(queue) > 0 {
			u := queue[0]
			queue = queue[1:]
			for t := range edges[u] {
				if m.kind[t] != "struct" {
					continue
				}
				if t == start {
					if best == 0 || dist[u]+1 < best {
						best = dist[u] + 1
					}
					continue
				}
				if _, ok := dist[t]; !ok {
					dist[t] = dist[u] + 1
					queue = append(queue, t)
				}
			}
		}
	}
	return best > 0, best
}

// verdict is the reference: "reject", "accept" or "terminate" (cycle only through arrays/maps: unasserted).
func (m *refModel) verdict() (string, int) {
	if cyc, n := m.structCycle(m.plain); cyc {
		return "reject", n
	}
	if cyc, _ := m.structCycle(m.any); cyc {
		return "terminate", 0
	}
	return "accept", 0
}

func (m *refModel) reaches(from, to string) bool {
	seen := map[string]bool{}
	var dfs func(string) bool
	dfs = func(u string) bool {
		if u == to {
			return true
		}
		if seen[u] {
			return false
		}
		seen[u] = true
		for t := range m.all[u] {
			if dfs(t) {
				return true
			}
		}
		return false
	}
	return dfs(from)
}

func injByValueEdge(b *Schema, emit emitter) {
	base := buildModel(b)
	if v, _ := base.verdict(); v != "accept" {
		panic("base " + b.Name + " is not acyclic in the reference model")
	}
	var targets []string
	for _, d := range b.Defs {
		if d.Rec != nil {
			targets = append(targets, d.Rec.Name)
		}
		if d.Un != nil {
			targets = append(targets, d.Un.Name)
		}
	}
	recs := b.records()
	for ri, r := range recs {
		owner := r.Rec.Name
		if r.Owner != nil {
			owner = r.Owner.Name
		}
		for _, t := range targets {
			c := b.clone()
			cr := c.records()[ri].Rec
			f := &Field{Type: N(t), Name: "injected"}
			if cr.Kind == kMessage {
				f.Index = "203"
			}
			cr.Fields = append(cr.Fields, f)
			m := buildModel(c)
			v, n := m.verdict()
			where := fmt.Sprintf("%s %s gets a by-value field of type %s %s", r.Kind, r.Rec.Name, base.kind[t], t)
			switch v {
			case "reject":
				emit(Case{Class: "struct-cycle", SiteKind: fmt.Sprintf("length=%d", n), Detail: "added-field", Site: where, Schema: c.Render(), Expect: "reject"})
			case "accept":
				if !m.reaches(t, owner) {
					continue // no recursion at all: nothing the property speaks about
				}
				emit(Case{Class: "terminating-recursion", SiteKind: r.Kind + "-field->" + base.kind[t], Site: where, Schema: c.Render(), Expect: "accept"})
			}
		}
	}
}

// explicit rings of structs, in every rotation of the file order and with readonly members.
func ringCases(maxLen int, emit emitter) {
	for L := 1; L <= maxLen; L++ {
		for rot := 0; rot < L; rot++ {
			for _, variant := range []string{"plain", "readonly-mixed", "with-tail", "reverse-order"} {
				if variant == "reverse-order" && rot != 0 {
					continue
				}
				s := &Schema{Name: "ring"}
				for i := 0; i < L; i++ {
					k := (i + rot) % L
					kind := kStruct
					if variant == "readonly-mixed" && k%2 == 0 {
						kind = kROStruct
					}
					s.Defs = append(s.Defs, st(kind, fmt.Sprintf("R%d", k), "", fd(N("int32"), "v"), fd(N(fmt.Sprintf("R%d", (k+1)%L)), "next")))
				}
				if variant == "reverse-order" {
					s = reversed(s, "ring")
				}
				if variant == "with-tail" {
					s.Defs = append([]*Def{st(kStruct, "Tail", "", fd(N("R0"), "r"))}, s.Defs...)
					s.Defs = append(s.Defs, st(kMessage, "Wrap", "", mfd("1", N("Tail"), "t")))
				}
				if v, n := buildModel(s).verdict(); v != "reject" || n != L {
					panic("ring model")
				}
				emit(Case{Base: "ring", Class: "struct-cycle", SiteKind: fmt.Sprintf("length=%d", L), Detail: variant, Site: fmt.Sprintf("ring of %d structs, file order rotated by %d", L, rot),
					Schema: s.Render(), Expect: "reject"})
			}
		}
	}
}

// unionMemberCycleCases: struct cycles that pass through a struct DECLARED as a union branch and referenced by name
// (a branch struct is a definition like any other: it can be a field type elsewhere), and the terminating counterparts.
func unionMemberCycleCases(emit emitter) {
	rej := func(detail, site, text string, n int) {
		emit(Case{Base: "union-member-cycle", Class: "struct-cycle", SiteKind: fmt.Sprintf("length=%d", n), Detail: detail, Site: site, Schema: text, Expect: "reject"})
	}
	acc := func(detail, site, text string) {
		emit(Case{Base: "union-member-cycle", Class: "terminating-recursion", SiteKind: "union-member-struct", Detail: detail, Site: site, Schema: text, Expect: "accept"})
	}
	rej("member-self", "a branch struct has a by-value field of its own type", "union U {\n    1 -> struct A {\n        int32 v;\n        A again;\n    }\n}\n", 1)
	rej("member-and-top-level", "branch struct A holds top-level struct B, B holds A", "union U {\n    1 -> struct A {\n        B b;\n    }\n}\nstruct B {\n    A a;\n}\n", 2)
	rej("top-level-first", "the same, the top-level struct declared first", "struct B {\n    A a;\n}\nunion U {\n    1 -> struct A {\n        B b;\n    }\n    2 -> struct C {\n        int32 x;\n    }\n}\n", 2)
	rej("sibling-members", "two branch structs of one union hold each other", "union U {\n    1 -> struct A {\n        B b;\n    }\n    2 -> struct B {\n        A a;\n    }\n}\n", 2)
	rej("members-of-two-unions", "branch structs of two unions hold each other", "union U {\n    1 -> struct A {\n        B b;\n    }\n}\nunion V {\n    1 -> struct B {\n        A a;\n    }\n}\n", 2)
	rej("through-two-top-level", "branch struct A -> S -> T -> A", "struct S {\n    T t;\n}\nunion U {\n    1 -> struct A {\n        S s;\n    }\n}\nstruct T {\n    int32 v;\n    A a;\n}\n", 3)
	rej("readonly-top-level", "branch struct and a readonly struct hold each other", "union U {\n    1 -> struct A {\n        B b;\n    }\n}\nreadonly struct B {\n    A a;\n}\n", 2)
	acc("through-message", "branch struct A holds message M, M holds A", "union U {\n    1 -> struct A {\n        M m;\n    }\n}\nmessage M {\n    1 -> A a;\n}\n")
	acc("through-its-union", "branch struct A holds its own union, which has another branch", "union U {\n    1 -> struct A {\n        U u;\n    }\n    2 -> struct Z {\n        int32 v;\n    }\n}\n")
	// a MESSAGE declared as a union branch: every field is optional, so naming itself (or being named back) always terminates
	accM := func(detail, site, text string) {
		emit(Case{Base: "union-member-cycle", Class: "terminating-recursion", SiteKind: "union-member-message", Detail: detail, Site: site, Schema: text, Expect: "accept"})
	}
	accM("branch-message-self", "a branch message has a field of its own type", "union Tree {\n    1 -> message Node {\n        1 -> int32 v;\n        2 -> Node left;\n        3 -> Node right;\n    }\n}\n")
	accM("branch-message-self-array", "a branch message holds an array and a map of itself", "union Tree {\n    1 -> message Node {\n        1 -> Node[] kids;\n        2 -> map[string, Node] named;\n    }\n}\n")
	accM("struct-and-branch-message", "top-level struct S holds branch message Link, Link holds S", "struct S {\n    Link l;\n}\nunion U {\n    1 -> message Link {\n        1 -> S s;\n    }\n}\n")
	accM("branch-messages-of-two-unions", "branch messages of two unions name each other", "union U {\n    1 -> message Ping {\n        1 -> Pong p;\n    }\n}\nunion V {\n    1 -> message Pong {\n        1 -> Ping p;\n    }\n}\n")
	accM("branch-struct-and-branch-message", "branch struct A holds sibling branch message B, B holds A", "union U {\n    1 -> struct A {\n        B b;\n    }\n    2 -> message B {\n        1 -> A a;\n    }\n}\n")
	acc("array-free-chain", "branch struct A holds top-level struct B, no way back", "union U {\n    1 -> struct A {\n        B b;\n    }\n}\nstruct B {\n    int32 v;\n}\nstruct Uses {\n    A a;\n    B b;\n}\n")
}

// crossFileCases: the same semantic errors with the two halves in different files of one schema (combined import mode):
// a definition is a definition wherever it was written.
func crossFileCases(emit emitter) {
	file := func(name, text string) string { return fileMarker + name + "\n" + text }
	rej := func(class, kind, detail, site string, parts ...string) {
		emit(Case{Base: "cross-file", Class: class, SiteKind: kind, Detail: detail, Site: site, Schema: strings.Join(parts, ""), Expect: "reject"})
	}
	acc := func(detail, site string, parts ...string) {
		emit(Case{Base: "cross-file", Class: "acyclic-graph", SiteKind: "cross-file-control", Detail: detail, Site: site, Schema: strings.Join(parts, ""), Expect: "accept", Control: true})
	}
	root := "import \"dep.bop\"\nstruct Root {\n    int32 x;\n    Dep d;\n}\n"
	dep := "struct Dep {\n    int32 y;\n}\n"
	acc("plain", "root imports dep and uses its struct", file("root.bop", root), file("dep.bop", dep))
	rej("duplicate-definition", "struct/struct", "across-files", "struct Root defined in the root and again in the imported file", file("root.bop", root), file("dep.bop", dep+"struct Root {\n    string s;\n}\n"))
	rej("duplicate-definition", "struct/message", "across-files", "struct Root in the root, message Root in the imported file", file("root.bop", root), file("dep.bop", dep+"message Root {\n    1 -> string s;\n}\n"))
	rej("duplicate-definition", "enum/struct", "across-two-imports", "enum Twice in one imported file, struct Twice in another",
		file("root.bop", "import \"a.bop\"\nimport \"b.bop\"\nstruct Root {\n    int32 x;\n}\n"), file("a.bop", "enum Twice {\n    A = 1;\n}\n"), file("b.bop", "struct Twice {\n    int32 v;\n}\n"))
	rej("duplicate-definition", "union-member/struct", "across-files", "a union branch struct in the imported file is named like a root struct",
		file("root.bop", root), file("dep.bop", dep+"union DU {\n    1 -> struct Root {\n        int32 q;\n    }\n}\n"))
	rej("duplicate-opcode", "struct/message", "across-files", "opcode 7 on a root struct and on an imported message",
		file("root.bop", "import \"dep.bop\"\n[opcode(7)]\nstruct Root {\n    int32 x;\n}\n"), file("dep.bop", "[opcode(0x7)]\nmessage DepM {\n    1 -> int32 y;\n}\n"))
	rej("duplicate-opcode", "union/struct", "across-files-4char", "opcode \"ABCD\" on a root union and the same value as an integer on an imported struct",
		file("root.bop", "import \"dep.bop\"\n[opcode(\"ABCD\")]\nunion RU {\n    1 -> struct RA {\n        int32 x;\n    }\n}\n"), file("dep.bop", "[opcode(0x44434241)]\nstruct DepS {\n    int32 y;\n}\n"))
	rej("const-named-like-type", "const/struct", "across-files", "a const in the imported file is named like a root struct", file("root.bop", root), file("dep.bop", dep+"const int32 Root = 1;\n"))
	rej("struct-cycle", "length=2", "across-files", "root struct A holds imported struct B, which holds A",
		file("root.bop", "import \"dep.bop\"\nstruct A {\n    B b;\n}\n"), file("dep.bop", "struct B {\n    A a;\n}\n"))
	rej("undefined-type", "struct-field", "in-imported-file", "the imported file uses a type defined nowhere", file("root.bop", root), file("dep.bop", dep+"struct Uses {\n    Missing m;\n}\n"))
	rej("duplicate-enum-value", "enum", "in-imported-file", "the imported file has an enum with a duplicate value", file("root.bop", root), file("dep.bop", dep+"enum DE {\n    A = 1;\n    B = 1;\n}\n"))
	// two real files with one relative spelling: the second one must be read, and what is wrong in it must be seen
	common := "struct Common {\n    int32 a;\n}\n"
	feature := "import \"./common.bop\"\nstruct Feature {\n    int32 f;\n}\n"
	rootSame := "import \"./common.bop\"\nimport \"./sub/feature.bop\"\nstruct Root {\n    Common c;\n    Feature f;\n}\n"
	acc("same-spelling-two-files", "sub/feature.bop imports its own ./common.bop", file("root.bop", rootSame), file("common.bop", common), file("sub/feature.bop", feature), file("sub/common.bop", "struct SubCommon {\n    int32 b;\n}\n"))
	rej("duplicate-definition", "struct/struct", "same-spelling-two-files", "sub/common.bop defines struct Common again", file("root.bop", rootSame), file("common.bop", common), file("sub/feature.bop", feature), file("sub/common.bop", common))
	rej("duplicate-opcode", "struct/message", "same-spelling-two-files", "sub/common.bop reuses the root's opcode",
		file("root.bop", "import \"./common.bop\"\nimport \"./sub/feature.bop\"\n[opcode(9)]\nstruct Root {\n    Common c;\n}\n"), file("common.bop", common), file("sub/feature.bop", feature), file("sub/common.bop", "[opcode(9)]\nmessage Ping {\n    1 -> int32 n;\n}\n"))
}

// scaleCases: long chains and rings (termination and verdict of the fixpoint at sizes far above the graph bound),
// and array/map-of-self shapes whose verdict is unasserted (termination only).
func scaleCases(sizes []int, emit emitter) {
	for _, n := range sizes {
		for _, ring := range []bool{false, true} {
			for _, rev := range []bool{false, true} {
				s := &Schema{Name: "scale"}
				for i := 0; i < n; i++ {
					fs := []*Field{fd(N("int32"), "v")}
					if i+1 < n {
						fs = append(fs, fd(N(fmt.Sprintf("C%d", i+1)), "next"))
					} else if ring {
						fs = append(fs, fd(N("C0"), "next"))
					}
					s.Defs = append(s.Defs, st(kStruct, fmt.Sprintf("C%d", i), "", fs...))
				}
				if rev {
					s = reversed(s, "scale")
				}
				c := Case{Base: "scale", Site: fmt.Sprintf("%d structs, ring=%v, reversed=%v", n, ring, rev), Schema: s.Render()}
				if ring {
					c.Class, c.SiteKind, c.Detail, c.Expect = "struct-cycle", "length>4", "long-ring", "reject"
				} else {
					c.Class, c.SiteKind, c.Expect = "acyclic-chain", "struct-chain", "accept"
				}
				emit(c)
			}
		}
	}
	containers := []struct {
		name string
		wrap func(t *Ty) *Ty
	}{
		{"array", func(t *Ty) *Ty { return Arr(t) }},
		{"postfix-array", func(t *Ty) *Ty { return Post(t) }},
		{"map-value", func(t *Ty) *Ty { return Map("string", t) }},
		{"array-of-map", func(t *Ty) *Ty { return Arr(Map("int32", t)) }},
	}
	for _, ct := range containers {
		name, wrap := ct.name, ct.wrap
		for L := 1; L <= 3; L++ {
			s := &Schema{Name: "container-cycle"}
			for i := 0; i < L; i++ {
				t := N(fmt.Sprintf("K%d", (i+1)%L))
				if i == 0 {
					t = wrap(t)
				}
				s.Defs = append(s.Defs, st(kStruct, fmt.Sprintf("K%d", i), "", fd(N("int32"), "v"), fd(t, "next")))
			}
			if v, _ := buildModel(s).verdict(); v != "terminate" {
				panic("container cycle model")
			}
			emit(Case{Base: "container-cycle", Class: "container-recursion", SiteKind: name, Detail: fmt.Sprintf("length=%d", L), Site: "struct cycle closed only through " + name,
				Schema: s.Render(), Expect: "terminate"})
		}
	}
}
