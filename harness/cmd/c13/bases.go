package main

// The valid base schemas. Together they contain every kind of site the injection classes need.
// Every one of them is asserted to be accepted before anything else runs.

import "fmt"

func st(kind, name, opcode string, fields ...*Field) *Def {
	return &Def{Rec: &Record{Kind: kind, Name: name, Opcode: opcode, Fields: fields}}
}
func fd(t *Ty, name string) *Field              { return &Field{Type: t, Name: name} }
func mfd(idx string, t *Ty, name string) *Field { return &Field{Index: idx, Type: t, Name: name} }
func br(disc string, kind, name string, fields ...*Field) *Branch {
	return &Branch{Disc: disc, Rec: &Record{Kind: kind, Name: name, Fields: fields}}
}
func un(name, opcode string, branches ...*Branch) *Def {
	return &Def{Un: &Union{Name: name, Opcode: opcode, Branches: branches}}
}
func en(name, base string, flags bool, opts ...*Opt) *Def {
	return &Def{En: &Enum{Name: name, Base: base, Flags: flags, Opts: opts}}
}
func op(name string, v *Expr) *Opt  { return &Opt{Name: name, Val: v} }
func co(typ, name, lit string) *Def { return &Def{Co: &Const{Type: typ, Name: name, Lit: lit}} }

// baseRecords: a realistic schema with every record kind, opcodes in all three spellings and terminating recursion
// through messages and unions.
func baseRecords() *Schema {
	return &Schema{Name: "records", Defs: []*Def{
		en("Color", "", false, op("Red", Lit("1")), op("Green", Lit("2")), op("Blue", Lit("3"))),
		st(kStruct, "Point", "", fd(N("int32"), "x"), fd(N("int32"), "y")),
		st(kROStruct, "Inner", "", fd(N("Point"), "p"), fd(N("Color"), "c"), fd(N("guid"), "g"), fd(Post(N("string")), "tags")),
		st(kStruct, "Outer", "0x10", fd(N("Inner"), "inner"), fd(Arr(N("Point")), "pts"), fd(Map("string", N("Inner")), "byName"), fd(N("date"), "d")),
		st(kMessage, "Msg", `"MSG1"`, mfd("1", N("Outer"), "o"), mfd("2", Arr(N("Msg")), "kids"), mfd("3", Map("string", N("Point")), "m"),
			mfd("4", Post(N("Color")), "cs"), mfd("5", N("string"), "s"), mfd("6", N("Tree"), "t"), mfd("255", Map("uint16", Arr(N("Point"))), "last")),
		un("Tree", "300",
			br("1", kStruct, "Leaf", fd(N("Point"), "p"), fd(N("int32"), "v")),
			br("2", kMessage, "Node", mfd("1", N("Tree"), "left"), mfd("2", N("Tree"), "right"), mfd("3", N("Msg"), "meta"), mfd("255", N("Point"), "last")),
			br("3", kStruct, "Pair", fd(N("Outer"), "a"), fd(N("Inner"), "b"))),
		st(kStruct, "Holder", "", fd(N("Tree"), "t"), fd(N("Msg"), "m")),
		st(kMessage, "Other", "301", mfd("1", N("Holder"), "h"), mfd("2", N("Other"), "next")),
	}}
}

// shapes lists every field-type position the grammar offers, around one leaf.
func shapes(leaf func() *Ty) []*Ty {
	return []*Ty{
		leaf(),
		Arr(leaf()),
		Post(leaf()),
		Post(Post(leaf())),
		Arr(Arr(leaf())),
		Map("string", leaf()),
		Map("uint32", leaf()),
		Map("guid", leaf()),
		Arr(Map("string", leaf())),
		Map("string", Arr(leaf())),
		Map("string", Post(leaf())),
		Map("int32", Map("string", leaf())),
		Post(Map("string", leaf())),
		Post(Arr(leaf())),
		Arr(Map("uint16", Post(leaf()))),
	}
}

// basePositions: every container kind x every type position, leaves rotating over struct/enum/message/union/primitives.
func basePositions() *Schema {
	leaves := []string{"P", "E", "M", "V", "string", "int32", "RP"}
	k := 0
	next := func() *Ty { k++; return N(leaves[k%len(leaves)]) }
	sfields := func(prefix string) []*Field {
		var out []*Field
		for i, t := range shapes(next) {
			out = append(out, fd(t, fmt.Sprintf("%s%d", prefix, i)))
			out[len(out)-1].Dep = i%3 == 1 // every third field is retired: its type must exist all the same
		}
		return out
	}
	mfields := func(prefix string) []*Field {
		var out []*Field
		for i, t := range shapes(next) {
			out = append(out, mfd(fmt.Sprint(i+1), t, fmt.Sprintf("%s%d", prefix, i)))
			out[len(out)-1].Dep = i%3 == 1
		}
		return out
	}
	return &Schema{Name: "positions", Defs: []*Def{
		st(kStruct, "P", "", fd(N("int32"), "a")),
		st(kROStruct, "RP", "", fd(N("byte"), "a")),
		en("E", "uint8", false, op("A", Lit("1")), op("B", Lit("2"))),
		st(kMessage, "M", "", mfd("1", N("int32"), "a")),
		un("V", "", br("1", kStruct, "VA", fd(N("int32"), "a")), br("2", kMessage, "VB", mfd("1", N("int32"), "a"))),
		{Rec: &Record{Kind: kStruct, Name: "SPos", Fields: sfields("s")}},
		{Rec: &Record{Kind: kROStruct, Name: "RPos", Fields: sfields("r")}},
		{Rec: &Record{Kind: kMessage, Name: "MPos", Fields: mfields("m")}},
		{Un: &Union{Name: "UPos", Branches: []*Branch{
			{Disc: "1", Rec: &Record{Kind: kStruct, Name: "UPosS", Fields: sfields("us")}},
			{Disc: "2", Rec: &Record{Kind: kMessage, Name: "UPosM", Fields: mfields("um")}},
		}}},
	}}
}

var enumBases = []string{"", "byte", "uint8", "uint16", "uint32", "uint64", "int16", "int32", "int64"}

func title(b string) string {
	if b == "" {
		return "Def"
	}
	return string(b[0]-32) + b[1:]
}

// baseEnums: plain and [flags] enums over every base type, with boundary values and every expression form.
func baseEnums() *Schema {
	s := &Schema{Name: "enums"}
	var uses []*Field
	for _, b := range enumBases {
		eb := b
		if eb == "" {
			eb = "uint32"
		}
		mn, mx := intRange(eb)
		_, signed, _ := intWidth(eb)
		opts := []*Opt{op("Zero", Lit("0")), op("One", Lit("1")), op("Hex", Lit("0x12")), op("Max", Lit(mx.String()))}
		if signed {
			opts = append(opts, op("Min", Lit(mn.String())), op("Neg", Lit("-1")))
		}
		s.Defs = append(s.Defs, en("E"+title(b), b, false, opts...))
		fopts := []*Opt{
			op("None", Lit("0")), op("A", Lit("1")), op("B", Lit("2")),
			op("C", Bin("<<", Lit("1"), Lit("3"))),
			op("AB", Bin("|", Ref("A"), Ref("B"))),
			op("P", Par(Bin("<<", Lit("1"), Lit("4")))),
			op("Q", Bin("|", Par(Bin("|", Ref("A"), Ref("B"))), Ref("C"))),
			op("R", Lit("0x20")),
			op("S", Bin(">>", Lit("0x80"), Lit("1"))),
			op("T", Bin("&", Lit("0xff"), Lit("0x80"))),
			op("Hi", Lit(hexLit(mx))),
		}
		if signed {
			fopts = append(fopts, op("Lo", Lit(mn.String())), op("Neg", Lit("-2")))
		}
		s.Defs = append(s.Defs, en("F"+title(b), b, true, fopts...))
		// two-option enums: an out-of-range value that wraps around cannot collide with another option here, so a
		// missing range check is not hidden behind the duplicate-value check
		s.Defs = append(s.Defs, en("TE"+title(b), b, false, op("A", Lit("1")), op("B", Lit("4"))))
		s.Defs = append(s.Defs, en("TF"+title(b), b, true, op("A", Lit("1")), op("B", Lit("4"))))
		uses = append(uses, fd(N("E"+title(b)), "e"+title(b)), fd(Arr(N("F"+title(b))), "f"+title(b)))
	}
	s.Defs = append(s.Defs, &Def{Rec: &Record{Kind: kStruct, Name: "UsesEnums", Fields: uses}})
	return s
}

const goodGUID = `"e215a946-b26f-4567-a276-13136f0a1708"`

// baseConsts: a const of every primitive type that can have one (there is no literal form for date).
func baseConsts() *Schema {
	return &Schema{Name: "consts", Defs: []*Def{
		co("byte", "cByte", "255"),
		co("uint8", "cU8", "0"),
		co("uint16", "cU16", "65535"),
		co("uint32", "cU32", "0xffffffff"),
		co("uint64", "cU64", "18446744073709551615"),
		co("int16", "cI16", "-32768"),
		co("int32", "cI32", "2147483647"),
		co("int64", "cI64", "-9223372036854775808"),
		co("float32", "cF32", "1.5"),
		co("float64", "cF64", "-2.25"),
		co("float64", "cInf", "inf"),
		co("float32", "cNInf", "-inf"),
		co("float64", "cNaN", "nan"),
		co("float32", "cFInt", "3"),
		co("string", "cStr", `"hello"`),
		co("guid", "cGuid", goodGUID),
		co("bool", "cTrue", "true"),
		co("bool", "cFalse", "false"),
		st(kStruct, "AfterConsts", "", fd(N("int32"), "a")),
	}}
}

// baseKinds: one definition of every kind, none referring to another, so that renaming one never changes what any
// reference means. Opcodes in decimal, hex and 4-character spelling.
func baseKinds() *Schema {
	return &Schema{Name: "kinds", Defs: []*Def{
		en("LE", "", false, op("A", Lit("1")), op("B", Lit("2"))),
		en("LF", "uint16", true, op("A", Lit("1")), op("B", Bin("<<", Lit("1"), Lit("1")))),
		st(kStruct, "LS", "", fd(N("int32"), "a"), fd(N("int32"), "b")),
		st(kROStruct, "LR", "7", fd(N("int32"), "a"), fd(N("string"), "b")),
		st(kMessage, "LM", "0x1234", mfd("1", N("int32"), "a"), mfd("2", N("string"), "b")),
		un("LU", `"ABCE"`,
			br("1", kStruct, "LUS", fd(N("int32"), "a"), fd(N("int32"), "b")),
			br("2", kMessage, "LUM", mfd("1", N("int32"), "a"), mfd("2", N("int32"), "b"))),
		un("LV", "",
			br("1", kStruct, "LVS", fd(N("byte"), "a")),
			br("2", kMessage, "LVM", mfd("1", N("byte"), "a"))),
		co("int32", "lc", "1"),
		co("string", "ld", `"x"`),
	}}
}

// reversed returns the same definitions in the opposite file order.
func reversed(s *Schema, name string) *Schema {
	c := s.clone()
	c.Name = name
	for i, j := 0, len(c.Defs)-1; i < j; i, j = i+1, j-1 {
		c.Defs[i], c.Defs[j] = c.Defs[j], c.Defs[i]
	}
	return c
}

func allBases() []*Schema {
	k := baseKinds()
	return []*Schema{baseRecords(), basePositions(), baseEnums(), baseConsts(), k, reversed(k, "kinds-reversed")}
}
