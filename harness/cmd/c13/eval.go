package main

// Exact (arbitrary precision) arithmetic for the oracle: integer type ranges, literal parsing and
// flag-expression evaluation. Independent of the implementation's width-typed evaluator.

import (
	"fmt"
	"math/big"
	"strings"
)

var primitives = []string{"bool", "byte", "uint8", "uint16", "int16", "uint32", "int32", "uint64", "int64",
	"float32", "float64", "string", "guid", "date"}

var intTypes = []string{"byte", "uint8", "uint16", "uint32", "uint64", "int16", "int32", "int64"}

func isPrimitive(n string) bool {
	for _, p := range primitives {
		if p == n {
			return true
		}
	}
	return false
}

func intWidth(t string) (bits int, signed bool, ok bool) {
	switch t {
	case "byte", "uint8":
		return 8, false, true
	case "uint16":
		return 16, false, true
	case "uint32":
		return 32, false, true
	case "uint64":
		return 64, false, true
	case "int16":
		return 16, true, true
	case "int32":
		return 32, true, true
	case "int64":
		return 64, true, true
	}
	return 0, false, false
}

func pow2(n int) *big.Int { return new(big.Int).Lsh(big.NewInt(1), uint(n)) }

// intRange is the closed value range of an integer type.
func intRange(t string) (min, max *big.Int) {
	bits, signed, ok := intWidth(t)
	if !ok {
		panic("intRange of " + t)
	}
	if signed {
		return new(big.Int).Neg(pow2(bits - 1)), new(big.Int).Sub(pow2(bits-1), big.NewInt(1))
	}
	return big.NewInt(0), new(big.Int).Sub(pow2(bits), big.NewInt(1))
}

func inRange(v *big.Int, t string) bool {
	mn, mx := intRange(t)
	return v.Cmp(mn) >= 0 && v.Cmp(mx) <= 0
}

// parseIntLit parses the harness's own integer literal spellings: [-]decimal and [-]0xhex.
func parseIntLit(s string) (*big.Int, bool) {
	neg := strings.HasPrefix(s, "-")
	t := strings.TrimPrefix(s, "-")
	v := new(big.Int)
	var ok bool
	if strings.HasPrefix(t, "0x") {
		_, ok = v.SetString(t[2:], 16)
	} else {
		if len(t) > 1 && t[0] == '0' {
			return nil, false // the harness never writes octal-looking literals in value position
		}
		_, ok = v.SetString(t, 10)
	}
	if !ok {
		return nil, false
	}
	if neg {
		v.Neg(v)
	}
	return v, true
}

func hexLit(v *big.Int) string {
	if v.Sign() < 0 {
		return "-0x" + new(big.Int).Neg(v).Text(16)
	}
	return "0x" + v.Text(16)
}

// evalExact evaluates an option value with mathematical integers. ok=false when the value is not an
// integer at all (negative shift count) or refers to an unknown option.
func evalExact(e *Expr, env map[string]*big.Int) (v *big.Int, ok bool) {
	switch e.Op {
	case "lit":
		return parseIntLit(e.Text)
	case "ref":
		v, ok := env[e.Text]
		return v, ok
	case "par":
		return evalExact(e.L, env)
	}
	l, ok1 := evalExact(e.L, env)
	r, ok2 := evalExact(e.R, env)
	if !ok1 || !ok2 {
		return nil, false
	}
	switch e.Op {
	case "|":
		return new(big.Int).Or(l, r), true
	case "&":
		return new(big.Int).And(l, r), true
	case "<<":
		if r.Sign() < 0 || r.BitLen() > 16 {
			return nil, false
		}
		return new(big.Int).Lsh(l, uint(r.Int64())), true
	case ">>":
		if r.Sign() < 0 || r.BitLen() > 16 {
			return nil, false
		}
		return new(big.Int).Rsh(l, uint(r.Int64())), true
	}
	panic(fmt.Sprintf("evalExact: operator %q", e.Op))
}

// enumEnv evaluates all options of an (unmodified, valid) enum.
func enumEnv(en *Enum) map[string]*big.Int {
	env := map[string]*big.Int{}
	for _, o := range en.Opts {
		v, ok := evalExact(o.Val, env)
		if !ok {
			panic("base enum " + en.Name + " option " + o.Name + " does not evaluate")
		}
		env[o.Name] = v
	}
	return env
}

// unambiguous reports whether the expression means the same under every precedence/associativity: each operand of a
// binary operator is a literal, a reference or parenthesised.
func unambiguous(e *Expr) bool {
	switch e.Op {
	case "lit", "ref":
		return true
	case "par":
		return unambiguous(e.L)
	}
	atom := func(x *Expr) bool { return x.Op == "lit" || x.Op == "ref" || (x.Op == "par" && unambiguous(x.L)) }
	return atom(e.L) && atom(e.R)
}
