package main

// Exact-verdict side: ALL directed graphs (self-loops included) on n nodes, each node a struct, message or union,
// an edge u->v being a by-value field of type v held by u. Reference verdict: reject iff the subgraph induced by the
// struct nodes (struct -> struct by-value edges) has a cycle.

import (
	"fmt"
	"strings"
)

const (
	gStruct = iota
	gMessage
	gUnion
)

var gKindName = []string{"struct", "message", "union"}

type graphSpec struct {
	N          int
	Adj        uint32 // bit u*N+v = edge u->v
	Kinds      []int
	UnionStyle int // 0: every union branch is an inline struct, 1: an inline message
}

func (g graphSpec) edge(u, v int) bool { return g.Adj>>(uint(u*g.N+v))&1 == 1 }

func (g graphSpec) Render() string {
	var b strings.Builder
	for u := 0; u < g.N; u++ {
		switch g.Kinds[u] {
		case gStruct:
			fmt.Fprintf(&b, "struct G%d {\n    int32 v;\n", u)
			for v := 0; v < g.N; v++ {
				if g.edge(u, v) {
					fmt.Fprintf(&b, "    G%d e%d;\n", v, v)
				}
			}
			b.WriteString("}\n")
		case gMessage:
			fmt.Fprintf(&b, "message G%d {\n    1 -> int32 v;\n", u)
			for v := 0; v < g.N; v++ {
				if g.edge(u, v) {
					fmt.Fprintf(&b, "    %d -> G%d e%d;\n", v+2, v, v)
				}
			}
			b.WriteString("}\n")
		case gUnion:
			fmt.Fprintf(&b, "union G%d {\n    1 -> struct G%dLeaf {\n        int32 v;\n    }\n", u, u)
			for v := 0; v < g.N; v++ {
				if g.edge(u, v) {
					if g.UnionStyle == 0 {
						fmt.Fprintf(&b, "    %d -> struct G%dTo%d {\n        G%d e;\n    }\n", v+2, u, v, v)
					} else {
						fmt.Fprintf(&b, "    %d -> message G%dTo%d {\n        1 -> G%d e;\n    }\n", v+2, u, v, v)
					}
				}
			}
			b.WriteString("}\n")
		}
	}
	return b.String()
}

// closure returns reach[u] = bitmask of nodes reachable from u in >= 1 step using only allowed nodes.
func (g graphSpec) closure(allowed func(int) bool) []uint32 {
	reach := make([]uint32, g.N)
	for u := 0; u < g.N; u++ {
		if !allowed(u) {
			continue
		}
		for v := 0; v < g.N; v++ {
			if allowed(v) && g.edge(u, v) {
				reach[u] |= 1 << uint(v)
			}
		}
	}
	for k := 0; k < g.N; k++ {
		for u := 0; u < g.N; u++ {
			if reach[u]>>uint(k)&1 == 1 {
				reach[u] |= reach[k]
			}
		}
	}
	return reach
}

// reference verdict and a description of what the graph exercises.
func (g graphSpec) reference() (expect string, class, siteKind, detail string) {
	isStruct := func(u int) bool { return g.Kinds[u] == gStruct }
	sr := g.closure(isStruct)
	structCycle := false
	for u := 0; u < g.N; u++ {
		if sr[u]>>uint(u)&1 == 1 {
			structCycle = true
		}
	}
	if structCycle {
		// shortest struct cycle length by BFS over <= 4 nodes
		best := 0
		for s := 0; s < g.N; s++ {
			if !isStruct(s) {
				continue
			}
			frontier := uint32(1) << uint(s)
			for step := 1; step <= g.N; step++ {
				var next uint32
				for u := 0; u < g.N; u++ {
					if frontier>>uint(u)&1 == 1 {
						for v := 0; v < g.N; v++ {
							if isStruct(v) && g.edge(u, v) {
								next |= 1 << uint(v)
							}
						}
					}
				}
				if next>>uint(s)&1 == 1 {
					if best == 0 || step < best {
						best = step
					}
					break
				}
				frontier = next
			}
		}
		return "reject", "struct-cycle", "graph", fmt.Sprintf("length=%d", best)
	}
	all := g.closure(func(int) bool { return true })
	through := map[string]bool{}
	anyCycle := false
	for u := 0; u < g.N; u++ {
		if all[u]>>uint(u)&1 == 1 {
			anyCycle = true
			switch g.Kinds[u] {
			case gMessage:
				through["message"] = true
			case gUnion:
				if g.UnionStyle == 0 {
					through["union-struct-branch"] = true
				} else {
					through["union-message-branch"] = true
				}
			}
		}
	}
	if !anyCycle {
		return "accept", "acyclic-graph", "graph", ""
	}
	var parts []string
	for _, k := range []string{"message", "union-struct-branch", "union-message-branch"} {
		if through[k] {
			parts = append(parts, k)
		}
	}
	return "accept", "terminating-recursion", "graph", "through=" + strings.Join(parts, "+")
}

func (g graphSpec) describe() string {
	ks := make([]string, g.N)
	for i, k := range g.Kinds {
		ks[i] = gKindName[k]
	}
	var es []string
	for u := 0; u < g.N; u++ {
		for v := 0; v < g.N; v++ {
			if g.edge(u, v) {
				es = append(es, fmt.Sprintf("G%d->G%d", u, v))
			}
		}
	}
	return fmt.Sprintf("graph on %d nodes [%s], edges {%s}, union branches as %s", g.N, strings.Join(ks, ","), strings.Join(es, " "), []string{"inline structs", "inline messages"}[g.UnionStyle])
}

// graphFamily is one enumerated block: all adjacency matrices x the listed kind assignments x union styles.
type graphFamily struct {
	N           int
	KindSets    [][]int
	UnionStyles []int
}

func (f graphFamily) size() int { return (1 << uint(f.N*f.N)) * len(f.KindSets) * len(f.UnionStyles) }

func (f graphFamily) at(i int) graphSpec {
	nadj := 1 << uint(f.N*f.N)
	adj := i % nadj
	i /= nadj
	ks := f.KindSets[i%len(f.KindSets)]
	i /= len(f.KindSets)
	return graphSpec{N: f.N, Adj: uint32(adj), Kinds: ks, UnionStyle: f.UnionStyles[i]}
}

func allKindSets(n int) [][]int {
	total := 1
	for i := 0; i < n; i++ {
		total *= 3
	}
	var out [][]int
	for c := 0; c < total; c++ {
		ks := make([]int, n)
		x := c
		for i := 0; i < n; i++ {
			ks[i] = x % 3
			x /= 3
		}
		out = append(out, ks)
	}
	return out
}

// hasUnion tells whether a kind assignment contains a union (only then does the union style matter).
func hasUnion(ks []int) bool {
	for _, k := range ks {
		if k == gUnion {
			return true
		}
	}
	return false
}
