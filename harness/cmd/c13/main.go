// C13 - "Schemas that cannot work are rejected, not compiled".
// Bounded-exhaustive model checking: (base schema x injection class x every applicable site) plus all small
// definition graphs, each executed on the real bebop.ReadFile / File.Validate / File.Generate of /repo's working
// tree and judged by an independent structural oracle. See NOTES.md.
package main

import (
	"crypto/sha256"
	"encoding/hex"
	"encoding/json"
	"flag"
	"fmt"
	"os"
	"path/filepath"
	"sort"
	"strings"
	"sync"
	"sync/atomic"
	"time"

	"verif/vlib"
)

type classStat struct {
	Injected         int `json:"injected"`
	Rejected         int `json:"rejected_as_required"`
	WronglyAccepted  int `json:"accepted_violation"`
	MustAccept       int `json:"must_accept"`
	WronglyRejected  int `json:"rejected_violation"`
	Controls         int `json:"controls_accepted"`
	TerminationOnly  int `json:"termination_only"`
	PanicsOrTimeouts int `json:"panic_or_timeout"`
}

type stats struct {
	mu       sync.Mutex
	viol     map[string]*vlib.Violation // first case per signature: every signature gets a replay file, not only the printed ones
	violN    map[string]int
	pending  []pendingViolation
	hung     []Case // watchdog expiries, confirmed by a second, solitary execution before they are reported
	byClass  map[string]*classStat
	stages   map[string]int
	pairs    map[string]bool // distinct (class, site kind) injected
	ctrlFail []string
}

func (s *stats) class(c string) *classStat {
	if s.byClass[c] == nil {
		s.byClass[c] = &classStat{}
	}
	return s.byClass[c]
}

func caseMap(c *Case, o outcome) map[string]any {
	return map[string]any{"schema": c.Schema, "class": c.Class, "site_kind": c.SiteKind, "detail": c.Detail, "site": c.Site,
		"base": c.Base, "expect": c.Expect, "observed": o.String()}
}

type pendingViolation struct {
	sig, msg string
	c        map[string]any
}

// report buffers a violation; flush hands them to the framework in a deterministic order (per signature the smallest
// schema first), so the witness kept for a signature does not depend on goroutine scheduling.
func (s *stats) report(run *vlib.Run, sig, msg string, c map[string]any) {
	s.mu.Lock()
	s.pending = append(s.pending, pendingViolation{sig, msg, c})
	s.mu.Unlock()
}

func (s *stats) flush(run *vlib.Run) {
	text := func(p pendingViolation) string { t, _ := p.c["schema"].(string); return t }
	sort.Slice(s.pending, func(i, j int) bool {
		a, b := s.pending[i], s.pending[j]
		if a.sig != b.sig {
			return a.sig < b.sig
		}
		ta, tb := text(a), text(b)
		if len(ta) != len(tb) {
			return len(ta) < len(tb)
		}
		return ta < tb
	})
	for _, p := range s.pending {
		if s.viol[p.sig] == nil {
			s.viol[p.sig] = &vlib.Violation{Property: run.Property, Signature: p.sig, Message: vlib.Short(p.msg, 1500), Case: p.c}
		}
		s.violN[p.sig]++
		run.Report(p.sig, p.msg, p.c)
	}
	s.pending = nil
}

// writeReplays writes one replay file per observed signature (same naming scheme and format as vlib's) and prints the
// signatures grouped by (class, site kind) - the framework itself prints and persists only the first 25.
func (s *stats) writeReplays(run *vlib.Run) {
	dir := filepath.Join(vlib.VerifDir(), "replays", run.Property)
	_ = os.MkdirAll(dir, 0o755)
	groups := map[string][]string{}
	for sig, v := range s.viol {
		b, _ := json.MarshalIndent(v, "", " ")
		h := sha256.Sum256([]byte(sig))
		_ = os.WriteFile(filepath.Join(dir, hex.EncodeToString(h[:6])+".json"), b, 0o644)
		parts := strings.Split(sig, "|")
		g := sig
		if len(parts) > 3 {
			g = strings.Join(parts[:3], "|")
		}
		groups[g] = append(groups[g], sig)
	}
	keys := make([]string, 0, len(groups))
	for g := range groups {
		keys = append(keys, g)
	}
	sort.Strings(keys)
	if len(keys) > 0 {
		fmt.Printf("C13 observed %d signatures in %d groups (before known-finding filtering; every signature has a replay file in %s):\n", len(s.viol), len(keys), dir)
	}
	for _, g := range keys {
		sort.Strings(groups[g])
		n := 0
		for _, sig := range groups[g] {
			n += s.violN[sig]
		}
		first := groups[g][0]
		h := sha256.Sum256([]byte(first))
		fmt.Printf("  GROUP %s* : %d signatures, %d cases; e.g. %s  [%s.json]\n", g, len(groups[g]), n, first, hex.EncodeToString(h[:6]))
	}
}

// judge compares the implementation's outcome with the reference expectation and reports.
func judge(run *vlib.Run, st *stats, c *Case, o outcome) {
	if o.Hung && !c.confirm {
		// a loaded machine must not turn into a non-termination report: run it again, alone, at the end
		st.mu.Lock()
		cc := *c
		cc.confirm = true
		st.hung = append(st.hung, cc)
		st.mu.Unlock()
		return
	}
	st.mu.Lock()
	cs := st.class(c.Class)
	if !c.Control {
		st.pairs[c.Class+"|"+c.SiteKind] = true
	}
	if o.Err != "" {
		st.stages[o.Stage]++
	}
	bad := o.Panic != "" || o.Hung
	if bad {
		cs.PanicsOrTimeouts++
	}
	switch {
	case c.Control:
		if o.accepted() {
			cs.Controls++
		} else if o.rejected() {
			st.ctrlFail = append(st.ctrlFail, fmt.Sprintf("[%s / %s / %s] %s\n%s", c.Base, c.sig(), c.Site, o, c.Schema))
		}
	case c.Expect == "reject":
		cs.Injected++
		if o.rejected() {
			cs.Rejected++
		} else if o.accepted() {
			cs.WronglyAccepted++
		}
	case c.Expect == "accept":
		cs.MustAccept++
		if o.rejected() {
			cs.WronglyRejected++
		}
	default:
		cs.TerminationOnly++
	}
	st.mu.Unlock()

	what := "injection " + c.Class
	if c.Control {
		what = "valid control schema for " + c.Class
	}
	switch {
	case o.Hung:
		st.report(run, c.sig()+"|non-termination", fmt.Sprintf("%s (%s; base %s): %s", what, c.Site, c.Base, o), caseMap(c, o))
	case o.Panic != "":
		st.report(run, c.sig()+"|panic", fmt.Sprintf("%s (%s; base %s): %s - a panic is not an error result", what, c.Site, c.Base, o), caseMap(c, o))
	case c.Control:
	case c.Expect == "reject" && o.accepted():
		st.report(run, c.sig()+"|accepted", fmt.Sprintf("schema with a %s error (%s; base schema %q) must be rejected by ReadFile or Generate, but it was %s", c.Class, c.Site, c.Base, o), caseMap(c, o))
	case c.Expect == "accept" && o.rejected():
		why := "valid schema without any recursion"
		if c.Class == "terminating-recursion" {
			why = "schema whose recursion can terminate (it passes through a message or a union)"
		}
		st.report(run, c.sig()+"|rejected-by-"+o.Stage, fmt.Sprintf("%s (%s; %s) must be accepted, but it was %s", why, c.Class, c.Site, o), caseMap(c, o))
	}
}

// checkBaseStructure: the harness's own, implementation-independent validity requirements on a base schema.
func checkBaseStructure(b *Schema) {
	seen := map[string]bool{}
	for _, n := range b.namedDefs() {
		if seen[*n.Name] || isPrimitive(*n.Name) || *n.Name == undefinedName || *n.Name == freshName {
			vlib.Fatal("base %s: definition name %q is duplicated or reserved", b.Name, *n.Name)
		}
		seen[*n.Name] = true
	}
	for _, ts := range b.typeSites() {
		if !seen[ts.Leaf.Name] && !isPrimitive(ts.Leaf.Name) {
			vlib.Fatal("base %s: %s refers to undefined %s", b.Name, ts.Where, ts.Leaf.Name)
		}
	}
	for _, r := range b.records() {
		fn, idx := map[string]bool{}, map[string]bool{}
		for _, f := range r.Rec.Fields {
			if fn[f.Name] || f.Name == "fresh9" || f.Name == "injected" {
				vlib.Fatal("base %s: record %s field name %q duplicated or reserved", b.Name, r.Rec.Name, f.Name)
			}
			fn[f.Name] = true
			if r.Rec.Kind == kMessage {
				if idx[f.Index] || f.Index == "0" || f.Index == "201" || f.Index == "203" {
					vlib.Fatal("base %s: message %s index %q duplicated or reserved", b.Name, r.Rec.Name, f.Index)
				}
				idx[f.Index] = true
			}
		}
	}
	for _, d := range b.Defs {
		if d.En != nil && !enumValid(d.En) {
			vlib.Fatal("base %s: enum %s is not valid in the reference model", b.Name, d.En.Name)
		}
		if d.En != nil {
			for _, o := range d.En.Opts {
				if !unambiguous(o.Val) {
					vlib.Fatal("base %s: enum %s option %s has a precedence-dependent expression", b.Name, d.En.Name, o.Name)
				}
			}
		}
		if d.Co != nil && assignable(d.Co.Type, "int") == 1 {
			if _, _, isInt := intWidth(d.Co.Type); isInt {
				if v, ok := parseIntLit(d.Co.Lit); !ok || !inRange(v, d.Co.Type) {
					vlib.Fatal("base %s: const %s out of range", b.Name, d.Co.Name)
				}
			}
		}
	}
}

func replay(path string) {
	b, err := os.ReadFile(path)
	if err != nil {
		vlib.Fatal("cannot read replay file: %v", err)
	}
	var v struct {
		Signature string         `json:"signature"`
		Message   string         `json:"message"`
		Case      map[string]any `json:"case"`
	}
	if err := json.Unmarshal(b, &v); err != nil {
		vlib.Fatal("replay file is not JSON: %v", err)
	}
	text, _ := v.Case["schema"].(string)
	expect, _ := v.Case["expect"].(string)
	if text == "" || expect == "" {
		vlib.Fatal("replay file has no case.schema / case.expect")
	}
	fmt.Printf("replaying %s\n  class=%v site_kind=%v detail=%v\n  site: %v\n  expectation: %s\n--- schema ---\n%s--- end ---\n", v.Signature, v.Case["class"], v.Case["site_kind"], v.Case["detail"], v.Case["site"], expect, text)
	o := runSchema(text, true)
	fmt.Printf("observed now: %s\n", o)
	still := false
	switch {
	case o.Hung || o.Panic != "":
		still = true
	case expect == "reject":
		still = !o.rejected()
	case expect == "accept":
		still = !o.accepted()
	}
	if still {
		fmt.Printf("VIOLATION property=C13 replay=%s\n  signature: %s\n  still reproduces\n", path, v.Signature)
		os.Exit(1)
	}
	fmt.Println("no longer reproduces: the outcome now agrees with the expectation")
	os.Exit(0)
}

const quickGraphBudget = 45 * time.Second

func main() {
	started := time.Now()
	prop := flag.String("property", "C13", "")
	rp := flag.String("replay", "", "")
	flag.Parse()
	if *rp != "" {
		replay(*rp)
	}
	run := vlib.NewRun(*prop, "model_checking")
	st := &stats{byClass: map[string]*classStat{}, stages: map[string]int{}, pairs: map[string]bool{}, viol: map[string]*vlib.Violation{}, violN: map[string]int{}}

	// 1. base schemas: structurally valid for the harness, and accepted by the implementation.
	var bases []*Schema
	for _, b := range allBases() {
		checkBaseStructure(b)
		o := runSchema(b.Render(), true)
		if !o.accepted() {
			// the implementation rejects a valid schema: over-rejection is not what C13 is about; the injections into this
			// base cannot be judged (every one of them would be "rejected"), the other bases still are
			run.Cap(fmt.Sprintf("base schema %q is valid but was not accepted (%s): its injections are skipped", b.Name, o))
			continue
		}
		bases = append(bases, b)
	}
	if len(bases) == 0 {
		vlib.Fatal("no base schema is accepted by the implementation")
	}

	// 2. injections at every applicable site of every base.
	var cases []Case
	for _, b := range bases {
		b := b
		emit := func(c Case) {
			c.Base = b.Name
			cases = append(cases, c)
		}
		injUndefinedType(b, emit)
		injDuplicateDefinition(b, emit)
		injDuplicateField(b, emit)
		injDuplicateEnum(b, emit)
		injIndices(b, emit)
		injDuplicateOpcode(b, emit)
		injEnumRange(b, emit)
		injConst(b, emit)
		injPrimitiveName(b, emit)
		injByValueEdge(b, emit)
	}
	plain := func(c Case) { cases = append(cases, c) }
	if run.Thorough() {
		ringCases(6, plain)
		unionMemberCycleCases(plain)
		crossFileCases(plain)
		scaleCases([]int{8, 16, 32, 64, 128}, plain)
	} else {
		ringCases(4, plain)
		unionMemberCycleCases(plain)
		crossFileCases(plain)
		scaleCases([]int{8, 16, 32, 64}, plain)
	}
	// identical texts reached by different routes are executed once per (signature, text)
	{
		seen := map[string]bool{}
		out := cases[:0]
		for _, c := range cases {
			k := c.sig() + "\x00" + c.Expect + "\x00" + c.Schema
			if seen[k] {
				continue
			}
			seen[k] = true
			out = append(out, c)
		}
		cases = out
	}
	sampleEvery := len(cases)/5 + 1
	vlib.ParallelFor(len(cases), func(i int) {
		c := &cases[i]
		o := runSchema(c.Schema, false)
		judge(run, st, c, o)
		if i%sampleEvery == 0 {
			run.Sample(map[string]any{"class": c.Class, "site_kind": c.SiteKind, "detail": c.Detail, "site": c.Site, "base": c.Base, "control": c.Control,
				"expect": c.Expect, "observed": o.String(), "schema": vlib.Short(c.Schema, 600)})
		}
	})
	if len(st.ctrlFail) > 0 {
		sort.Strings(st.ctrlFail)
		n := len(st.ctrlFail)
		if n > 5 {
			st.ctrlFail = st.ctrlFail[:5]
		}
		run.Cap(fmt.Sprintf("%d control schemas (valid twins of an injection) were rejected - the implementation rejects valid schemas (not a C13 matter) or a base is wrong: %s", n, vlib.Short(strings.Join(st.ctrlFail, " --- "), 600)))
	}

	// 3. graphs: exact verdicts.
	var fams []graphFamily
	withUnion := func(n int) [][]int {
		var out [][]int
		for _, ks := range allKindSets(n) {
			if hasUnion(ks) {
				out = append(out, ks)
			}
		}
		return out
	}
	for n := 1; n <= 3; n++ {
		fams = append(fams, graphFamily{N: n, KindSets: allKindSets(n), UnionStyles: []int{0}}, graphFamily{N: n, KindSets: withUnion(n), UnionStyles: []int{1}})
	}
	graphRule := "all directed graphs (self-loops included) on n<=3 nodes x all 3^n kind assignments (struct/message/union), union branches as inline structs and again as inline messages"
	if run.Thorough() {
		fams = append(fams, graphFamily{N: 4, KindSets: allKindSets(4), UnionStyles: []int{0}})
		graphRule += "; n=4: all 65,536 graphs x all 81 kind assignments with struct branches (message-branch style only for n<=3)"
	} else {
		// representative kind assignments for n=4 in the quick tier: all structs, and exactly one message or union first / last
		sets := [][]int{{gStruct, gStruct, gStruct, gStruct}}
		for _, pos := range []int{0, 3} {
			for _, k := range []int{gMessage, gUnion} {
				ks := []int{gStruct, gStruct, gStruct, gStruct}
				ks[pos] = k
				sets = append(sets, ks)
			}
		}
		fams = append(fams, graphFamily{N: 4, KindSets: sets, UnionStyles: []int{0}})
		graphRule += "; n=4 (quick tier): all 65,536 graphs x 5 representative kind assignments (all structs; exactly one message or one union, as the first or as the last definition)"
	}
	var graphs, graphReject, graphAccept atomic.Int64
	graphKinds := vlib.NewCounter()
	for _, f := range fams {
		f := f
		total := f.size()
		const chunk = 512
		nchunks := (total + chunk - 1) / chunk
		vlib.ParallelFor(nchunks, func(ci int) {
			if run.TimeUp("graph enumeration") {
				return
			}
			if !run.Thorough() && f.N == 4 && time.Since(started) > quickGraphBudget {
				run.Cap(fmt.Sprintf("quick tier: n=4 graph enumeration stopped after %v of wall time (loaded machine); n<=3 and all injections are complete", quickGraphBudget))
				return
			}
			for i := ci * chunk; i < (ci+1)*chunk && i < total; i++ {
				g := f.at(i)
				expect, class, sk, detail := g.reference()
				c := &Case{Base: "graph", Class: class, SiteKind: sk, Detail: detail, Site: g.describe(), Schema: g.Render(), Expect: expect}
				o := runSchema(c.Schema, true)
				judge(run, st, c, o)
				graphs.Add(1)
				if expect == "reject" {
					graphReject.Add(1)
				} else {
					graphAccept.Add(1)
				}
				graphKinds.Add(class + "|" + detail)
				if i == total/3 {
					run.Sample(map[string]any{"graph": g.describe(), "expect": expect, "observed": o.String(), "schema": c.Schema})
				}
			}
		})
	}

	// watchdog expiries are re-executed one at a time; only a second expiry is reported as non-termination
	for i := range st.hung {
		c := &st.hung[i]
		judge(run, st, c, runSchema(c.Schema, true))
	}
	run.Coverage["watchdog_expiries_first_pass"] = len(st.hung)

	// coverage
	perClass := map[string]any{}
	injected, controls := 0, 0
	for k, v := range st.byClass {
		perClass[k] = v
		injected += v.Injected + v.MustAccept + v.TerminationOnly
		controls += v.Controls
	}
	pairs := make([]string, 0, len(st.pairs))
	for k := range st.pairs {
		pairs = append(pairs, k)
	}
	sort.Strings(pairs)
	run.Coverage["states"] = len(cases) + int(graphs.Load())
	run.Coverage["transitions"] = transitions.Load()
	run.Coverage["traces_validated_against_impl"] = executed.Load()
	run.Coverage["evaluations"] = executed.Load()
	run.Coverage["distinct_nontrivial"] = len(pairs)
	run.Coverage["distinct_class_sitekind_pairs"] = pairs
	run.Coverage["base_schemas"] = len(bases)
	run.Coverage["injection_cases"] = len(cases) - controls
	run.Coverage["control_cases_accepted"] = controls
	run.Coverage["per_class"] = perClass
	run.Coverage["rejections_by_stage"] = st.stages
	run.Coverage["graphs_enumerated"] = graphs.Load()
	run.Coverage["graphs_reference_reject"] = graphReject.Load()
	run.Coverage["graphs_reference_accept"] = graphAccept.Load()
	run.Coverage["graph_classes"] = graphKinds.Top(40)
	run.Coverage["rule"] = "state = one (base schema, injection class, site, variant) case or one definition graph; every applicable site of every base is injected one error at a time (never sampled); " +
		graphRule + "; every case is executed on the real ReadFile/Generate (graphs also Validate) under a 20 s watchdog with panic recovery; distinct_nontrivial = distinct (class, site kind) pairs actually injected"
	run.Coverage["explanation"] = "oracle: rejection is demanded only for the error classes listed in the statement and decided structurally by the harness's own model (exact integer arithmetic, own reference graph analysis); every injection has a benign twin that must stay accepted"
	run.Assume = []string{
		"single-file schemas (no imports); GenerateSettings{PackageName: \"p\"} only",
		"sign-bit shifts in signed [flags] enums (1 << 15 for int16), float const range, date consts from string/int literals, opcode value 0, array/map-of-self recursion, const named like a primitive, references to inline union members from outside: unasserted",
		"flag expressions are written so that they mean the same under every precedence/associativity",
		"graphs bounded to n<=3 (all kinds) and n=4 (quick: all-struct; thorough: all kinds, struct-branch unions); rings to length 4/6; chains/rings of 8..64/128 structs for termination",
	}
	st.flush(run)
	st.writeReplays(run)
	run.Finish()
}
