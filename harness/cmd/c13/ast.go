package main

// The harness's own schema model: a small AST, a renderer to .bop text, deep copies and site walkers.
// Nothing here asks the implementation under test anything.

import (
	"fmt"
	"strings"
)

const (
	tyName    = iota // a named type (primitive or user defined)
	tyArray          // array[Elem]
	tyPostfix        // Elem[]
	tyMap            // map[Key, Elem]
)

type Ty struct {
	Kind int
	Name string
	Key  *Ty
	Elem *Ty
}

func N(name string) *Ty       { return &Ty{Kind: tyName, Name: name} }
func Arr(e *Ty) *Ty           { return &Ty{Kind: tyArray, Elem: e} }
func Post(e *Ty) *Ty          { return &Ty{Kind: tyPostfix, Elem: e} }
func Map(k string, v *Ty) *Ty { return &Ty{Kind: tyMap, Key: N(k), Elem: v} }

func (t *Ty) String() string {
	switch t.Kind {
	case tyArray:
		return "array[" + t.Elem.String() + "]"
	case tyPostfix:
		return t.Elem.String() + "[]"
	case tyMap:
		return "map[" + t.Key.String() + ", " + t.Elem.String() + "]"
	}
	return t.Name
}

func (t *Ty) clone() *Ty {
	if t == nil {
		return nil
	}
	return &Ty{Kind: t.Kind, Name: t.Name, Key: t.Key.clone(), Elem: t.Elem.clone()}
}

// walkLeaves visits every named-type leaf of t; pos describes the path from the field type down to the leaf.
func walkLeaves(t *Ty, path []string, f func(leaf *Ty, pos string)) {
	switch t.Kind {
	case tyName:
		p := "plain"
		if len(path) > 0 {
			p = strings.Join(path, "/")
		}
		f(t, p)
	case tyArray:
		walkLeaves(t.Elem, append(path[:len(path):len(path)], "array-elem"), f)
	case tyPostfix:
		walkLeaves(t.Elem, append(path[:len(path):len(path)], "postfix-array-elem"), f)
	case tyMap:
		f(t.Key, strings.Join(append(path[:len(path):len(path)], "map-key"), "/"))
		walkLeaves(t.Elem, append(path[:len(path):len(path)], "map-value"), f)
	}
}

type Field struct {
	Index string // textual message index, "" in structs
	Type  *Ty
	Name  string
	Dep   bool // the field carries [deprecated("old")]
}

const (
	kStruct   = "struct"
	kROStruct = "readonly-struct"
	kMessage  = "message"
)

type Record struct {
	Kind   string
	Name   string
	Opcode string // textual argument of [opcode(...)], "" if none
	Fields []*Field
}

type Branch struct {
	Disc string
	Rec  *Record // Kind is kStruct or kMessage
}

type Union struct {
	Name     string
	Opcode   string
	Branches []*Branch
}

// Expr is an enum option value: a literal, a reference to an earlier option, a binary operation or parentheses.
type Expr struct {
	Op   string // "lit", "ref", "par", "|", "&", "<<", ">>"
	Text string // literal text or referenced name
	L, R *Expr
}

func Lit(text string) *Expr           { return &Expr{Op: "lit", Text: text} }
func Ref(name string) *Expr           { return &Expr{Op: "ref", Text: name} }
func Par(e *Expr) *Expr               { return &Expr{Op: "par", L: e} }
func Bin(op string, l, r *Expr) *Expr { return &Expr{Op: op, L: l, R: r} }

func (e *Expr) String() string {
	switch e.Op {
	case "lit", "ref":
		return e.Text
	case "par":
		return "(" + e.L.String() + ")"
	}
	return e.L.String() + " " + e.Op + " " + e.R.String()
}

// compact is the expression without blanks (used in signatures).
func (e *Expr) compact() string { return strings.ReplaceAll(e.String(), " ", "") }

func (e *Expr) clone() *Expr {
	if e == nil {
		return nil
	}
	return &Expr{Op: e.Op, Text: e.Text, L: e.L.clone(), R: e.R.clone()}
}

type Opt struct {
	Name string
	Val  *Expr
}

type Enum struct {
	Name  string
	Base  string // "" = default (uint32)
	Flags bool
	Opts  []*Opt
}

func (e *Enum) baseName() string {
	if e.Base == "" {
		return "default"
	}
	return e.Base
}

func (e *Enum) effBase() string {
	if e.Base == "" {
		return "uint32"
	}
	return e.Base
}

type Const struct {
	Type, Name, Lit string
}

type Def struct {
	Rec *Record
	Un  *Union
	En  *Enum
	Co  *Const
}

type Schema struct {
	Name string
	Defs []*Def
}

func (r *Record) clone() *Record {
	c := &Record{Kind: r.Kind, Name: r.Name, Opcode: r.Opcode}
	for _, f := range r.Fields {
		c.Fields = append(c.Fields, &Field{Index: f.Index, Type: f.Type.clone(), Name: f.Name, Dep: f.Dep})
	}
	return c
}

func (s *Schema) clone() *Schema {
	c := &Schema{Name: s.Name}
	for _, d := range s.Defs {
		nd := &Def{}
		switch {
		case d.Rec != nil:
			nd.Rec = d.Rec.clone()
		case d.Un != nil:
			u := &Union{Name: d.Un.Name, Opcode: d.Un.Opcode}
			for _, b := range d.Un.Branches {
				u.Branches = append(u.Branches, &Branch{Disc: b.Disc, Rec: b.Rec.clone()})
			}
			nd.Un = u
		case d.En != nil:
			e := &Enum{Name: d.En.Name, Base: d.En.Base, Flags: d.En.Flags}
			for _, o := range d.En.Opts {
				e.Opts = append(e.Opts, &Opt{Name: o.Name, Val: o.Val.clone()})
			}
			nd.En = e
		case d.Co != nil:
			cc := *d.Co
			nd.Co = &cc
		}
		c.Defs = append(c.Defs, nd)
	}
	return c
}

func renderRecord(b *strings.Builder, r *Record, indent string) {
	kw := "struct"
	switch r.Kind {
	case kROStruct:
		kw = "readonly struct"
	case kMessage:
		kw = "message"
	}
	fmt.Fprintf(b, "%s %s {\n", kw, r.Name)
	for _, f := range r.Fields {
		if f.Dep {
			fmt.Fprintf(b, "%s    [deprecated(\"old\")]\n", indent)
		}
		if r.Kind == kMessage {
			fmt.Fprintf(b, "%s    %s -> %s %s;\n", indent, f.Index, f.Type, f.Name)
		} else {
			fmt.Fprintf(b, "%s    %s %s;\n", indent, f.Type, f.Name)
		}
	}
	fmt.Fprintf(b, "%s}\n", indent)
}

func (s *Schema) Render() string {
	var b strings.Builder
	for i, d := range s.Defs {
		if i > 0 {
			b.WriteString("\n")
		}
		switch {
		case d.Rec != nil:
			if d.Rec.Opcode != "" {
				fmt.Fprintf(&b, "[opcode(%s)]\n", d.Rec.Opcode)
			}
			renderRecord(&b, d.Rec, "")
		case d.Un != nil:
			if d.Un.Opcode != "" {
				fmt.Fprintf(&b, "[opcode(%s)]\n", d.Un.Opcode)
			}
			fmt.Fprintf(&b, "union %s {\n", d.Un.Name)
			for _, br := range d.Un.Branches {
				fmt.Fprintf(&b, "    %s -> ", br.Disc)
				renderRecord(&b, br.Rec, "    ")
			}
			b.WriteString("}\n")
		case d.En != nil:
			if d.En.Flags {
				b.WriteString("[flags]\n")
			}
			if d.En.Base != "" {
				fmt.Fprintf(&b, "enum %s : %s {\n", d.En.Name, d.En.Base)
			} else {
				fmt.Fprintf(&b, "enum %s {\n", d.En.Name)
			}
			for _, o := range d.En.Opts {
				fmt.Fprintf(&b, "    %s = %s;\n", o.Name, o.Val)
			}
			b.WriteString("}\n")
		case d.Co != nil:
			fmt.Fprintf(&b, "const %s %s = %s;\n", d.Co.Type, d.Co.Name, d.Co.Lit)
		}
	}
	return b.String()
}

// ---- site walkers ----------------------------------------------------------------------------------

// recSite is one record (top level or union branch) with the kind name used in signatures.
type recSite struct {
	Rec   *Record
	Kind  string // struct | readonly-struct | message | union-branch-struct | union-branch-message
	Owner *Union // enclosing union for branches
}

func (s *Schema) records() []recSite {
	var out []recSite
	for _, d := range s.Defs {
		if d.Rec != nil {
			out = append(out, recSite{Rec: d.Rec, Kind: d.Rec.Kind})
		}
		if d.Un != nil {
			for _, b := range d.Un.Branches {
				out = append(out, recSite{Rec: b.Rec, Kind: "union-branch-" + b.Rec.Kind, Owner: d.Un})
			}
		}
	}
	return out
}

// named is one thing that carries a definition name.
type named struct {
	Kind  string // enum | flags-enum | struct | readonly-struct | message | union | const | union-branch-struct | union-branch-message
	Name  *string
	Owner *Union // for union branches
	Self  *Union // for unions
}

func (s *Schema) namedDefs() []named {
	var out []named
	for _, d := range s.Defs {
		switch {
		case d.Rec != nil:
			out = append(out, named{Kind: d.Rec.Kind, Name: &d.Rec.Name})
		case d.Un != nil:
			out = append(out, named{Kind: "union", Name: &d.Un.Name, Self: d.Un})
			for _, b := range d.Un.Branches {
				out = append(out, named{Kind: "union-branch-" + b.Rec.Kind, Name: &b.Rec.Name, Owner: d.Un})
			}
		case d.En != nil:
			k := "enum"
			if d.En.Flags {
				k = "flags-enum"
			}
			out = append(out, named{Kind: k, Name: &d.En.Name})
		case d.Co != nil:
			out = append(out, named{Kind: "const", Name: &d.Co.Name})
		}
	}
	return out
}

// typeSite is one named-type leaf inside a field type.
type typeSite struct {
	Leaf      *Ty
	Container string // record kind
	Pos       string
	Where     string // Record.field, for humans
}

func (s *Schema) typeSites() []typeSite {
	var out []typeSite
	for _, r := range s.records() {
		for _, f := range r.Rec.Fields {
			r, f := r, f
			walkLeaves(f.Type, nil, func(leaf *Ty, pos string) {
				out = append(out, typeSite{Leaf: leaf, Container: r.Kind, Pos: pos, Where: r.Rec.Name + "." + f.Name + " : " + f.Type.String() + map[bool]string{true: " [deprecated]", false: ""}[f.Dep]})
			})
		}
	}
	return out
}

// renameRefs retargets every field-type reference from old to new.
func (s *Schema) renameRefs(old, nw string) {
	for _, ts := range s.typeSites() {
		if ts.Leaf.Name == old {
			ts.Leaf.Name = nw
		}
	}
}

func (s *Schema) definedNames() map[string]bool {
	m := map[string]bool{}
	for _, n := range s.namedDefs() {
		m[*n.Name] = true
	}
	return m
}

// kindOrder puts the union-branch kinds first so that one prefix pattern covers "anything involving a branch".
var kindOrder = map[string]int{"union-branch-message": 0, "union-branch-struct": 1, "const": 2, "enum": 3, "flags-enum": 4,
	"message": 5, "readonly-struct": 6, "struct": 7, "union": 8}

func kindPair(a, b string) string {
	if kindOrder[a] > kindOrder[b] {
		a, b = b, a
	}
	return a + "~" + b
}
