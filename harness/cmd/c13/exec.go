package main

// Execution of one schema text on the real code: ReadFile, Validate, Generate - with panic recovery and a watchdog.

import (
	"bytes"
	"fmt"
	"os"
	"path/filepath"
	"runtime/debug"
	"strings"
	"sync/atomic"
	"time"

	"github.com/200sc/bebop"
)

var watchdog = 20 * time.Second

var transitions atomic.Int64 // ReadFile / Validate / Generate calls executed
var executed atomic.Int64    // cases executed on the real code

// outcome of one schema on the implementation.
type outcome struct {
	Stage    string // "ReadFile", "Validate", "Generate" (where the error came from), "" when accepted
	Err      string
	Panic    string
	Hung     bool
	Warnings []string
}

func (o outcome) rejected() bool { return o.Err != "" }
func (o outcome) accepted() bool { return o.Err == "" && o.Panic == "" && !o.Hung }

func (o outcome) String() string {
	switch {
	case o.Hung:
		return fmt.Sprintf("did not return within %v (abandoned in %s)", watchdog, o.Stage)
	case o.Panic != "":
		return "panicked in " + o.Stage + ": " + o.Panic
	case o.Err != "":
		return "rejected by " + o.Stage + ": " + o.Err
	}
	if len(o.Warnings) > 0 {
		return "ACCEPTED (ReadFile ok with warnings " + fmt.Sprintf("%q", o.Warnings) + ", Generate ok)"
	}
	return "ACCEPTED (ReadFile ok, Generate ok)"
}

// runSchema runs text through ReadFile and Generate (withValidate: also File.Validate on its own, between the two).
func runSchema(text string, withValidate bool) outcome {
	done := make(chan outcome, 1)
	var stage atomic.Value
	stage.Store("ReadFile")
	go func() {
		var o outcome
		defer func() {
			if r := recover(); r != nil {
				o.Stage = stage.Load().(string)
				o.Panic = fmt.Sprint(r) + " @ " + firstRepoFrame(string(debug.Stack()))
				o.Err = ""
			}
			done <- o
		}()
		transitions.Add(1)
		settings := bebop.GenerateSettings{PackageName: "p"}
		rootText, rootPath, cleanup := materialise(text)
		defer cleanup()
		f, warns, err := bebop.ReadFile(strings.NewReader(rootText))
		o.Warnings = warns
		if err != nil {
			o.Stage, o.Err = "ReadFile", err.Error()
			return
		}
		if rootPath != "" {
			// a schema spread over several files: the root imports the others, generated in combined mode
			f.FileName = rootPath
			settings.ImportGenerationMode = bebop.ImportGenerationModeCombined
			withValidate = false // Validate on the root alone knows nothing of the imported definitions
		}
		if withValidate {
			stage.Store("Validate")
			transitions.Add(1)
			if err := f.Validate(); err != nil {
				o.Stage, o.Err = "Validate", err.Error()
				return
			}
		}
		stage.Store("Generate")
		transitions.Add(1)
		var buf bytes.Buffer
		if err := f.Generate(&buf, settings); err != nil {
			o.Stage, o.Err = "Generate", err.Error()
			return
		}
	}()
	t := time.NewTimer(watchdog)
	defer t.Stop()
	executed.Add(1)
	select {
	case o := <-done:
		return o
	case <-t.C:
		// the goroutine is abandoned; it dies with the process
		return outcome{Hung: true, Stage: stage.Load().(string)}
	}
}

// fileMarker starts a new file inside a multi-file schema text: "//--- file: sub/common.bop". The first file is the root.
const fileMarker = "//--- file: "

// materialise writes a multi-file schema into a scratch directory and returns the root's text and path; single-file texts
// are returned unchanged with an empty path.
func materialise(text string) (rootText, rootPath string, cleanup func()) {
	if !strings.HasPrefix(text, fileMarker) {
		return text, "", func() {}
	}
	dir, err := os.MkdirTemp("", "c13-files-")
	if err != nil {
		panic(err)
	}
	var names []string
	files := map[string]string{}
	for _, part := range strings.Split(text, fileMarker)[1:] {
		nl := strings.Index(part, "\n")
		name := strings.TrimSpace(part[:nl])
		names = append(names, name)
		files[name] = part[nl+1:]
	}
	for n, t := range files {
		p := filepath.Join(dir, n)
		os.MkdirAll(filepath.Dir(p), 0o755)
		if err := os.WriteFile(p, []byte(t), 0o644); err != nil {
			panic(err)
		}
	}
	return files[names[0]], filepath.Join(dir, names[0]), func() { os.RemoveAll(dir) }
}

// firstRepoFrame names the innermost function of package bebop on a panic stack (no line numbers: stable signatures).
func firstRepoFrame(stack string) string {
	for _, ln := range strings.Split(stack, "\n") {
		ln = strings.TrimSpace(ln)
		if strings.HasPrefix(ln, "github.com/200sc/bebop.") {
			if i := strings.Index(ln, "("); i > 0 {
				ln = ln[:i]
			}
			return strings.TrimPrefix(ln, "github.com/200sc/bebop.")
		}
	}
	return "?"
}
