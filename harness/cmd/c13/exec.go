package main

// Execution of one schema text on the real code: ReadFile, Validate, Generate - with panic recovery and a watchdog.

import (
	"bytes"
	"fmt"
	"runtime/debug"
	"strings"
	"sync/atomic"
	"time"

	"github.com/200sc/bebop"
)

var watchdog = 20 * time.Second

var transitions atomic.Int64 // ReadFile / Validate / Generate calls executed
var executed atomic.Int64    // cases executed on the real code

// outcome of one schema on the implementation.
type outcome struct {
	Stage    string // "ReadFile", "Validate", "Generate" (where the error came from), "" when accepted
	Err      string
	Panic    string
	Hung     bool
	Warnings []string
}

func (o outcome) rejected() bool { return o.Err != "" }
func (o outcome) accepted() bool { return o.Err == "" && o.Panic == "" && !o.Hung }

func (o outcome) String() string {
	switch {
	case o.Hung:
		return fmt.Sprintf("did not return within %v (abandoned in %s)", watchdog, o.Stage)
	case o.Panic != "":
		return "panicked in " + o.Stage + ": " + o.Panic
	case o.Err != "":
		return "rejected by " + o.Stage + ": " + o.Err
	}
	if len(o.Warnings) > 0 {
		return "ACCEPTED (ReadFile ok with warnings " + fmt.Sprintf("%q", o.Warnings) + ", Generate ok)"
	}
	return "ACCEPTED (ReadFile ok, Generate ok)"
}

// runSchema runs text through ReadFile and Generate (withValidate: also File.Validate on its own, between the two).
func runSchema(text string, withValidate bool) outcome {
	done := make(chan outcome, 1)
	var stage atomic.Value
	stage.Store("ReadFile")
	go func() {
		var o outcome
		defer func() {
			if r := recover(); r != nil {
				o.Stage = stage.Load().(string)
				o.Panic = fmt.Sprint(r) + " @ " + firstRepoFrame(string(debug.Stack()))
				o.Err = ""
			}
			done <- o
		}()
		transitions.Add(1)
		f, warns, err := bebop.ReadFile(strings.NewReader(text))
		o.Warnings = warns
		if err != nil {
			o.Stage, o.Err = "ReadFile", err.Error()
			return
		}
		if withValidate {
			stage.Store("Validate")
			transitions.Add(1)
			if err := f.Validate(); err != nil {
				o.Stage, o.Err = "Validate", err.Error()
				return
			}
		}
		stage.Store("Generate")
		transitions.Add(1)
		var buf bytes.Buffer
		if err := f.Generate(&buf, bebop.GenerateSettings{PackageName: "p"}); err != nil {
			o.Stage, o.Err = "Generate", err.Error()
			return
		}
	}()
	t := time.NewTimer(watchdog)
	defer t.Stop()
	executed.Add(1)
	select {
	case o := <-done:
		return o
	case <-t.C:
		// the goroutine is abandoned; it dies with the process
		return outcome{Hung: true, Stage: stage.Load().(string)}
	}
}

// firstRepoFrame names the innermost function of package bebop on a panic stack (no line numbers: stable signatures).
func firstRepoFrame(stack string) string {
	for _, ln := range strings.Split(stack, "\n") {
		ln = strings.TrimSpace(ln)
		if strings.HasPrefix(ln, "github.com/200sc/bebop.") {
			if i := strings.Index(ln, "("); i > 0 {
				ln = ln[:i]
			}
			return strings.TrimPrefix(ln, "github.com/200sc/bebop.")
		}
	}
	return "?"
}
