package main

// Validation of the in-process checker against the implementation it stands for: a stratified
// subset of passing (schema, options) pairs and one representative of every failing signature are
// re-generated, written as packages of scratch modules (replace github.com/200sc/bebop => the
// repository under test) and judged by the real `go build` (and `go vet` for the passing ones).
// compiles <=> type-checks must hold for every pair; a disagreement is a harness error.

import (
	"bytes"
	"fmt"
	"os"
	"os/exec"
	"path/filepath"
	"regexp"
	"sort"
	"strings"
	"sync"
	"time"

	"verif/driver"
	"verif/vlib"
)

type sample struct {
	it       *item
	mask     int
	expectOK bool
	sig      string

	tcOK    bool
	dirs    []string // package directories (relative to the module root) that belong to this sample
	mod     *xmodule
	buildOK bool
	buildEr []string
}

type xmodule struct {
	name    string
	dir     string
	samples []*sample
	byDir   map[string]*sample
	vet     bool
}

type crossResult struct {
	Root          string
	Checked       int
	Agreed        int
	PassChecked   int
	PassTotal     int
	FailChecked   int
	Modules       int
	BuildSeconds  float64
	VetSeconds    float64
	VetPackages   int
	VetKinds      map[string]int
	Disagreements []string
}

const passStride = 45 // 45 mod 32 = 13, coprime with 32: consecutive picks walk through all option sets; 1/45 = 2.2 %

func goEnv() []string {
	env := os.Environ()
	set := func(k, v string) {
		for i, kv := range env {
			if strings.HasPrefix(kv, k+"=") {
				env[i] = k + "=" + v
				return
			}
		}
		env = append(env, k+"="+v)
	}
	set("GOFLAGS", "-mod=mod")
	set("GOPROXY", "off")
	set("GOSUMDB", "off")
	set("GOTOOLCHAIN", "local")
	set("GOWORK", "off")
	if os.Getenv("GOCACHE") == "" {
		c := filepath.Join(vlib.VerifDir(), ".cache", "gocache")
		_ = os.MkdirAll(c, 0o755)
		set("GOCACHE", c)
	}
	return env
}

func (m *xmodule) write() {
	if err := os.MkdirAll(m.dir, 0o755); err != nil {
		vlib.Fatal("scratch: %v", err)
	}
	gomod := fmt.Sprintf("module %s\n\ngo 1.21\n\nrequire github.com/200sc/bebop v0.0.0\n\nreplace github.com/200sc/bebop => %s\n", impRoot, vlib.RepoDir())
	if err := os.WriteFile(filepath.Join(m.dir, "go.mod"), []byte(gomod), 0o644); err != nil {
		vlib.Fatal("scratch: %v", err)
	}
}

func (m *xmodule) addPkg(s *sample, rel string, src []byte) {
	d := filepath.Join(m.dir, filepath.FromSlash(rel))
	if err := os.MkdirAll(d, 0o755); err != nil {
		vlib.Fatal("scratch: %v", err)
	}
	if err := os.WriteFile(filepath.Join(d, "gen.go"), src, 0o644); err != nil {
		vlib.Fatal("scratch: %v", err)
	}
	s.dirs = append(s.dirs, rel)
	m.byDir[rel] = s
}

var errLineRe = regexp.MustCompile(`^(?:\./)?([^\s:]+)/gen\.go:(\d+)(?::\d+)?: (.*)$`)
var genPathRe = regexp.MustCompile(`([^\s:"]*)gen\.go`)

// dirOf finds the package directory a diagnostic line talks about ("" if none of this module's).
func (m *xmodule) dirOf(l, cur string) string {
	for _, mm := range genPathRe.FindAllStringSubmatch(l, -1) {
		d := strings.TrimSuffix(mm[1], "/")
		d = strings.TrimPrefix(d, m.dir+"/")
		d = strings.TrimPrefix(d, "./")
		if d == "" || d == "." {
			d = cur
		}
		if _, ok := m.byDir[d]; ok {
			return d
		}
	}
	return ""
}

// runGo runs a go command in the module and attributes its diagnostics to package directories.
func (m *xmodule) runGo(args ...string) (byDir map[string][]string, headers int, unattributed []string, failed bool) {
	cmd := exec.Command("go", args...)
	cmd.Dir = m.dir
	cmd.Env = goEnv()
	var out bytes.Buffer
	cmd.Stdout = &out
	cmd.Stderr = &out
	err := cmd.Run()
	if err != nil {
		if _, ok := err.(*exec.ExitError); !ok {
			vlib.Fatal("cannot run go %s: %v", strings.Join(args, " "), err)
		}
		failed = true
	}
	byDir = map[string][]string{}
	cur := ""
	for _, l := range strings.Split(out.String(), "\n") {
		l = strings.TrimRight(l, "\r")
		if strings.TrimSpace(l) == "" {
			continue
		}
		if strings.HasPrefix(l, "# ") {
			headers++
			p := strings.Fields(l[2:])[0]
			p = strings.Trim(p, "[]")
			cur = strings.TrimPrefix(strings.TrimPrefix(p, impRoot), "/")
			continue
		}
		if d := m.dirOf(l, cur); d != "" {
			byDir[d] = append(byDir[d], l)
			continue
		}
		if strings.HasPrefix(l, "\t") || strings.HasPrefix(l, "    ") {
			// continuation of the previous diagnostic
			if cur != "" {
				byDir[cur] = append(byDir[cur], l)
			}
			continue
		}
		if strings.HasPrefix(l, "go: ") && (strings.Contains(l, "finding module") || strings.Contains(l, "found ") || strings.Contains(l, "downloading")) {
			continue
		}
		if cur != "" {
			if _, ok := m.byDir[cur]; ok {
				// a diagnostic without a file position below a "# package" header (e.g. from the linker)
				byDir[cur] = append(byDir[cur], l)
				continue
			}
		}
		if l == "too many errors" || strings.HasPrefix(l, "note: ") {
			continue
		}
		unattributed = append(unattributed, l)
	}
	return
}

func onlyMissingMain(lines []string) bool {
	if len(lines) == 0 {
		return false
	}
	for _, l := range lines {
		if !strings.Contains(l, "function main is undeclared in the main package") {
			return false
		}
	}
	return true
}

func (m *xmodule) build() {
	failedDirs := map[string][]string{}
	for iter := 0; ; iter++ {
		byDir, headers, unattr, failed := m.runGo("build", "./...")
		if !failed {
			break
		}
		if headers == 0 {
			// load-stage errors (bad package clause / import block): go build stops before compiling anything.
			// Record those packages as failed, take them out and build the rest.
			if len(byDir) == 0 || iter > 50 {
				vlib.Fatal("go build in %s failed without attributable diagnostics:\n%s", m.dir, strings.Join(unattr, "\n"))
			}
			for d, ls := range byDir {
				failedDirs[d] = append(failedDirs[d], ls...)
				_ = os.Rename(filepath.Join(m.dir, filepath.FromSlash(d), "gen.go"), filepath.Join(m.dir, filepath.FromSlash(d), "gen.go.loaderror"))
			}
			continue
		}
		if len(unattr) > 0 {
			vlib.Fatal("go build in %s printed diagnostics that belong to no package:\n%s", m.dir, strings.Join(unattr, "\n"))
		}
		for d, ls := range byDir {
			failedDirs[d] = append(failedDirs[d], ls...)
		}
		break
	}
	for _, s := range m.samples {
		s.buildOK = true
		for _, d := range s.dirs {
			if ls, ok := failedDirs[d]; ok && !onlyMissingMain(ls) {
				s.buildOK = false
				s.buildEr = append(s.buildEr, ls...)
			}
		}
	}
	// a package that imports a failed package of the same sample is not reported separately; nothing to do
}

var identRe = regexp.MustCompile(`[A-Za-z_][A-Za-z0-9_.]*\.[A-Za-z0-9_.]+|"[^"]*"|` + "`[^`]*`" + `|\b[0-9]+\b`)

func (e *env) crossCheck(items []*item, fails []sample, thorough bool) *crossResult {
	r := &crossResult{Root: filepath.Join(e.work, "x"), VetKinds: map[string]int{}}
	var samples []*sample
	// stratified selection of passing pairs: per alphabet part, the first and every passStride-th passing pair
	perPart := map[string]int{}
	for _, it := range items {
		for m := 0; m < allMasks; m++ {
			o := e.results[it.idx][m]
			if !o.Done || !o.OK {
				continue
			}
			r.PassTotal++
			n := perPart[it.Part]
			perPart[it.Part]++
			if n%passStride == 0 {
				samples = append(samples, &sample{it: it, mask: m, expectOK: true})
			}
		}
	}
	for i := range fails {
		f := fails[i]
		samples = append(samples, &f)
	}
	// layout
	newMod := func(name string, vet bool) *xmodule {
		m := &xmodule{name: name, dir: filepath.Join(r.Root, name), byDir: map[string]*sample{}, vet: vet}
		m.write()
		return m
	}
	pass, fail := newMod("pass", true), newMod("fail", false)
	mods := []*xmodule{pass, fail}
	nImp := 0
	var mu sync.Mutex
	var nondet []string
	// regenerate in parallel (import items serialise themselves), then write sequentially
	type gen struct {
		o    outcome
		srcs []pkgSrc
	}
	gens := make([]gen, len(samples))
	vlib.ParallelFor(len(samples), func(i int) {
		s := samples[i]
		o, srcs := e.judge(s.it, s.mask, true)
		gens[i] = gen{o, srcs}
		prev := e.results[s.it.idx][s.mask]
		if o.key() != prev.key() {
			mu.Lock()
			nondet = append(nondet, fmt.Sprintf("%s [%s] options %s: first verdict %s, second verdict %s", s.it.sigPrefix(), s.it.Note, driver.OptName(s.mask), prev.key(), o.key()))
			mu.Unlock()
		}
	})
	if len(nondet) > 0 {
		sort.Strings(nondet)
		vlib.Fatal("generation is not deterministic, the same (schema, options) pair was judged differently twice:\n%s", strings.Join(nondet, "\n"))
	}
	for i, s := range samples {
		g := gens[i]
		s.tcOK = g.o.OK
		if s.it.Files != nil && s.it.Mode == 0 && len(s.it.Deps) > 0 {
			nImp++
			m := newMod(fmt.Sprintf("imp%d", nImp), s.expectOK)
			mods = append(mods, m)
			s.mod = m
			m.samples = append(m.samples, s)
			for _, ps := range g.srcs {
				if ps.ImportPath != "" {
					m.addPkg(s, strings.TrimPrefix(ps.ImportPath, impRoot+"/"), ps.Src)
				} else {
					m.addPkg(s, "zmain", ps.Src)
				}
			}
			continue
		}
		m, pfx := pass, "p"
		if !s.expectOK {
			m, pfx = fail, "f"
		}
		s.mod = m
		m.samples = append(m.samples, s)
		m.addPkg(s, fmt.Sprintf("%s%d", pfx, len(m.samples)), g.srcs[len(g.srcs)-1].Src)
	}
	r.Modules = len(mods)
	// build: the two large modules run concurrently with the small import modules (at most 4 go commands at a time)
	t0 := time.Now()
	sem := make(chan struct{}, 4)
	var wg sync.WaitGroup
	for _, m := range mods {
		if len(m.samples) == 0 {
			continue
		}
		wg.Add(1)
		go func(m *xmodule) {
			defer wg.Done()
			sem <- struct{}{}
			m.build()
			<-sem
		}(m)
	}
	wg.Wait()
	r.BuildSeconds = time.Since(t0).Seconds()
	for _, s := range samples {
		r.Checked++
		if s.expectOK {
			r.PassChecked++
		} else {
			r.FailChecked++
		}
		if s.buildOK == s.tcOK {
			r.Agreed++
			continue
		}
		d := fmt.Sprintf("DISAGREE %s [%s] options %s: go/types says ok=%v, go build says ok=%v (module %s, packages %v)", s.it.sigPrefix(), s.it.Note, driver.OptName(s.mask), s.tcOK, s.buildOK, s.mod.dir, s.dirs)
		if len(s.buildEr) > 0 {
			d += "\n    go build: " + strings.Join(s.buildEr, "\n    go build: ")
		}
		if !s.tcOK {
			d += "\n    go/types: " + strings.Join(gensErr(e, s), " ; ")
		}
		r.Disagreements = append(r.Disagreements, d)
	}
	if len(r.Disagreements) > 0 {
		return r
	}
	// vet (informational): only modules whose samples all build
	t1 := time.Now()
	for _, m := range mods {
		if !m.vet || len(m.samples) == 0 {
			continue
		}
		wg.Add(1)
		go func(m *xmodule) {
			defer wg.Done()
			sem <- struct{}{}
			byDir, _, _, _ := m.runGo("vet", "./...")
			<-sem
			mu.Lock()
			for _, ls := range byDir {
				r.VetPackages++
				seen := map[string]bool{}
				for _, l := range ls {
					if mm := errLineRe.FindStringSubmatch(l); mm != nil {
						k := identRe.ReplaceAllString(mm[3], "_")
						if !seen[k] {
							seen[k] = true
							r.VetKinds[vlib.Short(k, 120)]++
						}
					}
				}
			}
			mu.Unlock()
		}(m)
	}
	wg.Wait()
	r.VetSeconds = time.Since(t1).Seconds()
	return r
}

func gensErr(e *env, s *sample) []string {
	o := e.results[s.it.idx][s.mask]
	return o.Errs
}
