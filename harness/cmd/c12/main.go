package main

import (
	"fmt"
	"sync/atomic"
	"time"

	"verif/fe"
	"verif/schema"
	"verif/tc"
	"verif/vlib"
)

func main() {
	chk, err := tc.New(vlib.RepoDir())
	if err != nil {
		vlib.Fatal("%v", err)
	}
	for _, th := range []bool{false, true} {
		sup := schema.NewSupport()
		cases := sup.Cases(th)
		fmt.Println("cases", len(cases))
		t0 := time.Now()
		var fail, rej int64
		cats := vlib.NewCounter()
		vlib.ParallelFor(len(cases), func(i int) {
			c := cases[i]
			text := sup.BatchSchema([]*schema.Case{c}).Render()
			for _, m := range []int{0, 31} {
				src, _, err := fe.Gen(text, m, "p")
				if err != nil {
					atomic.AddInt64(&rej, 1)
					continue
				}
				res := chk.Check("gen.go", src)
				if !res.OK() {
					atomic.AddInt64(&fail, 1)
					if res.ParseErr != nil {
						cats.Add("syntax")
					} else {
						cats.Add(tc.Category(res.Errs[0]))
					}
				}
			}
		})
		fmt.Println(time.Since(t0), fail, rej, cats.Top(10))
	}
}
