// C12 — whatever the compiler accepts, it turns into Go code that compiles.
//
// Bounded-exhaustive enumeration of schemas x generator option sets. Every (schema, options) pair
// that ReadFile+Generate accept is judged in-process by go/parser + go/types against bebop and
// iohelp type-checked from the working tree (verif/tc). A stratified subset of the verdicts is
// re-judged by the real toolchain (go build / go vet) and must agree.
package main

import (
	"bytes"
	"crypto/sha256"
	"encoding/json"
	"flag"
	"fmt"
	"go/ast"
	"go/parser"
	"go/scanner"
	"go/token"
	"go/types"
	"os"
	"path/filepath"
	"regexp"
	"runtime/debug"
	"runtime/pprof"
	"sort"
	"strings"
	"sync"
	"sync/atomic"
	"time"

	"github.com/200sc/bebop"
	"verif/driver"
	"verif/fe"
	"verif/tc"
	"verif/vlib"
)

const allMasks = 32

var quickMasks = []int{0, 31, 9, 18}

type pkgSrc struct {
	ImportPath string // "" = the entry file's package
	File       string // schema file it was generated from
	Src        []byte
}

type outcome struct {
	Done     bool
	Rejected bool
	Phase    string
	RejMsg   string
	OK       bool
	Cat      string   // category of the first error in source order
	Where    string   // enclosing generated function / file of that error (messages only)
	Errs     []string // first errors, "line:col: text"
	NErrs    int
}

func (o *outcome) key() string {
	switch {
	case o.Rejected:
		return "rejected"
	case o.OK:
		return "ok"
	}
	return "fail:" + o.Cat
}

type env struct {
	chk     *tc.Checker
	work    string
	impMu   sync.Mutex
	gens    int64
	checks  int64
	results [][]outcome
}

// genPath runs ReadFile+Generate on a schema file on disk (needed for imports: Generate resolves them
// relative to File.FileName).
func genPath(path string, mask int, pkg string, mode int) (out []byte, phase string, err error) {
	defer func() {
		if r := recover(); r != nil {
			phase, err = "panic", fmt.Errorf("panic: %v", r)
		}
	}()
	fh, err := os.Open(path)
	if err != nil {
		vlib.Fatal("cannot open materialised schema %s: %v", path, err)
	}
	defer fh.Close()
	f, _, err := bebop.ReadFile(fh)
	if err != nil {
		return nil, "readfile", err
	}
	var buf bytes.Buffer
	st := driver.Settings(mask)
	st.PackageName = pkg
	st.ImportGenerationMode = bebop.ImportGenerationMode(mode)
	if err := f.Generate(&buf, st); err != nil {
		return nil, "generate", err
	}
	return buf.Bytes(), "", nil
}

func (e *env) materialise(it *item) {
	if it.Files == nil || it.dir != "" {
		return
	}
	it.dir = filepath.Join(e.work, fmt.Sprintf("i%d", it.idx))
	write := func(name, text string) {
		p := filepath.Join(it.dir, filepath.FromSlash(name))
		if err := os.MkdirAll(filepath.Dir(p), 0o755); err != nil {
			vlib.Fatal("scratch: %v", err)
		}
		if err := os.WriteFile(p, []byte(text), 0o644); err != nil {
			vlib.Fatal("scratch: %v", err)
		}
	}
	write("main.bop", it.Text)
	for n, t := range it.Files {
		write(n, t)
	}
}

var funcRe = regexp.MustCompile(`^func (?:\([a-z]+ \*?[^)]*\) )?([A-Za-z0-9_]+)`)

// whereIs names the generated function that contains line (messages only; never part of a signature).
func whereIs(src []byte, line int) string {
	lines := bytes.Split(src, []byte("\n"))
	if line > len(lines) {
		line = len(lines)
	}
	for i := line - 1; i >= 0; i-- {
		l := lines[i]
		if bytes.HasPrefix(l, []byte("func ")) {
			if m := funcRe.FindSubmatch(l); m != nil {
				// strip the record name from MakeX / NewX etc.: only the method names are stable API
				return "in func " + string(m[1])
			}
			return "in a func"
		}
		if i < line-1 && len(l) > 0 && l[0] == '}' {
			break
		}
	}
	return "at package level"
}

// Compiler directives. go/types does not look at comments, but the gc compiler does: a `//go:<verb>` line comment
// with a verb it knows must sit directly before the declaration it applies to (a func, for go:embed a var, for
// go:build the top of the file); anywhere else it is the error "misplaced compiler directive" (cmd/compile/internal/
// noder: pragma, checkUnused). The generator copies schema comments in front of type declarations, struct fields and
// const specs only, never in front of a func or var, so every such directive in generated code is misplaced. This part
// of the model was added after the go build cross-check disagreed with go/types on exactly these inputs.
var misplacedVerbs = map[string]bool{
	"go:build": true, "go:noescape": true, "go:norace": true, "go:nosplit": true, "go:noinline": true, "go:nocheckptr": true,
	"go:uintptrescapes": true, "go:uintptrkeepalive": true, "go:registerparams": true, "go:cgo_unsafe_args": true,
	"go:systemstack": true, "go:nowritebarrier": true, "go:nowritebarrierrec": true, "go:yeswritebarrierrec": true,
	"go:embed": true, "go:linkname": true,
}

func directiveErrors(src []byte) []string {
	if !bytes.Contains(src, []byte("//go:")) {
		return nil
	}
	var out []string
	for i, l := range bytes.Split(src, []byte("\n")) {
		t := bytes.TrimLeft(l, " \t")
		if !bytes.HasPrefix(t, []byte("//go:")) {
			continue
		}
		text := strings.TrimRight(string(t[2:]), "\r")
		verb := text
		if j := strings.Index(text, " "); j >= 0 {
			verb = text[:j]
		}
		bad := misplacedVerbs[verb]
		if strings.HasPrefix(text, "go:cgo_") {
			// only cgo_import_dynamic with at least 3 arguments is tolerated outside cgo-generated files
			bad = !(strings.HasPrefix(text, "go:cgo_import_dynamic ") && len(strings.Fields(text)) >= 4)
		}
		if bad {
			out = append(out, fmt.Sprintf("gen.go:%d:%d: compiler directive //%s in a place where the gc compiler rejects it (misplaced compiler directive)", i+1, len(l)-len(t)+1, verb))
		}
	}
	return out
}

// check parses and type-checks one generated file as its own package, importing bebop / iohelp / registered packages
// through the shared tc.Checker. Unlike tc.Check it keeps EVERY go/types error: besides unused variables and imports,
// go/types marks e.g. "no new variables on left side of :=" and "cannot range over" as soft, and the gc compiler
// rejects all of them (confirmed by the go build cross-check and by sensitivity demonstration 3).
func (e *env) check(src []byte) *tc.Result {
	fset := token.NewFileSet()
	f, err := parser.ParseFile(fset, "gen.go", src, parser.SkipObjectResolution)
	if err != nil {
		return &tc.Result{ParseErr: err}
	}
	r := &tc.Result{}
	conf := types.Config{Importer: e.chk, Error: func(err error) {
		if te, ok := err.(types.Error); ok {
			r.Errs = append(r.Errs, te)
		}
	}}
	r.Pkg, _ = conf.Check(f.Name.Name, fset, []*ast.File{f}, nil)
	return r
}

// verdict turns a type-check result into an outcome (first error = lowest source position).
func verdict(res *tc.Result, src []byte, o *outcome) {
	if res.OK() {
		if de := directiveErrors(src); len(de) > 0 {
			o.Cat, o.NErrs, o.Where = "compiler-directive", len(de), "in a comment"
			if len(de) > 3 {
				de = de[:3]
			}
			o.Errs = de
			return
		}
		o.OK = true
		return
	}
	if res.ParseErr != nil {
		o.Cat = "syntax"
		line := 0
		if el, ok := res.ParseErr.(scanner.ErrorList); ok && len(el) > 0 {
			o.NErrs = len(el)
			for i, e := range el {
				if i < 3 {
					o.Errs = append(o.Errs, e.Error())
				}
			}
			line = el[0].Pos.Line
		} else {
			o.NErrs = 1
			o.Errs = []string{res.ParseErr.Error()}
		}
		o.Where = whereIs(src, line)
		return
	}
	var errs []types.Error
	for _, e := range res.Errs {
		// "\tother declaration of X" lines are continuations of the preceding error, not errors
		if !strings.HasPrefix(e.Msg, "\t") {
			errs = append(errs, e)
		}
	}
	if len(errs) == 0 {
		errs = append(errs, res.Errs...)
	}
	sort.SliceStable(errs, func(i, j int) bool {
		return errs[i].Fset.Position(errs[i].Pos).Offset < errs[j].Fset.Position(errs[j].Pos).Offset
	})
	o.NErrs = len(errs)
	o.Cat = category(errs[0])
	o.Where = whereIs(src, errs[0].Fset.Position(errs[0].Pos).Line)
	for i, e := range errs {
		if i < 3 {
			o.Errs = append(o.Errs, tc.ErrLine(e))
		}
	}
}

func depMask(it *item, mask int) int {
	switch it.DepOpts {
	case "same":
		return mask
	case "public":
		return mask &^ driver.OptPrivate
	}
	return 0
}

// category is tc.Category with the classes the generated-code failures need on top of it.
func category(e types.Error) string {
	c := tc.Category(e)
	if c != "other" {
		return c
	}
	m := e.Msg
	switch {
	case strings.Contains(m, "missing init expr"):
		return "missing-init-expr"
	case strings.Contains(m, "invalid package name"):
		return "invalid-package-name"
	case strings.Contains(m, "could not import") || strings.Contains(m, "cannot find package") || strings.Contains(m, "not provided"):
		return "unresolved-import"
	case strings.Contains(m, "is not an expression") || strings.Contains(m, "is not a package") || strings.Contains(m, "not a package"):
		return "not-an-expression"
	case strings.Contains(m, "cannot call non-function") || strings.Contains(m, "not enough arguments") || strings.Contains(m, "too many arguments"):
		return "bad-call"
	case strings.Contains(m, "invalid receiver") || strings.Contains(m, "cannot define new methods"):
		return "invalid-receiver"
	case strings.Contains(m, "cannot range over") || strings.Contains(m, "iteration variable"):
		return "invalid-range"
	case strings.Contains(m, "label ") && strings.Contains(m, "declared and not used"):
		return "unused-label"
	case strings.Contains(m, "use of package") || strings.Contains(m, "without selector"):
		return "package-as-value"
	}
	return "other"
}

// judge decides one (schema, option set) pair. With keep, the generated sources are returned as well.
func (e *env) judge(it *item, mask int, keep bool) (o outcome, srcs []pkgSrc) {
	o.Done = true
	if it.Files == nil {
		atomic.AddInt64(&e.gens, 1)
		src, phase, err := fe.Gen(it.Text, mask, it.Pkg)
		if err != nil {
			o.Rejected, o.Phase, o.RejMsg = true, phase, err.Error()
			return
		}
		atomic.AddInt64(&e.checks, 1)
		verdict(e.check(src), src, &o)
		if keep {
			srcs = []pkgSrc{{File: "main.bop", Src: src}}
		}
		return
	}
	mainPath := filepath.Join(it.dir, "main.bop")
	if it.Mode == 0 && len(it.Deps) > 0 {
		// separate mode: the imported files' packages are generated and type-checked first and registered under
		// their go_package path. Registrations are global in the checker, hence serialised.
		e.impMu.Lock()
		defer e.impMu.Unlock()
		// the entry file decides acceptance: nothing is asserted about a rejected schema
		atomic.AddInt64(&e.gens, 1)
		src, phase, err := genPath(mainPath, mask, it.Pkg, it.Mode)
		if err != nil {
			o.Rejected, o.Phase, o.RejMsg = true, phase, err.Error()
			return
		}
		for _, d := range it.Deps {
			atomic.AddInt64(&e.gens, 1)
			dsrc, _, derr := genPath(filepath.Join(it.dir, filepath.FromSlash(d.File)), depMask(it, mask), "", 0)
			if derr != nil {
				// the imported file is not generable on its own; the importer's verdict stands on what exists
				continue
			}
			atomic.AddInt64(&e.checks, 1)
			res := e.check(dsrc)
			if keep {
				srcs = append(srcs, pkgSrc{ImportPath: d.Path, File: d.File, Src: dsrc})
			}
			if !res.OK() {
				verdict(res, dsrc, &o)
				o.Where = "in the package generated for imported file " + d.File + ", " + o.Where
				return
			}
			e.chk.AddPackage(d.Path, res.Pkg)
		}
		atomic.AddInt64(&e.checks, 1)
		verdict(e.check(src), src, &o)
		if keep {
			srcs = append(srcs, pkgSrc{File: "main.bop", Src: src})
		}
		return
	}
	atomic.AddInt64(&e.gens, 1)
	src, phase, err := genPath(mainPath, mask, it.Pkg, it.Mode)
	if err != nil {
		o.Rejected, o.Phase, o.RejMsg = true, phase, err.Error()
		return
	}
	atomic.AddInt64(&e.checks, 1)
	verdict(e.check(src), src, &o)
	if keep {
		srcs = []pkgSrc{{File: "main.bop", Src: src}}
	}
	return
}

var bitNames = []string{"ptr", "private", "tags", "unsafe", "shared"}

// optLabel names the minimal option subset a failure correlates with: "*" if it occurs under every judged
// accepted option set, otherwise the bits that are on in all failing sets and the bits (with "!") that are off
// in all failing sets, provided these constraints describe the failing sets exactly.
func optLabel(failing, universe []int) string {
	if len(failing) == len(universe) {
		return "*"
	}
	on, off := allMasks-1, allMasks-1
	for _, m := range failing {
		on &= m
		off &= ^m
	}
	fs := map[int]bool{}
	for _, m := range failing {
		fs[m] = true
	}
	exact := true
	for _, m := range universe {
		pred := m&on == on && m&off == 0
		if pred != fs[m] {
			exact = false
		}
	}
	var p []string
	for i, n := range bitNames {
		if on&(1<<i) != 0 {
			p = append(p, n)
		}
	}
	for i, n := range bitNames {
		if off&(1<<i) != 0 {
			p = append(p, "!"+n)
		}
	}
	if !exact || len(p) == 0 {
		// no conjunction of single bits describes it
		var ms []string
		for _, m := range failing {
			ms = append(ms, fmt.Sprint(m))
		}
		return "mixed(" + strings.Join(ms, ",") + ")"
	}
	return strings.Join(p, ",")
}

type hit struct {
	it      *item
	masks   []int
	first   outcome
	sig     string
	accepts int
}

func modeName(m int) string {
	if m == 1 {
		return "combined"
	}
	return "separate"
}

func caseMap(h *hit) map[string]any {
	it := h.it
	c := map[string]any{
		"part": it.Part, "class": it.Class, "position": it.Pos, "hazard": it.Note,
		"schema": it.Text, "package_name_setting": it.Pkg,
		"opt": h.masks[0], "opt_name": driver.OptName(h.masks[0]), "failing_opts": h.masks,
		"first_errors": h.first.Errs, "error_category": h.first.Cat, "where": h.first.Where,
	}
	if it.Files != nil {
		c["files"] = it.Files
		c["import_mode"] = modeName(it.Mode)
		c["importee_options"] = it.DepOpts
		c["imported_packages"] = it.Deps
	}
	return c
}

func itemFromCase(c map[string]any) (*item, []int) {
	it := &item{}
	str := func(k string) string { s, _ := c[k].(string); return s }
	it.Part, it.Class, it.Pos, it.Note, it.Text, it.Pkg = str("part"), str("class"), str("position"), str("hazard"), str("schema"), str("package_name_setting")
	if fs, ok := c["files"].(map[string]any); ok {
		it.Files = map[string]string{}
		for k, v := range fs {
			it.Files[k], _ = v.(string)
		}
		if str("import_mode") == "combined" {
			it.Mode = 1
		}
		it.DepOpts = str("importee_options")
		if ds, ok := c["imported_packages"].([]any); ok {
			for _, d := range ds {
				if m, ok := d.(map[string]any); ok {
					f, _ := m["file"].(string)
					p, _ := m["go_package"].(string)
					it.Deps = append(it.Deps, depFile{f, p})
				}
			}
		}
	}
	var masks []int
	if l, ok := c["failing_opts"].([]any); ok {
		for _, v := range l {
			if f, ok := v.(float64); ok {
				masks = append(masks, int(f))
			}
		}
	}
	if len(masks) == 0 {
		if f, ok := c["opt"].(float64); ok {
			masks = []int{int(f)}
		}
	}
	return it, masks
}

func newEnv() *env {
	chk, err := tc.New(vlib.RepoDir())
	if err != nil {
		vlib.Fatal("cannot type-check bebop/iohelp from %s: %v", vlib.RepoDir(), err)
	}
	work := filepath.Join(vlib.VerifDir(), ".cache", "work", fmt.Sprintf("c12-%d", os.Getpid()))
	if err := os.MkdirAll(work, 0o755); err != nil {
		vlib.Fatal("scratch: %v", err)
	}
	return &env{chk: chk, work: work}
}

func doReplay(path string) int {
	b, err := os.ReadFile(path)
	if err != nil {
		vlib.Fatal("replay: %v", err)
	}
	var v struct {
		Signature string         `json:"signature"`
		Case      map[string]any `json:"case"`
	}
	if json.Unmarshal(b, &v) != nil || v.Case["schema"] == nil {
		vlib.Fatal("replay file %s has no C12 case", path)
	}
	e := newEnv()
	defer os.RemoveAll(e.work)
	it, masks := itemFromCase(v.Case)
	e.materialise(it)
	fmt.Printf("replaying %s\n  %s\n", v.Signature, it.Note)
	fmt.Printf("--- schema (PackageName=%q)\n%s", it.Pkg, it.Text)
	for _, n := range sortedKeys(it.Files) {
		fmt.Printf("--- file %s\n%s", n, it.Files[n])
	}
	fmt.Println("---")
	bad := 0
	var okSets, rejSets []string
	for _, m := range masks {
		o, _ := e.judge(it, m, false)
		switch {
		case o.Rejected:
			rejSets = append(rejSets, driver.OptName(m))
			if len(rejSets) == 1 {
				fmt.Printf("options %s: REJECTED by %s: %s\n", driver.OptName(m), o.Phase, o.RejMsg)
			}
		case o.OK:
			okSets = append(okSets, driver.OptName(m))
		default:
			bad++
			if bad == 1 {
				fmt.Printf("options %s: generated code does NOT compile: %d error(s), category %s, %s\n", driver.OptName(m), o.NErrs, o.Cat, o.Where)
				for _, l := range o.Errs {
					fmt.Printf("    %s\n", l)
				}
			} else {
				first := ""
				if len(o.Errs) > 0 {
					first = o.Errs[0]
				}
				fmt.Printf("options %s: does NOT compile (%d errors, %s): %s\n", driver.OptName(m), o.NErrs, o.Cat, first)
			}
		}
	}
	if len(okSets) > 0 {
		fmt.Printf("compiles under: %s\n", strings.Join(okSets, " "))
	}
	if len(rejSets) > 0 {
		fmt.Printf("rejected under: %s\n", strings.Join(rejSets, " "))
	}
	if bad > 0 {
		fmt.Printf("VIOLATION property=C12 still reproduces under %d of %d option sets\n", bad, len(masks))
		return 1
	}
	fmt.Println("no longer reproduces")
	return 0
}

func main() {
	prop := flag.String("property", "C12", "")
	replay := flag.String("replay", "", "")
	groups := flag.Bool("groups", false, "print every violation signature with its witnesses (for NOTES.md)")
	nocross := flag.Bool("nocross", false, "skip the go build cross-check (debugging only)")
	cpuprof := flag.String("cpuprofile", "", "write a CPU profile (debugging only)")
	dump := flag.String("dump", "", "write one JSON line per enumerated schema (class, position, verdicts) to this file")
	flag.Parse()
	if *cpuprof != "" {
		f, err := os.Create(*cpuprof)
		if err == nil {
			_ = pprof.StartCPUProfile(f)
			defer pprof.StopCPUProfile()
		}
	}
	if *prop != "C12" {
		vlib.Fatal("c12: unknown property %q", *prop)
	}
	if *replay != "" {
		os.Exit(doReplay(*replay))
	}
	run := vlib.NewRun("C12", "model_checking")
	debug.SetGCPercent(400)
	e := newEnv()
	cleanup := func() { os.RemoveAll(e.work) }
	items := allItems(run.Thorough())
	for _, it := range items {
		e.materialise(it)
	}
	e.results = make([][]outcome, len(items))
	for i := range e.results {
		e.results[i] = make([]outcome, allMasks)
	}

	// pass 1: every item under its option sets
	type job struct{ it, mask int }
	var jobs []job
	for _, it := range items {
		if run.Thorough() || it.Wide {
			for m := 0; m < allMasks; m++ {
				jobs = append(jobs, job{it.idx, m})
			}
		} else {
			for _, m := range quickMasks {
				jobs = append(jobs, job{it.idx, m})
			}
		}
	}
	runJobs := func(js []job) {
		vlib.ParallelFor(len(js), func(i int) {
			j := js[i]
			o, _ := e.judge(items[j.it], j.mask, false)
			e.results[j.it][j.mask] = o
		})
	}
	tJudge := time.Now()
	runJobs(jobs)
	judgeS := time.Since(tJudge).Seconds()
	// pass 2 (quick): an item whose verdict differs between the four option sets is judged under all 32, so that the
	// option subset in its signature is exact and equal to what the thorough tier reports
	var refine []job
	refined := 0
	for _, it := range items {
		keys := map[string]bool{}
		n := 0
		for m := 0; m < allMasks; m++ {
			if e.results[it.idx][m].Done {
				keys[e.results[it.idx][m].key()] = true
				n++
			}
		}
		if n < allMasks && len(keys) > 1 {
			refined++
			for m := 0; m < allMasks; m++ {
				if !e.results[it.idx][m].Done {
					refine = append(refine, job{it.idx, m})
				}
			}
		}
	}
	runJobs(refine)

	// aggregate
	type partStat struct {
		Schemas, Accepted, Rejected, Mixed int
		Pairs, PairsAccepted, PairsFailing int
		SchemasFailing                     int
		Classes                            map[string]bool
		RejectedClasses                    map[string]int
	}
	stats := map[string]*partStat{}
	distinctAccepted := map[[32]byte]bool{}
	rejectReasons := vlib.NewCounter()
	var hits []*hit
	states := 0
	for _, it := range items {
		ps := stats[it.Part]
		if ps == nil {
			ps = &partStat{Classes: map[string]bool{}, RejectedClasses: map[string]int{}}
			stats[it.Part] = ps
		}
		ps.Schemas++
		ps.Classes[it.Class+"|"+it.Pos] = true
		var universe []int
		byCat := map[string][]int{}
		firstOf := map[string]outcome{}
		rej := 0
		judged := 0
		for m := 0; m < allMasks; m++ {
			o := e.results[it.idx][m]
			if !o.Done {
				continue
			}
			judged++
			states++
			ps.Pairs++
			if o.Rejected {
				rej++
				if rej == 1 {
					rejectReasons.Add(it.Part + "|" + o.Phase)
				}
				continue
			}
			ps.PairsAccepted++
			universe = append(universe, m)
			if !o.OK {
				ps.PairsFailing++
				if _, ok := firstOf[o.Cat]; !ok {
					firstOf[o.Cat] = o
				}
				byCat[o.Cat] = append(byCat[o.Cat], m)
			}
		}
		switch {
		case rej == judged:
			ps.Rejected++
			ps.RejectedClasses[it.Class]++
		case rej == 0:
			ps.Accepted++
		default:
			ps.Mixed++
		}
		if len(universe) > 0 {
			h := sha256.New()
			h.Write([]byte(it.Text))
			for _, n := range sortedKeys(it.Files) {
				h.Write([]byte{0})
				h.Write([]byte(n))
				h.Write([]byte{0})
				h.Write([]byte(it.Files[n]))
			}
			fmt.Fprintf(h, "\x00%s\x00%d\x00%s", it.Pkg, it.Mode, it.DepOpts)
			var k [32]byte
			copy(k[:], h.Sum(nil))
			distinctAccepted[k] = true
		}
		if len(byCat) > 0 {
			ps.SchemasFailing++
		}
		if it.Control {
			if len(universe) != judged {
				cleanup()
				vlib.Fatal("control schema (%s %s %s: %s) was rejected by the compiler: the generator of this alphabet part is wrong:\n%s\n%s", it.Part, it.Class, it.Pos, it.Note, it.Text, e.results[it.idx][0].RejMsg)
			}
		}
		for _, cat := range sortedKeys(byCat) {
			ms := byCat[cat]
			sig := it.sigPrefix() + "|opts=" + optLabel(ms, universe) + "|" + cat
			hits = append(hits, &hit{it: it, masks: ms, first: firstOf[cat], sig: sig, accepts: len(universe)})
		}
	}

	if *dump != "" {
		var db bytes.Buffer
		sigsOf := map[int][]string{}
		for _, h := range hits {
			sigsOf[h.it.idx] = append(sigsOf[h.it.idx], h.sig)
		}
		for _, it := range items {
			acc := false
			for m := 0; m < allMasks; m++ {
				if o := e.results[it.idx][m]; o.Done && !o.Rejected {
					acc = true
				}
			}
			b, _ := json.Marshal(map[string]any{"prefix": it.sigPrefix(), "note": it.Note, "accepted": acc, "sigs": sigsOf[it.idx]})
			db.Write(b)
			db.WriteByte('\n')
		}
		_ = os.WriteFile(*dump, db.Bytes(), 0o644)
	}
	// group by signature; the witness of a signature is its smallest schema
	bySig := map[string][]*hit{}
	for _, h := range hits {
		bySig[h.sig] = append(bySig[h.sig], h)
	}
	sigs := sortedKeys(bySig)
	for _, s := range sigs {
		hs := bySig[s]
		sort.SliceStable(hs, func(i, j int) bool {
			if len(hs[i].it.Text) != len(hs[j].it.Text) {
				return len(hs[i].it.Text) < len(hs[j].it.Text)
			}
			return hs[i].it.idx < hs[j].it.idx
		})
	}

	// cross-validation against the real toolchain
	var xr *crossResult
	tCross := time.Now()
	if !*nocross {
		var fails []sample
		for _, s := range sigs {
			h := bySig[s][0]
			fails = append(fails, sample{it: h.it, mask: h.masks[0], expectOK: false, sig: s})
		}
		xr = e.crossCheck(items, fails, run.Thorough())
		if len(xr.Disagreements) > 0 {
			fmt.Fprintf(os.Stderr, "scratch modules kept in %s\n", xr.Root)
			for _, d := range xr.Disagreements {
				fmt.Fprintln(os.Stderr, d)
			}
			vlib.Fatal("the in-process type checker and the real toolchain disagree on %d of %d (schema, options) pairs: the checker model is not validated; no verdict", len(xr.Disagreements), xr.Checked)
		}
		os.RemoveAll(xr.Root)
	}
	crossS := time.Since(tCross).Seconds()
	cleanup()

	for _, s := range sigs {
		hs := bySig[s]
		w := hs[0]
		var notes []string
		seen := map[string]bool{}
		for _, h := range hs {
			if !seen[h.it.Note] {
				seen[h.it.Note] = true
				notes = append(notes, h.it.Note)
			}
		}
		optDesc := "under every option set"
		if len(w.masks) != w.accepts {
			var on []string
			for _, m := range w.masks {
				on = append(on, driver.OptName(m))
			}
			optDesc = fmt.Sprintf("under %d of %d option sets (%s)", len(w.masks), w.accepts, vlib.Short(strings.Join(on, " "), 160))
		}
		msg := fmt.Sprintf("%d accepted schema(s) of this class generate Go that does not compile, %s. Witness (%s; PackageName=%q; options %s): first of %d compiler error(s), %s: %s. Cases: %s",
			len(hs), optDesc, w.it.Note, w.it.Pkg, driver.OptName(w.masks[0]), w.first.NErrs, w.first.Where, strings.Join(w.first.Errs, " ; "), vlib.Short(strings.Join(notes, "; "), 400))
		if *groups {
			fmt.Printf("SIG %s (x%d)\n    %s\n", s, len(hs), msg)
			fmt.Printf("    schema: %q\n", vlib.Short(w.it.Text, 600))
		}
		for i, h := range hs {
			if i == 0 {
				run.Report(s, msg, caseMap(h))
			} else {
				run.Report(s, "", caseMap(h))
			}
		}
	}

	// coverage
	cov := run.Coverage
	cov["states"] = states
	cov["transitions"] = e.gens + e.checks
	cov["generate_calls"] = e.gens
	cov["type_checks"] = e.checks
	cov["evaluations"] = states
	cov["distinct_nontrivial"] = len(distinctAccepted)
	cov["schemas_enumerated"] = len(items)
	cov["failing_pairs"] = func() int {
		n := 0
		for _, h := range hits {
			n += len(h.masks)
		}
		return n
	}()
	cov["failing_schemas"] = func() int {
		n := 0
		for _, ps := range stats {
			n += ps.SchemasFailing
		}
		return n
	}()
	cov["distinct_failure_signatures_before_known_findings"] = len(sigs)
	parts := map[string]any{}
	for _, p := range partOrder {
		ps := stats[p]
		if ps == nil {
			continue
		}
		parts[p] = map[string]any{
			"schemas": ps.Schemas, "schemas_accepted": ps.Accepted, "schemas_rejected": ps.Rejected, "schemas_accepted_under_some_options_only": ps.Mixed,
			"schemas_failing_to_compile": ps.SchemasFailing, "class_positions": len(ps.Classes),
			"pairs_judged": ps.Pairs, "pairs_accepted": ps.PairsAccepted, "pairs_failing": ps.PairsFailing,
			"rejected_by_class": ps.RejectedClasses,
		}
		// vacuity guard: a part whose hazards the compiler mostly refuses tests nothing
		if ps.Accepted*2 < ps.Schemas {
			run.Assume = append(run.Assume, fmt.Sprintf("WARNING: alphabet part %s: only %d of %d schemas accepted", p, ps.Accepted, ps.Schemas))
		}
	}
	cov["alphabet_parts"] = parts
	cov["rejections_by_phase"] = rejectReasons.Top(40)
	cov["quick_tier_items_refined_to_32_option_sets"] = refined
	cov["phase_seconds"] = map[string]any{"enumerate_and_judge": judgeS, "crosscheck_total": crossS}
	if xr != nil {
		cov["traces_validated_against_impl"] = xr.Checked
		cov["go_build_crosscheck"] = map[string]any{
			"checked": xr.Checked, "agreed": xr.Agreed, "passing_pairs_checked": xr.PassChecked, "passing_pairs_total": xr.PassTotal,
			"failing_signatures_checked": xr.FailChecked, "modules": xr.Modules, "go_build_s": xr.BuildSeconds, "go_vet_s": xr.VetSeconds,
			"go_vet_packages_with_findings": xr.VetPackages, "go_vet_finding_kinds": xr.VetKinds,
		}
	} else {
		cov["traces_validated_against_impl"] = 0
	}
	if run.Thorough() {
		cov["rule"] = "state = one (schema, option set) pair, option set = the 5 boolean GenerateSettings (32), plus PackageName source and import mode where they apply; every schema of the alphabet (part 1: every shape x context case of schema.Support.Cases(thorough) alone with the support definitions; part 2: identifier / string / const / package-name / enum / opcode / union / sequence / import generators of cmd/c12/alphabet.go) is judged under all 32 option sets; transitions = Generate calls + type-checks; distinct_nontrivial = distinct accepted (schema text, PackageName setting, import mode) inputs"
	} else {
		cov["rule"] = "state = one (schema, option set) pair; part 1: every case of schema.Support.Cases(quick) under option sets {none, all, ptr+unsafe, private+shared}, a reduced subset (depth<=1 shapes over 12 leaves, specials) under all 32, and every case whose verdict differs among the four under all 32; part 2 (alphabet.go generators): every schema under all 32; transitions = Generate calls + type-checks; distinct_nontrivial = distinct accepted (schema text, PackageName setting, import mode) inputs"
	}
	cov["explanation"] = "each pair runs the real ReadFile+Generate of the working tree; the verdict is go/parser + go/types over the emitted file against bebop and iohelp type-checked from the working tree (every go/types error counts, including the ones go/types calls soft: unused variables/imports/labels, no new variables on the left of :=), plus the gc compiler's rule for misplaced //go: directives; rejected schemas assert nothing and are counted"
	run.Assume = append(run.Assume,
		"compiles = parses and type-checks as one package (go/types); validated against `go build` on the stratified subset reported under go_build_crosscheck",
		"separate import mode: the imported file is generated with the importer's option set minus PrivateDefinitions (the generator documents that imported packages are assumed public); the two classes import|separate:importee-generated-with-* cover differing option sets",
		"a file whose package clause is `package main` is accepted although `go build` wants a func main",
	)
	// samples: per alphabet part the first schema that compiles and the first that does not
	type pick struct{ ok, bad bool }
	picked := map[string]*pick{}
	tail := func(t string) string {
		if len(t) > 320 {
			return "..." + t[len(t)-320:]
		}
		return t
	}
	for _, it := range items {
		pk := picked[it.Part]
		if pk == nil {
			pk = &pick{}
			picked[it.Part] = pk
		}
		if pk.ok && pk.bad {
			continue
		}
		var first *outcome
		anyBad := false
		for m := 0; m < allMasks; m++ {
			o := &e.results[it.idx][m]
			if !o.Done || o.Rejected {
				continue
			}
			if first == nil || (!o.OK && !anyBad) {
				first = o
			}
			if !o.OK {
				anyBad = true
			}
		}
		if first == nil || (anyBad && pk.bad) || (!anyBad && pk.ok) {
			continue
		}
		if anyBad {
			pk.bad = true
		} else {
			pk.ok = true
		}
		run.Sample(map[string]any{"part": it.Part, "class": it.Class, "position": it.Pos, "hazard": it.Note, "schema_tail": tail(it.Text), "compiles": !anyBad, "errors": first.Errs})
	}
	pprof.StopCPUProfile()
	run.Finish()
}
