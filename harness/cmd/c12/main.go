// C12 — whatever the compiler accepts, it turns into Go code that compiles.
//
// Bounded-exhaustive enumeration of schemas x generator option sets. Every (schema, options) pair
// that ReadFile+Generate accept is judged in-process by go/parser + go/types against bebop and
// iohelp type-checked from the working tree (verif/tc). A stratified subset of the verdicts is
// re-judged by the real toolchain (go build / go vet) and must agree.
package main

import (
	"bytes"
	"crypto/sha256"
	"encoding/json"
	"flag"
	"fmt"
	"go/scanner"
	"go/types"
	"os"
	"path/filepath"
	"regexp"
	"runtime/pprof"
	"sort"
	"strings"
	"sync"
	"sync/atomic"

	"github.com/200sc/bebop"
	"verif/driver"
	"verif/fe"
	"verif/tc"
	"verif/vlib"
)

const allMasks = 32

var quickMasks = []int{0, 31, 9, 18}

type pkgSrc struct {
	ImportPath string // "" = the entry file's package
	File       string // schema file it was generated from
	Src        []byte
}

type outcome struct {
	Done     bool
	Rejected bool
	Phase    string
	RejMsg   string
	OK       bool
	Cat      string   // category of the first error in source order
	Where    string   // enclosing generated function / file of that error (messages only)
	Errs     []string // first errors, "line:col: text"
	NErrs    int
}

func (o *outcome) key() string {
	switch {
	case o.Rejected:
		return "rejected"
	case o.OK:
		return "ok"
	}
	return "fail:" + o.Cat
}

type env struct {
	chk     *tc.Checker
	work    string
	impMu   sync.Mutex
	gens    int64
	checks  int64
	results [][]outcome
}

// genPath runs ReadFile+Generate on a schema file on disk (needed for imports: Generate resolves them
// relative to File.FileName).
func genPath(path string, mask int, pkg string, mode int) (out []byte, phase string, err error) {
	defer func() {
		if r := recover(); r != nil {
			phase, err = "panic", fmt.Errorf("panic: %v", r)
		}
	}()
	fh, err := os.Open(path)
	if err != nil {
		vlib.Fatal("cannot open materialised schema %s: %v", path, err)
	}
	defer fh.Close()
	f, _, err := bebop.ReadFile(fh)
	if err != nil {
		return nil, "readfile", err
	}
	var buf bytes.Buffer
	st := driver.Settings(mask)
	st.PackageName = pkg
	st.ImportGenerationMode = bebop.ImportGenerationMode(mode)
	if err := f.Generate(&buf, st); err != nil {
		return nil, "generate", err
	}
	return buf.Bytes(), "", nil
}

func (e *env) materialise(it *item) {
	if it.Files == nil || it.dir != "" {
		return
	}
	it.dir = filepath.Join(e.work, fmt.Sprintf("i%d", it.idx))
	write := func(name, text string) {
		p := filepath.Join(it.dir, filepath.FromSlash(name))
		if err := os.MkdirAll(filepath.Dir(p), 0o755); err != nil {
			vlib.Fatal("scratch: %v", err)
		}
		if err := os.WriteFile(p, []byte(text), 0o644); err != nil {
			vlib.Fatal("scratch: %v", err)
		}
	}
	write("main.bop", it.Text)
	for n, t := range it.Files {
		write(n, t)
	}
}

var funcRe = regexp.MustCompile(`^func (?:\([a-z]+ \*?[^)]*\) )?([A-Za-z0-9_]+)`)

// whereIs names the generated function that contains line (messages only; never part of a signature).
func whereIs(src []byte, line int) string {
	lines := bytes.Split(src, []byte("\n"))
	if line > len(lines) {
		line = len(lines)
	}
	for i := line - 1; i >= 0; i-- {
		l := lines[i]
		if bytes.HasPrefix(l, []byte("func ")) {
			if m := funcRe.FindSubmatch(l); m != nil {
				// strip the record name from MakeX / NewX etc.: only the method names are stable API
				return "in func " + string(m[1])
			}
			return "in a func"
		}
		if i < line-1 && len(l) > 0 && l[0] == '}' {
			break
		}
	}
	return "at package level"
}

// verdict turns a type-check result into an outcome (first error = lowest source position).
func verdict(res *tc.Result, src []byte, o *outcome) {
	if res.OK() {
		o.OK = true
		return
	}
	if res.ParseErr != nil {
		o.Cat = "syntax"
		line := 0
		if el, ok := res.ParseErr.(scanner.ErrorList); ok && len(el) > 0 {
			o.NErrs = len(el)
			for i, e := range el {
				if i < 3 {
					o.Errs = append(o.Errs, e.Error())
				}
			}
			line = el[0].Pos.Line
		} else {
			o.NErrs = 1
			o.Errs = []string{res.ParseErr.Error()}
		}
		o.Where = whereIs(src, line)
		return
	}
	errs := append([]types.Error(nil), res.Errs...)
	sort.SliceStable(errs, func(i, j int) bool {
		return errs[i].Fset.Position(errs[i].Pos).Offset < errs[j].Fset.Position(errs[j].Pos).Offset
	})
	o.NErrs = len(errs)
	o.Cat = tc.Category(errs[0])
	o.Where = whereIs(src, errs[0].Fset.Position(errs[0].Pos).Line)
	for i, e := range errs {
		if i < 3 {
			o.Errs = append(o.Errs, tc.ErrLine(e))
		}
	}
}

func depMask(it *item, mask int) int {
	if it.DepOpts == "same" {
		return mask
	}
	return 0
}

// judge decides one (schema, option set) pair. With keep, the generated sources are returned as well.
func (e *env) judge(it *item, mask int, keep bool) (o outcome, srcs []pkgSrc) {
	o.Done = true
	if it.Files == nil {
		atomic.AddInt64(&e.gens, 1)
		src, phase, err := fe.Gen(it.Text, mask, it.Pkg)
		if err != nil {
			o.Rejected, o.Phase, o.RejMsg = true, phase, err.Error()
			return
		}
		atomic.AddInt64(&e.checks, 1)
		verdict(e.chk.Check("gen.go", src), src, &o)
		if keep {
			srcs = []pkgSrc{{File: "main.bop", Src: src}}
		}
		return
	}
	mainPath := filepath.Join(it.dir, "main.bop")
	if it.Mode == 0 && len(it.Deps) > 0 {
		// separate mode: the imported files' packages are generated and type-checked first and registered under
		// their go_package path. Registrations are global in the checker, hence serialised.
		e.impMu.Lock()
		defer e.impMu.Unlock()
		// the entry file decides acceptance: nothing is asserted about a rejected schema
		atomic.AddInt64(&e.gens, 1)
		src, phase, err := genPath(mainPath, mask, it.Pkg, it.Mode)
		if err != nil {
			o.Rejected, o.Phase, o.RejMsg = true, phase, err.Error()
			return
		}
		for _, d := range it.Deps {
			atomic.AddInt64(&e.gens, 1)
			dsrc, _, derr := genPath(filepath.Join(it.dir, filepath.FromSlash(d.File)), depMask(it, mask), "", 0)
			if derr != nil {
				// the imported file is not generable on its own; the importer's verdict stands on what exists
				continue
			}
			atomic.AddInt64(&e.checks, 1)
			res := e.chk.Check("gen.go", dsrc)
			if keep {
				srcs = append(srcs, pkgSrc{ImportPath: d.Path, File: d.File, Src: dsrc})
			}
			if !res.OK() {
				verdict(res, dsrc, &o)
				o.Where = "in the package generated for imported file " + d.File + ", " + o.Where
				return
			}
			e.chk.AddPackage(d.Path, res.Pkg)
		}
		atomic.AddInt64(&e.checks, 1)
		verdict(e.chk.Check("gen.go", src), src, &o)
		if keep {
			srcs = append(srcs, pkgSrc{File: "main.bop", Src: src})
		}
		return
	}
	atomic.AddInt64(&e.gens, 1)
	src, phase, err := genPath(mainPath, mask, it.Pkg, it.Mode)
	if err != nil {
		o.Rejected, o.Phase, o.RejMsg = true, phase, err.Error()
		return
	}
	atomic.AddInt64(&e.checks, 1)
	verdict(e.chk.Check("gen.go", src), src, &o)
	if keep {
		srcs = []pkgSrc{{File: "main.bop", Src: src}}
	}
	return
}

var bitNames = []string{"ptr", "private", "tags", "unsafe", "shared"}

// optLabel names the minimal option subset a failure correlates with: "*" if it occurs under every judged
// accepted option set, otherwise the bits that are on in all failing sets and the bits (with "!") that are off
// in all failing sets, provided these constraints describe the failing sets exactly.
func optLabel(failing, universe []int) string {
	if len(failing) == len(universe) {
		return "*"
	}
	on, off := allMasks-1, allMasks-1
	for _, m := range failing {
		on &= m
		off &= ^m
	}
	fs := map[int]bool{}
	for _, m := range failing {
		fs[m] = true
	}
	exact := true
	for _, m := range universe {
		pred := m&on == on && m&off == 0
		if pred != fs[m] {
			exact = false
		}
	}
	var p []string
	for i, n := range bitNames {
		if on&(1<<i) != 0 {
			p = append(p, n)
		}
	}
	for i, n := range bitNames {
		if off&(1<<i) != 0 {
			p = append(p, "!"+n)
		}
	}
	if !exact || len(p) == 0 {
		// no conjunction of single bits describes it
		var ms []string
		for _, m := range failing {
			ms = append(ms, fmt.Sprint(m))
		}
		return "mixed(" + strings.Join(ms, ",") + ")"
	}
	return strings.Join(p, ",")
}

type hit struct {
	it      *item
	masks   []int
	first   outcome
	sig     string
	accepts int
}

func modeName(m int) string {
	if m == 1 {
		return "combined"
	}
	return "separate"
}

func caseMap(h *hit) map[string]any {
	it := h.it
	c := map[string]any{
		"part": it.Part, "class": it.Class, "position": it.Pos, "hazard": it.Note,
		"schema": it.Text, "package_name_setting": it.Pkg,
		"opt": h.masks[0], "opt_name": driver.OptName(h.masks[0]), "failing_opts": h.masks,
		"first_errors": h.first.Errs, "error_category": h.first.Cat, "where": h.first.Where,
	}
	if it.Files != nil {
		c["files"] = it.Files
		c["import_mode"] = modeName(it.Mode)
		c["importee_options"] = it.DepOpts
		c["imported_packages"] = it.Deps
	}
	return c
}

func itemFromCase(c map[string]any) (*item, []int) {
	it := &item{}
	str := func(k string) string { s, _ := c[k].(string); return s }
	it.Part, it.Class, it.Pos, it.Note, it.Text, it.Pkg = str("part"), str("class"), str("position"), str("hazard"), str("schema"), str("package_name_setting")
	if fs, ok := c["files"].(map[string]any); ok {
		it.Files = map[string]string{}
		for k, v := range fs {
			it.Files[k], _ = v.(string)
		}
		if str("import_mode") == "combined" {
			it.Mode = 1
		}
		it.DepOpts = str("importee_options")
		if ds, ok := c["imported_packages"].([]any); ok {
			for _, d := range ds {
				if m, ok := d.(map[string]any); ok {
					f, _ := m["file"].(string)
					p, _ := m["go_package"].(string)
					it.Deps = append(it.Deps, depFile{f, p})
				}
			}
		}
	}
	var masks []int
	if l, ok := c["failing_opts"].([]any); ok {
		for _, v := range l {
			if f, ok := v.(float64); ok {
				masks = append(masks, int(f))
			}
		}
	}
	if len(masks) == 0 {
		if f, ok := c["opt"].(float64); ok {
			masks = []int{int(f)}
		}
	}
	return it, masks
}

func newEnv() *env {
	chk, err := tc.New(vlib.RepoDir())
	if err != nil {
		vlib.Fatal("cannot type-check bebop/iohelp from %s: %v", vlib.RepoDir(), err)
	}
	work := filepath.Join(vlib.VerifDir(), ".cache", "work", fmt.Sprintf("c12-%d", os.Getpid()))
	if err := os.MkdirAll(work, 0o755); err != nil {
		vlib.Fatal("scratch: %v", err)
	}
	return &env{chk: chk, work: work}
}

func doReplay(path string) int {
	b, err := os.ReadFile(path)
	if err != nil {
		vlib.Fatal("replay: %v", err)
	}
	var v struct {
		Signature string         `json:"signature"`
		Case      map[string]any `json:"case"`
	}
	if json.Unmarshal(b, &v) != nil || v.Case["schema"] == nil {
		vlib.Fatal("replay file %s has no C12 case", path)
	}
	e := newEnv()
	defer os.RemoveAll(e.work)
	it, masks := itemFromCase(v.Case)
	e.materialise(it)
	fmt.Printf("replaying %s\n  %s\n", v.Signature, it.Note)
	fmt.Printf("--- schema (PackageName=%q)\n%s", it.Pkg, it.Text)
	for _, n := range sortedKeys(it.Files) {
		fmt.Printf("--- file %s\n%s", n, it.Files[n])
	}
	fmt.Println("---")
	bad := 0
	for _, m := range masks {
		o, _ := e.judge(it, m, false)
		switch {
		case o.Rejected:
			fmt.Printf("options %-28s REJECTED by %s: %s\n", driver.OptName(m), o.Phase, o.RejMsg)
		case o.OK:
			fmt.Printf("options %-28s generated code type-checks\n", driver.OptName(m))
		default:
			bad++
			fmt.Printf("options %-28s generated code does NOT compile: %d error(s), category %s, %s\n", driver.OptName(m), o.NErrs, o.Cat, o.Where)
			for _, l := range o.Errs {
				fmt.Printf("    %s\n", l)
			}
		}
	}
	if bad > 0 {
		fmt.Printf("VIOLATION property=C12 still reproduces under %d of %d option sets\n", bad, len(masks))
		return 1
	}
	fmt.Println("no longer reproduces")
	return 0
}

func main() {
	prop := flag.String("property", "C12", "")
	replay := flag.String("replay", "", "")
	groups := flag.Bool("groups", false, "print every violation signature with its witnesses (for NOTES.md)")
	nocross := flag.Bool("nocross", false, "skip the go build cross-check (debugging only)")
	cpuprof := flag.String("cpuprofile", "", "write a CPU profile (debugging only)")
	flag.Parse()
	if *cpuprof != "" {
		f, err := os.Create(*cpuprof)
		if err == nil {
			_ = pprof.StartCPUProfile(f)
			defer pprof.StopCPUProfile()
		}
	}
	if *prop != "C12" {
		vlib.Fatal("c12: unknown property %q", *prop)
	}
	if *replay != "" {
		os.Exit(doReplay(*replay))
	}
	run := vlib.NewRun("C12", "model_checking")
	e := newEnv()
	cleanup := func() { os.RemoveAll(e.work) }
	items := allItems(run.Thorough())
	for _, it := range items {
		e.materialise(it)
	}
	e.results = make([][]outcome, len(items))
	for i := range e.results {
		e.results[i] = make([]outcome, allMasks)
	}

	// pass 1: every item under its option sets
	type job struct{ it, mask int }
	var jobs []job
	for _, it := range items {
		if run.Thorough() || it.Wide {
			for m := 0; m < allMasks; m++ {
				jobs = append(jobs, job{it.idx, m})
			}
		} else {
			for _, m := range quickMasks {
				jobs = append(jobs, job{it.idx, m})
			}
		}
	}
	runJobs := func(js []job) {
		vlib.ParallelFor(len(js), func(i int) {
			j := js[i]
			o, _ := e.judge(items[j.it], j.mask, false)
			e.results[j.it][j.mask] = o
		})
	}
	runJobs(jobs)
	// pass 2 (quick): an item whose verdict differs between the four option sets is judged under all 32, so that the
	// option subset in its signature is exact and equal to what the thorough tier reports
	var refine []job
	refined := 0
	for _, it := range items {
		keys := map[string]bool{}
		n := 0
		for m := 0; m < allMasks; m++ {
			if e.results[it.idx][m].Done {
				keys[e.results[it.idx][m].key()] = true
				n++
			}
		}
		if n < allMasks && len(keys) > 1 {
			refined++
			for m := 0; m < allMasks; m++ {
				if !e.results[it.idx][m].Done {
					refine = append(refine, job{it.idx, m})
				}
			}
		}
	}
	runJobs(refine)

	// aggregate
	type partStat struct {
		Schemas, Accepted, Rejected, Mixed int
		Pairs, PairsAccepted, PairsFailing int
		SchemasFailing                     int
		Classes                            map[string]bool
		RejectedClasses                    map[string]int
	}
	stats := map[string]*partStat{}
	distinctAccepted := map[[32]byte]bool{}
	rejectReasons := vlib.NewCounter()
	var hits []*hit
	states := 0
	for _, it := range items {
		ps := stats[it.Part]
		if ps == nil {
			ps = &partStat{Classes: map[string]bool{}, RejectedClasses: map[string]int{}}
			stats[it.Part] = ps
		}
		ps.Schemas++
		ps.Classes[it.Class+"|"+it.Pos] = true
		var universe []int
		byCat := map[string][]int{}
		firstOf := map[string]outcome{}
		rej := 0
		judged := 0
		for m := 0; m < allMasks; m++ {
			o := e.results[it.idx][m]
			if !o.Done {
				continue
			}
			judged++
			states++
			ps.Pairs++
			if o.Rejected {
				rej++
				if rej == 1 {
					rejectReasons.Add(it.Part + "|" + o.Phase)
				}
				continue
			}
			ps.PairsAccepted++
			universe = append(universe, m)
			if !o.OK {
				ps.PairsFailing++
				if _, ok := firstOf[o.Cat]; !ok {
					firstOf[o.Cat] = o
				}
				byCat[o.Cat] = append(byCat[o.Cat], m)
			}
		}
		switch {
		case rej == judged:
			ps.Rejected++
			ps.RejectedClasses[it.Class]++
		case rej == 0:
			ps.Accepted++
		default:
			ps.Mixed++
		}
		if len(universe) > 0 {
			h := sha256.New()
			h.Write([]byte(it.Text))
			for _, n := range sortedKeys(it.Files) {
				h.Write([]byte{0})
				h.Write([]byte(n))
				h.Write([]byte{0})
				h.Write([]byte(it.Files[n]))
			}
			fmt.Fprintf(h, "\x00%s\x00%d\x00%s", it.Pkg, it.Mode, it.DepOpts)
			var k [32]byte
			copy(k[:], h.Sum(nil))
			distinctAccepted[k] = true
		}
		if len(byCat) > 0 {
			ps.SchemasFailing++
		}
		if it.Control {
			if len(universe) != judged {
				cleanup()
				vlib.Fatal("control schema (%s %s %s: %s) was rejected by the compiler: the generator of this alphabet part is wrong:\n%s\n%s", it.Part, it.Class, it.Pos, it.Note, it.Text, e.results[it.idx][0].RejMsg)
			}
		}
		for _, cat := range sortedKeys(byCat) {
			ms := byCat[cat]
			sig := it.sigPrefix() + "|opts=" + optLabel(ms, universe) + "|" + cat
			hits = append(hits, &hit{it: it, masks: ms, first: firstOf[cat], sig: sig, accepts: len(universe)})
		}
	}

	// group by signature; the witness of a signature is its smallest schema
	bySig := map[string][]*hit{}
	for _, h := range hits {
		bySig[h.sig] = append(bySig[h.sig], h)
	}
	sigs := sortedKeys(bySig)
	for _, s := range sigs {
		hs := bySig[s]
		sort.SliceStable(hs, func(i, j int) bool {
			if len(hs[i].it.Text) != len(hs[j].it.Text) {
				return len(hs[i].it.Text) < len(hs[j].it.Text)
			}
			return hs[i].it.idx < hs[j].it.idx
		})
	}

	// cross-validation against the real toolchain
	var xr *crossResult
	if !*nocross {
		var fails []sample
		for _, s := range sigs {
			h := bySig[s][0]
			fails = append(fails, sample{it: h.it, mask: h.masks[0], expectOK: false, sig: s})
		}
		xr = e.crossCheck(items, fails, run.Thorough())
		if len(xr.Disagreements) > 0 {
			fmt.Fprintf(os.Stderr, "scratch modules kept in %s\n", xr.Root)
			for _, d := range xr.Disagreements {
				fmt.Fprintln(os.Stderr, d)
			}
			vlib.Fatal("the in-process type checker and the real toolchain disagree on %d of %d (schema, options) pairs: the checker model is not validated; no verdict", len(xr.Disagreements), xr.Checked)
		}
		os.RemoveAll(xr.Root)
	}
	cleanup()

	for _, s := range sigs {
		hs := bySig[s]
		w := hs[0]
		var notes []string
		seen := map[string]bool{}
		for _, h := range hs {
			if !seen[h.it.Note] {
				seen[h.it.Note] = true
				notes = append(notes, h.it.Note)
			}
		}
		optDesc := "under every option set"
		if len(w.masks) != w.accepts {
			var on []string
			for _, m := range w.masks {
				on = append(on, driver.OptName(m))
			}
			optDesc = fmt.Sprintf("under %d of %d option sets (%s)", len(w.masks), w.accepts, vlib.Short(strings.Join(on, " "), 160))
		}
		msg := fmt.Sprintf("%d accepted schema(s) of this class generate Go that does not compile, %s. Witness (%s; PackageName=%q; options %s): first of %d compiler error(s), %s: %s. Cases: %s",
			len(hs), optDesc, w.it.Note, w.it.Pkg, driver.OptName(w.masks[0]), w.first.NErrs, w.first.Where, strings.Join(w.first.Errs, " ; "), vlib.Short(strings.Join(notes, "; "), 400))
		if *groups {
			fmt.Printf("SIG %s (x%d)\n    %s\n", s, len(hs), msg)
			fmt.Printf("    schema: %q\n", vlib.Short(w.it.Text, 600))
		}
		for i, h := range hs {
			if i == 0 {
				run.Report(s, msg, caseMap(h))
			} else {
				run.Report(s, "", caseMap(h))
			}
		}
	}

	// coverage
	cov := run.Coverage
	cov["states"] = states
	cov["transitions"] = e.gens + e.checks
	cov["generate_calls"] = e.gens
	cov["type_checks"] = e.checks
	cov["evaluations"] = states
	cov["distinct_nontrivial"] = len(distinctAccepted)
	cov["schemas_enumerated"] = len(items)
	cov["failing_pairs"] = func() int {
		n := 0
		for _, h := range hits {
			n += len(h.masks)
		}
		return n
	}()
	cov["failing_schemas"] = func() int {
		n := 0
		for _, ps := range stats {
			n += ps.SchemasFailing
		}
		return n
	}()
	cov["distinct_failure_signatures_before_known_findings"] = len(sigs)
	parts := map[string]any{}
	for _, p := range partOrder {
		ps := stats[p]
		if ps == nil {
			continue
		}
		parts[p] = map[string]any{
			"schemas": ps.Schemas, "schemas_accepted": ps.Accepted, "schemas_rejected": ps.Rejected, "schemas_accepted_under_some_options_only": ps.Mixed,
			"schemas_failing_to_compile": ps.SchemasFailing, "class_positions": len(ps.Classes),
			"pairs_judged": ps.Pairs, "pairs_accepted": ps.PairsAccepted, "pairs_failing": ps.PairsFailing,
			"rejected_by_class": ps.RejectedClasses,
		}
		// vacuity guard: a part whose hazards the compiler mostly refuses tests nothing
		if ps.Accepted*2 < ps.Schemas {
			run.Assume = append(run.Assume, fmt.Sprintf("WARNING: alphabet part %s: only %d of %d schemas accepted", p, ps.Accepted, ps.Schemas))
		}
	}
	cov["alphabet_parts"] = parts
	cov["rejections_by_phase"] = rejectReasons.Top(40)
	cov["quick_tier_items_refined_to_32_option_sets"] = refined
	if xr != nil {
		cov["traces_validated_against_impl"] = xr.Checked
		cov["go_build_crosscheck"] = map[string]any{
			"checked": xr.Checked, "agreed": xr.Agreed, "passing_pairs_checked": xr.PassChecked, "passing_pairs_total": xr.PassTotal,
			"failing_signatures_checked": xr.FailChecked, "modules": xr.Modules, "go_build_s": xr.BuildSeconds, "go_vet_s": xr.VetSeconds,
			"go_vet_packages_with_findings": xr.VetPackages, "go_vet_finding_kinds": xr.VetKinds,
		}
	} else {
		cov["traces_validated_against_impl"] = 0
	}
	if run.Thorough() {
		cov["rule"] = "state = one (schema, option set) pair, option set = the 5 boolean GenerateSettings (32), plus PackageName source and import mode where they apply; every schema of the alphabet (part 1: every shape x context case of schema.Support.Cases(thorough) alone with the support definitions; part 2: identifier / string / const / package-name / enum / opcode / union / sequence / import generators of cmd/c12/alphabet.go) is judged under all 32 option sets; transitions = Generate calls + type-checks; distinct_nontrivial = distinct accepted (schema text, PackageName setting, import mode) inputs"
	} else {
		cov["rule"] = "state = one (schema, option set) pair; part 1: every case of schema.Support.Cases(quick) under option sets {none, all, ptr+unsafe, private+shared}, a reduced subset (depth<=1 shapes over 12 leaves, specials) under all 32, and every case whose verdict differs among the four under all 32; part 2 (alphabet.go generators): every schema under all 32; transitions = Generate calls + type-checks; distinct_nontrivial = distinct accepted (schema text, PackageName setting, import mode) inputs"
	}
	cov["explanation"] = "each pair runs the real ReadFile+Generate of the working tree; the verdict is go/parser + go/types over the emitted file against bebop and iohelp type-checked from the working tree (unused variables and imports count as errors); rejected schemas assert nothing and are counted"
	run.Assume = append(run.Assume,
		"compiles = parses and type-checks as one package (go/types); validated against `go build` on the stratified subset reported under go_build_crosscheck",
		"separate import mode: the imported file is generated with the importer's option set (class importee-same-options) or with all options off (importee-default-options)",
		"a file whose package clause is `package main` is accepted although `go build` wants a func main",
	)
	// samples
	nS := 0
	for _, it := range items {
		if nS >= 10 {
			break
		}
		if it.idx%97 == 3 || (it.Part == "import" && nS < 9 && it.idx%41 == 0) {
			o := e.results[it.idx][0]
			run.Sample(map[string]any{"part": it.Part, "class": it.Class, "position": it.Pos, "hazard": it.Note, "schema": vlib.Short(it.Text, 300), "verdict_opts_none": o.key(), "errors": o.Errs, "rejected_because": vlib.Short(o.RejMsg, 200)})
			nS++
		}
	}
	pprof.StopCPUProfile()
	run.Finish()
}
