package main

// Alphabet of C12: every schema the check judges is produced here, deterministically and
// exhaustively within the stated bounds (no sampling). Part 1 re-uses the shape/context
// enumerator of the codec checks; part 2 covers what that enumerator does not: identifiers,
// string contents, consts, enums, opcodes, unions, definition sequences, imports, package names.

import (
	"fmt"
	"sort"
	"strings"

	"verif/schema"
)

type depFile struct {
	File string `json:"file"`       // relative file name of the imported schema
	Path string `json:"go_package"` // its go_package (import path of its generated package)
}

type item struct {
	Part  string            // shape | ident | string | const | pkgname | enum | opcode | union | seq | import
	Class string            // hazard / shape class (stable, never a generated identifier)
	Pos   string            // position of the hazard ("" for shapes: the context is part of the class)
	Note  string            // human description (the concrete identifier / literal), messages only
	Text  string            // entry schema text
	Files map[string]string // further files (imports), by relative name
	Deps  []depFile         // separate mode: imported files, deepest first
	Pkg   string            // GenerateSettings.PackageName ("" = take go_package)
	Mode  int               // 0 separate, 1 combined
	// DepOpts: how the imported files are generated in separate mode: "public" = the importer's option set without
	// PrivateDefinitions (the configuration the generator documents), "same" = exactly the importer's option set,
	// "none" = all options off.
	DepOpts string
	Wide    bool // judged under all 32 option sets even in the quick tier
	Control bool // no hazard: must be accepted and must compile (guards the generators themselves)

	idx int
	dir string
}

func (it *item) sigPrefix() string {
	s := "C12|" + it.Part + "|" + it.Class
	if it.Pos != "" {
		s += "|" + it.Pos
	}
	return s
}

const defaultPkg = "gen"

// ---------------------------------------------------------------------------------------------
// part 1: shapes x contexts (schema.Support)

func shapeItems(thorough bool) []*item {
	sup := schema.NewSupport()
	var out []*item
	wideLeaves := map[string]bool{"int32": true, "string": true, "byte": true, "date": true, "guid": true, "EnU16": true, "EnI64": true,
		"SupFixed": true, "SupVar": true, "SupMsg": true, "SupUnion": true, "SupRO": true}
	for _, c := range sup.Cases(thorough) {
		it := &item{Part: "shape", Class: c.Class, Note: c.ID, Pkg: defaultPkg,
			Text: sup.BatchSchema([]*schema.Case{c}).Render()}
		// reduced subset judged under all 32 option sets in the quick tier: every context, shapes of depth <= 1
		// over 12 representative leaves, and all specials / pairs of simple types
		if c.Shape != nil && c.Shape.Depth() <= 1 {
			l := c.Shape
			for l.Elem != nil {
				l = l.Elem
			}
			if wideLeaves[l.Name] && (c.Shape.Kind != schema.MapT || c.Shape.Key == "string" || c.Shape.Key == "uint32" || c.Shape.Key == "date") {
				it.Wide = true
			}
		}
		if c.Ctx == "X" {
			it.Wide = true
		}
		out = append(out, it)
	}
	return out
}

// ---------------------------------------------------------------------------------------------
// part 2a: identifiers

type identClass struct {
	class string
	names []string
}

// bebop keywords (struct message enum union const readonly import map array deprecated opcode flags inf nan
// true false) cannot be identifiers and are left out.
var identClasses = []identClass{
	{"plain", []string{"alpha", "Alpha", "zqValue"}},
	{"lowercase-initial", []string{"alpha", "zqValue", "x"}},
	{"go-keyword", []string{"type", "func", "range", "chan", "var", "go", "select", "default", "interface", "package", "return",
		"switch", "case", "else", "fallthrough", "for", "goto", "if", "break", "continue", "defer"}},
	{"go-keyword-capitalized", []string{"Type", "Func", "Range", "Map", "Struct", "Const", "Import", "Go", "If", "For", "Var", "Return", "Default"}},
	{"go-predeclared", []string{"string", "len", "error", "int", "byte", "bool", "nil", "append", "make", "new", "copy", "cap", "panic",
		"iota", "any", "uint32", "int64", "float64", "print", "uint8"}},
	{"go-predeclared-capitalized", []string{"String", "Len", "Error", "Int", "Byte", "Bool", "Nil", "Make", "New", "Uint32", "True", "Append"}},
	{"gen-local", []string{"buf", "at", "bbp", "err", "r", "w", "i", "i1", "i2", "i3", "elem", "tmp", "ln1", "ln2", "la1", "la2", "v", "v1", "k1", "v2", "k2",
		"iow", "ior", "bodyLen", "baseReader", "limitReader"}},
	{"gen-local-capitalized", []string{"Buf", "At", "Bbp", "Err", "R", "W", "I", "Elem", "Tmp", "V", "V1", "K1", "BodyLen"}},
	{"gen-method", []string{"Size", "MarshalBebop", "MarshalBebopTo", "UnmarshalBebop", "MustUnmarshalBebop", "EncodeBebop", "DecodeBebop"}},
	{"gen-method-lower", []string{"size", "marshalBebop", "marshalBebopTo", "unmarshalBebop", "mustUnmarshalBebop", "encodeBebop", "decodeBebop"}},
	{"import-name", []string{"io", "time", "math", "iohelp", "bebop"}},
	{"import-name-capitalized", []string{"Io", "Time", "Math", "Iohelp", "Bebop"}},
	{"underscore-digit", []string{"a_b", "a1", "A_", "x__y", "a_", "A1_2"}},
	{"non-ascii", []string{"é", "Ω", "éa", "aé", "Aé", "Ωmega", "naïve", "Naïve", "Éa", "日本"}},
}

type identPos struct {
	pos string
	// ref: other generated code names the hazard identifier as a TYPE. Today a type whose schema name starts with a
	// lower-case letter is declared under its exposed name but referenced under its schema name (root cause
	// "lowercase-initial"), so lower-case hazard names are placed at referencing positions only through that class;
	// their capitalised variants (which the private option turns into the lower-case spelling) go everywhere.
	ref  bool
	tmpl func(n string) string
}

// Companion names start with Zq/zq so that they never collide with a hazard name.
var identPositions = []identPos{
	{"struct-name", false, func(n string) string { return "struct " + n + " {\n\tint32 zqa;\n\tstring zqs;\n}\n" }},
	{"struct-name:referenced", true, func(n string) string {
		return "struct " + n + " {\n\tint32 zqa;\n\tstring zqs;\n}\nstruct ZqUser {\n\t" + n + " zqf;\n\tarray[" + n + "] zql;\n\tmap[string, " + n + "] zqm;\n}\nmessage ZqUserM {\n\t1 -> " + n + " zqf;\n}\n"
	}},
	{"readonly-struct-name", false, func(n string) string { return "readonly struct " + n + " {\n\tint32 zqa;\n\tstring zqs;\n}\n" }},
	{"readonly-struct-name:referenced", true, func(n string) string {
		return "readonly struct " + n + " {\n\tint32 zqa;\n\tstring zqs;\n}\nstruct ZqUser {\n\t" + n + " zqf;\n}\n"
	}},
	{"message-name", false, func(n string) string { return "message " + n + " {\n\t1 -> int32 zqa;\n\t2 -> string zqs;\n}\n" }},
	{"message-name:referenced", true, func(n string) string {
		return "message " + n + " {\n\t1 -> int32 zqa;\n\t2 -> string zqs;\n}\nstruct ZqUser {\n\t" + n + " zqf;\n\tarray[" + n + "] zql;\n}\n"
	}},
	{"union-name", false, func(n string) string {
		return "union " + n + " {\n\t1 -> struct ZqBrA {\n\t\tint32 zqa;\n\t}\n\t2 -> message ZqBrB {\n\t\t1 -> string zqs;\n\t}\n}\n"
	}},
	{"union-name:referenced", true, func(n string) string {
		return "union " + n + " {\n\t1 -> struct ZqBrA {\n\t\tint32 zqa;\n\t}\n\t2 -> message ZqBrB {\n\t\t1 -> string zqs;\n\t}\n}\nstruct ZqUser {\n\t" + n + " zqf;\n}\n"
	}},
	// a union always names its branch records as types
	{"union-branch-struct-name", true, func(n string) string {
		return "union ZqU {\n\t1 -> struct " + n + " {\n\t\tint32 zqa;\n\t}\n\t2 -> message ZqBrB {\n\t\t1 -> string zqs;\n\t}\n}\n"
	}},
	{"union-branch-message-name", true, func(n string) string {
		return "union ZqU {\n\t1 -> struct ZqBrA {\n\t\tint32 zqa;\n\t}\n\t2 -> message " + n + " {\n\t\t1 -> string zqs;\n\t}\n}\n"
	}},
	{"struct-field", false, func(n string) string {
		return "struct ZqS {\n\tint32 " + n + ";\n\tarray[string] zql;\n\tmap[string, int32] zqm;\n}\n"
	}},
	{"readonly-struct-field", false, func(n string) string {
		return "readonly struct ZqS {\n\tint32 " + n + ";\n\tarray[string] zql;\n\tmap[string, int32] zqm;\n}\n"
	}},
	{"message-field", false, func(n string) string {
		return "message ZqM {\n\t1 -> int32 " + n + ";\n\t2 -> array[string] zql;\n\t3 -> map[string, int32] zqm;\n}\n"
	}},
	{"union-branch-struct-field", false, func(n string) string {
		return "union ZqU {\n\t1 -> struct ZqBrA {\n\t\tint32 " + n + ";\n\t\tarray[string] zql;\n\t}\n}\n"
	}},
	{"union-branch-message-field", false, func(n string) string {
		return "union ZqU {\n\t1 -> message ZqBrB {\n\t\t1 -> int32 " + n + ";\n\t\t2 -> array[string] zql;\n\t}\n}\n"
	}},
	{"enum-name", false, func(n string) string { return "enum " + n + " {\n\tZqA = 1;\n\tZqB = 2;\n}\n" }},
	{"enum-name:referenced", true, func(n string) string {
		return "enum " + n + " {\n\tZqA = 1;\n\tZqB = 2;\n}\nstruct ZqUser {\n\t" + n + " zqf;\n\tmap[string, " + n + "] zqm;\n}\nmessage ZqUserM {\n\t1 -> " + n + " zqf;\n}\n"
	}},
	{"enum-member", false, func(n string) string {
		return "enum ZqE {\n\t" + n + " = 1;\n\tZqB = 2;\n}\nstruct ZqUser {\n\tZqE zqf;\n}\n"
	}},
	{"const-name", false, func(n string) string {
		return "const int32 " + n + " = 1;\nconst string zqc = \"x\";\nstruct ZqS {\n\tint32 zqa;\n}\n"
	}},
}

func startsLowerASCII(n string) bool { return n != "" && n[0] >= 'a' && n[0] <= 'z' }

func identItems() []*item {
	var out []*item
	for _, cl := range identClasses {
		for _, n := range cl.names {
			for _, p := range identPositions {
				lower := cl.class == "lowercase-initial"
				if lower && !p.ref {
					continue // this class exists only at referencing positions
				}
				if !lower && p.ref && startsLowerASCII(n) {
					continue // see identPos.ref
				}
				out = append(out, &item{Part: "ident", Class: cl.class, Pos: p.pos, Note: "identifier " + n, Text: p.tmpl(n), Pkg: defaultPkg,
					Wide: true, Control: cl.class == "plain"})
			}
		}
	}
	add := func(class, pos, note, text string) {
		out = append(out, &item{Part: "ident", Class: class, Pos: pos, Note: note, Text: text, Pkg: defaultPkg, Wide: true})
	}
	// names that collide only after exposeName / unexposeName
	for _, pr := range [][2]string{{"foo", "Foo"}, {"Foo", "foo"}} {
		a, b := pr[0], pr[1]
		note := "names " + a + " and " + b
		add("expose-collision", "struct-field", note, "struct ZqS {\n\tint32 "+a+";\n\tstring "+b+";\n}\n")
		add("expose-collision", "readonly-struct-field", note, "readonly struct ZqS {\n\tint32 "+a+";\n\tstring "+b+";\n}\n")
		add("expose-collision", "message-field", note, "message ZqM {\n\t1 -> int32 "+a+";\n\t2 -> string "+b+";\n}\n")
		add("expose-collision", "union-branch-struct-field", note, "union ZqU {\n\t1 -> struct ZqBrA {\n\t\tint32 "+a+";\n\t\tstring "+b+";\n\t}\n}\n")
		add("expose-collision", "struct-name", note, "struct "+a+" {\n\tint32 zqa;\n}\nstruct "+b+" {\n\tstring zqs;\n}\n")
		add("expose-collision", "struct-name+message-name", note, "struct "+a+" {\n\tint32 zqa;\n}\nmessage "+b+" {\n\t1 -> string zqs;\n}\n")
		add("expose-collision", "message-name+union-name", note, "message "+a+" {\n\t1 -> int32 zqa;\n}\nunion "+b+" {\n\t1 -> struct ZqBrA {\n\t\tint32 zqa;\n\t}\n}\n")
		add("expose-collision", "union-branch-name", note, "union ZqU {\n\t1 -> struct "+a+" {\n\t\tint32 zqa;\n\t}\n\t2 -> message "+b+" {\n\t\t1 -> string zqs;\n\t}\n}\n")
		add("expose-collision", "enum-name", note, "enum "+a+" {\n\tZqA = 1;\n}\nenum "+b+" {\n\tZqB = 1;\n}\n")
		add("expose-collision", "enum-name+struct-name", note, "enum "+a+" {\n\tZqA = 1;\n}\nstruct "+b+" {\n\tint32 zqa;\n}\n")
		add("expose-collision", "enum-member", note, "enum ZqE {\n\t"+a+" = 1;\n\t"+b+" = 2;\n}\n")
		add("expose-collision", "const-name", note, "const int32 "+a+" = 1;\nconst int32 "+b+" = 2;\n")
		add("expose-collision", "const-name+struct-name", note, "const int32 "+a+" = 1;\nstruct "+b+" {\n\tint32 zqa;\n}\n")
	}
	// a member named like its container
	add("self-name", "struct-field", "field S in struct S", "struct ZqS {\n\tint32 ZqS;\n}\n")
	add("self-name", "struct-field", "field s in struct S (differs in first letter case)", "struct ZqS {\n\tint32 zqS;\n}\n")
	add("self-name", "struct-field", "field of the record's own type name and type", "struct ZqT {\n\tint32 zqa;\n}\nstruct ZqS {\n\tZqT ZqT;\n}\n")
	add("self-name", "readonly-struct-field", "field S in readonly struct S", "readonly struct ZqS {\n\tint32 ZqS;\n}\n")
	add("self-name", "readonly-struct-field", "field s in readonly struct s", "readonly struct zqS {\n\tint32 zqS;\n}\n")
	add("self-name", "message-field", "field M in message M", "message ZqM {\n\t1 -> int32 ZqM;\n}\n")
	add("self-name", "message-field", "field of the message's own type (recursive)", "message ZqM {\n\t1 -> ZqM ZqM;\n}\n")
	add("self-name", "enum-member", "member E of enum E", "enum ZqE {\n\tZqE = 1;\n}\n")
	add("self-name", "union-branch-name", "branch struct named like its union", "union ZqU {\n\t1 -> struct ZqU {\n\t\tint32 zqa;\n\t}\n}\n")
	add("self-name", "union-branch-field", "branch field named like the branch", "union ZqU {\n\t1 -> struct ZqBrA {\n\t\tint32 ZqBrA;\n\t}\n}\n")
	// names of generated package-level functions / constants of ANOTHER definition in the same file
	base := map[string]string{
		"struct":          "struct ZqS {\n\tint32 x;\n}\n",
		"readonly-struct": "readonly struct ZqS {\n\tint32 x;\n}\n",
		"opcode-struct":   "[opcode(0x11)]\nstruct ZqS {\n\tint32 x;\n}\n",
		"message":         "message ZqS {\n\t1 -> int32 x;\n}\n",
	}
	baseOrder := []string{"struct", "readonly-struct", "opcode-struct", "message"}
	type fam struct {
		class string
		names []string
		bases []string
	}
	fams := []fam{
		{"gen-func-MakeT", []string{"MakeZqS", "makeZqS"}, baseOrder},
		{"gen-func-MakeTFromBytes", []string{"MakeZqSFromBytes", "makeZqSFromBytes"}, []string{"struct", "message"}},
		{"gen-func-MustMakeTFromBytes", []string{"MustMakeZqSFromBytes", "mustMakeZqSFromBytes"}, []string{"struct", "message"}},
		{"gen-func-NewT", []string{"NewZqS", "newZqS"}, []string{"readonly-struct", "struct"}},
		{"gen-const-TOpCode", []string{"ZqSOpCode", "zqSOpCode"}, []string{"opcode-struct", "struct"}},
	}
	defs := []struct {
		pos  string
		tmpl func(n string) string
	}{
		{"struct-name", func(n string) string { return "struct " + n + " {\n\tint32 zqa;\n}\n" }},
		{"message-name", func(n string) string { return "message " + n + " {\n\t1 -> int32 zqa;\n}\n" }},
		{"union-branch-name", func(n string) string { return "union ZqU {\n\t1 -> struct " + n + " {\n\t\tint32 zqa;\n\t}\n}\n" }},
		{"enum-name", func(n string) string { return "enum " + n + " {\n\tZqA = 1;\n}\n" }},
		{"const-name", func(n string) string { return "const int32 " + n + " = 1;\n" }},
	}
	for _, f := range fams {
		for _, n := range f.names {
			for _, b := range f.bases {
				for _, d := range defs {
					if d.pos == "union-branch-name" && startsLowerASCII(n) {
						continue // see identPos.ref
					}
					add(f.class, d.pos, fmt.Sprintf("%s next to %s ZqS", n, b), base[b]+d.tmpl(n))
				}
			}
		}
	}
	// getters of readonly structs: Get<Field>
	for _, pr := range [][2]string{{"x", "GetX"}, {"x", "getX"}, {"X", "GetX"}, {"x", "Getx"}} {
		note := "fields " + pr[0] + " and " + pr[1]
		add("gen-func-GetF", "readonly-struct-field", note, "readonly struct ZqS {\n\tint32 "+pr[0]+";\n\tstring "+pr[1]+";\n}\n")
		add("gen-func-GetF", "struct-field", note, "struct ZqS {\n\tint32 "+pr[0]+";\n\tstring "+pr[1]+";\n}\n")
	}
	// enum member constants are <Enum>_<Member>
	for _, n := range []string{"ZqE_A", "zqE_A"} {
		for _, d := range defs {
			if d.pos == "union-branch-name" && startsLowerASCII(n) {
				continue // see identPos.ref
			}
			add("gen-const-E_M", d.pos, n+" next to enum ZqE { A }", "enum ZqE {\n\tA = 1;\n}\n"+d.tmpl(n))
		}
	}
	add("gen-const-E_M", "enum-name+enum-member", "enums ZqE{A_B} and ZqE_A{B}", "enum ZqE {\n\tA_B = 1;\n}\nenum ZqE_A {\n\tB = 1;\n}\n")
	// names Validate does not compare with each other
	add("cross-kind-dup", "const-name+struct-name", "const and struct of one name", "const int32 ZqS = 1;\nstruct ZqS {\n\tint32 zqa;\n}\n")
	add("cross-kind-dup", "const-name+enum-name", "const and enum of one name", "const int32 ZqE = 1;\nenum ZqE {\n\tA = 1;\n}\n")
	add("cross-kind-dup", "union-branch-name+struct-name", "union branch named like a top-level struct", "struct ZqS {\n\tint32 zqa;\n}\nunion ZqU {\n\t1 -> struct ZqS {\n\t\tstring zqs;\n\t}\n}\n")
	add("cross-kind-dup", "union-branch-name+message-name", "union branch named like a top-level message", "message ZqS {\n\t1 -> int32 zqa;\n}\nunion ZqU {\n\t1 -> message ZqS {\n\t\t1 -> string zqs;\n\t}\n}\n")
	add("cross-kind-dup", "union-branch-name+enum-name", "union branch named like an enum", "enum ZqS {\n\tA = 1;\n}\nunion ZqU {\n\t1 -> struct ZqS {\n\t\tstring zqs;\n\t}\n}\n")
	add("cross-kind-dup", "union-branch-name+union-branch-name", "two unions with a branch of one name", "union ZqU {\n\t1 -> struct ZqBr {\n\t\tint32 zqa;\n\t}\n}\nunion ZqV {\n\t1 -> struct ZqBr {\n\t\tint32 zqa;\n\t}\n}\n")
	add("cross-kind-dup", "union-branch-type-as-field", "union branch type used as a field type elsewhere", "union ZqU {\n\t1 -> struct ZqBr {\n\t\tint32 zqa;\n\t}\n}\nstruct ZqS {\n\tZqBr zqf;\n}\n")
	return out
}

// ---------------------------------------------------------------------------------------------
// part 2b: string contents

type strHazard struct {
	class string
	body  string // text between the quotes / after the comment opener
}

// contents of string literals ([deprecated("...")], const string)
var literalHazards = []strHazard{
	{"plain", "hello world"}, {"empty", ""}, {"esc-quote", `a\"b`}, {"esc-backslash", `a\\b`}, {"esc-backslash-last", `ab\\`},
	{"esc-n", `a\nb`}, {"esc-r", `a\rb`}, {"esc-t", `a\tb`}, {"esc-x41", `a\x41b`}, {"esc-x00", `a\x00b`}, {"esc-xff", `a\xffb`},
	{"esc-u00e9", `a\u00e9b`}, {"esc-U", `a\U0001F600b`}, {"esc-octal", `a\101b`}, {"esc-0", `a\0b`}, {"esc-single-quote", `a\'b`},
	{"esc-unknown", `a\qb`}, {"esc-e", `a\eb`}, {"esc-n-last", `ab\n`}, {"esc-n-first", `\nab`},
	{"non-ascii", "aéΩ日b"}, {"raw-newline", "a\nb"}, {"raw-crlf", "a\r\nb"}, {"raw-tab", "a\tb"}, {"raw-cr", "a\rb"},
	{"back-quote", "a`b"}, {"star-slash", "a*/b"}, {"slash-star", "a/*b"}, {"slash-slash", "a//b"}, {"percent", "100%d %s %ASGN %!"},
	{"raw-nul", "a\x00b"}, {"raw-invalid-utf8", "a\xffb"}, {"raw-bom", "a\uFEFFb"}, {"single-quote", "a'b"},
}

// contents of // comments (rest of line)
var lineCommentHazards = []strHazard{
	{"plain", " hello world"}, {"empty", ""}, {"backslash-last", ` ends in a backslash \`}, {"star-slash", " a*/b"}, {"slash-star", " a /* b"},
	{"back-quote", " a`b"}, {"non-ascii", " aéΩ日b"}, {"quote", ` a"b`}, {"raw-tab", " a\tb"}, {"esc-n", ` a\nb`}, {"raw-cr", " a\rb"},
	{"tag-like-unquoted", `[tag(db:unquoted)]`}, {"tag-like-empty", `[tag()]`}, {"percent", " 100%d %s %ASGN %!"}, {"extra-slash", "/ doc"},
	{"raw-nul", " a\x00b"}, {"raw-invalid-utf8", " a\xffb"}, {"raw-bom", " a\uFEFFb"}, {"go-directive-generate", "go:generate echo"}, {"go-directive-noinline", "go:noinline"}, {"go-directive-embed", "go:embed x.txt"}, {"go-directive-build", "go:build ignore"}, {"go-directive-linkname", "go:linkname a b"}, {"go-directive-nosplit-with-text", "go:nosplit because"}, {"go-directive-cgo", "go:cgo_ldflag \"-lfoo\""}, {"go-directive-systemstack", "go:systemstack"}, {"go-directive-unknown-verb", "go:noinlinex"}, {"go-directive-after-space", " go:noinline"}, {"line-directive", "line other.go:1"}, {"only-spaces", "   "},
}

// contents of /* */ comments
var blockCommentHazards = []strHazard{
	{"plain", " hello world "}, {"empty", ""}, {"multi-line", "\n * first\n * second\n "}, {"slash-slash", " a // b "}, {"slash-star", " a /* b "},
	{"back-quote", " a`b "}, {"non-ascii", " aéΩ日b "}, {"raw-crlf", " a\r\n b "}, {"backslash-last", ` ends in a backslash \`}, {"percent", " 100%d %s %ASGN %! "},
	{"raw-nul", " a\x00b "}, {"raw-invalid-utf8", " a\xffb "}, {"raw-bom", " a\uFEFFb "}, {"quote", ` a"b `}, {"star", "*"}, {"blank-line-inside", " a\n\n b "},
	{"tag-like-line", "\n[tag(json:\"x\")]\n"}, {"go-directive-noinline", "go:noinline"}, {"go-directive-noinline-second-line", " doc\ngo:noinline\n"},
}

// the text inside //[tag( ... )]
var tagHazards = []strHazard{
	{"plain", `json:"x"`}, {"omitempty", `json:"x,omitempty"`}, {"boolean", `flag`}, {"empty-value", `json:""`}, {"value-back-quote", "json:\"a`b\""},
	{"value-esc-quote", `json:"a\"b"`}, {"value-esc-n", `json:"a\nb"`}, {"value-non-ascii", `json:"aéb"`}, {"value-colons", `json:"more colons::"`},
	{"key-space", `a b`}, {"key-back-quote", "a`b"}, {"key-quote", `a"b`}, {"key-empty", `:"x"`}, {"key-non-ascii", `é:"x"`}, {"value-percent", `json:"%d%s"`},
	{"value-esc-x00", `json:"a\x00b"`}, {"key-paren", `a)]`},
}

// definition kinds a doc comment / attribute can precede. attr is inserted on its own line(s).
var commentSites = []struct {
	pos  string
	tmpl func(attr func(indent string) string) string
}{
	{"enum", func(a func(string) string) string { return a("") + "enum ZqE {\n\tA = 1;\n}\n" }},
	{"struct", func(a func(string) string) string { return a("") + "struct ZqS {\n\tint32 zqa;\n}\n" }},
	{"readonly-struct", func(a func(string) string) string { return a("") + "readonly struct ZqS {\n\tint32 zqa;\n}\n" }},
	{"message", func(a func(string) string) string { return a("") + "message ZqM {\n\t1 -> int32 zqa;\n}\n" }},
	{"union", func(a func(string) string) string {
		return a("") + "union ZqU {\n\t1 -> struct ZqBrA {\n\t\tint32 zqa;\n\t}\n}\n"
	}},
	{"const", func(a func(string) string) string {
		return a("") + "const int32 zqc = 1;\nstruct ZqS {\n\tint32 zqa;\n}\n"
	}},
	{"struct-field", func(a func(string) string) string {
		return "struct ZqS {\n" + a("\t") + "\tint32 zqa;\n\tstring zqs;\n}\n"
	}},
	{"readonly-struct-field", func(a func(string) string) string {
		return "readonly struct ZqS {\n" + a("\t") + "\tint32 zqa;\n\tstring zqs;\n}\n"
	}},
	{"message-field", func(a func(string) string) string {
		return "message ZqM {\n" + a("\t") + "\t1 -> int32 zqa;\n\t2 -> string zqs;\n}\n"
	}},
	{"enum-member", func(a func(string) string) string {
		return "enum ZqE {\n" + a("\t") + "\tA = 1;\n\tB = 2;\n}\nstruct ZqS {\n\tZqE zqf;\n}\n"
	}},
	{"union-branch", func(a func(string) string) string {
		return "union ZqU {\n" + a("\t") + "\t1 -> struct ZqBrA {\n\t\tint32 zqa;\n\t}\n\t2 -> message ZqBrB {\n\t\t1 -> string zqs;\n\t}\n}\n"
	}},
	{"union-branch-field", func(a func(string) string) string {
		return "union ZqU {\n\t1 -> struct ZqBrA {\n" + a("\t\t") + "\t\tint32 zqa;\n\t}\n\t2 -> message ZqBrB {\n" + a("\t\t") + "\t\t1 -> string zqs;\n\t}\n}\n"
	}},
}

var deprecatedSites = map[string]bool{"struct-field": true, "message-field": true, "enum-member": true, "union-branch": true, "union-branch-field": true, "readonly-struct-field": true}
var tagSites = map[string]bool{"struct-field": true, "message-field": true, "union-branch": true, "union-branch-field": true, "readonly-struct-field": true}

func stringItems() []*item {
	var out []*item
	add := func(class, pos, note, text string) {
		out = append(out, &item{Part: "string", Class: class, Pos: pos, Note: note, Text: text, Pkg: defaultPkg, Wide: true, Control: class == "plain"})
	}
	for _, site := range commentSites {
		for _, h := range lineCommentHazards {
			h := h
			add(h.class, "line-comment:"+site.pos, fmt.Sprintf("comment //%q", h.body), site.tmpl(func(ind string) string { return ind + "//" + h.body + "\n" }))
		}
		for _, h := range blockCommentHazards {
			h := h
			add(h.class, "block-comment:"+site.pos, fmt.Sprintf("comment /*%q*/", h.body), site.tmpl(func(ind string) string { return ind + "/*" + h.body + "*/\n" }))
		}
		if deprecatedSites[site.pos] {
			for _, h := range literalHazards {
				h := h
				add(h.class, "deprecated-message:"+site.pos, fmt.Sprintf("[deprecated(\"%s\")] (bytes %q)", h.body, h.body), site.tmpl(func(ind string) string { return ind + "[deprecated(\"" + h.body + "\")]\n" }))
			}
		}
		if tagSites[site.pos] {
			for _, h := range tagHazards {
				h := h
				add(h.class, "tag-comment:"+site.pos, fmt.Sprintf("//[tag(%s)]", h.body), site.tmpl(func(ind string) string { return ind + "//[tag(" + h.body + ")]\n" }))
			}
			add("two-tags", "tag-comment:"+site.pos, "two tags and a doc comment", site.tmpl(func(ind string) string {
				return ind + "// doc\n" + ind + "//[tag(json:\"x\")]\n" + ind + "//[tag(db:\"y\")]\n"
			}))
		}
		// a comment and a deprecation together, comment on the same line as the definition
		add("same-line-block-comment", "block-comment:"+site.pos, "/* c */ directly before the definition on one line", site.tmpl(func(ind string) string { return ind + "/* c */ " }))
	}
	for _, h := range literalHazards {
		add(h.class, "const-string", fmt.Sprintf("const string = \"%s\" (bytes %q)", h.body, h.body), "const string zqc = \""+h.body+"\";\nstruct ZqS {\n\tint32 zqa;\n}\n")
		add(h.class, "const-string:alone", fmt.Sprintf("const string = \"%s\" (bytes %q), no records", h.body, h.body), "const string zqc = \""+h.body+"\";\n")
	}
	// end-of-line comments and comments in odd places
	add("end-of-line", "line-comment:struct-field", "comment after a field", "struct ZqS {\n\tint32 zqa; // trailing */ `\n\tstring zqs; /* trailing */\n}\n")
	add("end-of-line", "line-comment:const", "comment after a const", "const int32 zqc = 1; // trailing\nstruct ZqS {\n\tint32 zqa;\n}\n")
	add("end-of-file", "line-comment:file", "comment as the last line without newline", "struct ZqS {\n\tint32 zqa;\n}\n// the end")
	// CRLF line ends over a schema that has every kind of definition, comment and attribute
	all := "// doc of enum\nenum ZqE {\n\t// doc of member\n\t[deprecated(\"old member\")]\n\tA = 1;\n\tB = 2;\n}\n" +
		"/* block doc */\n[opcode(\"ABCD\")]\nstruct ZqS {\n\t// doc of field\n\t//[tag(json:\"a\")]\n\tint32 zqa;\n\tZqE zqe;\n\tmap[string, array[int32]] zqm;\n}\n" +
		"const string zqc = \"text\";\nconst float64 zqinf = inf;\n" +
		"message ZqM {\n\t/* multi\n\t   line */\n\t[deprecated(\"old field\")]\n\t1 -> int32 zqa;\n\t2 -> string zqs;\n}\n" +
		"union ZqU {\n\t// doc of branch\n\t1 -> struct ZqBrA {\n\t\tint32 zqa;\n\t}\n\t[deprecated(\"old branch\")]\n\t2 -> message ZqBrB {\n\t\t1 -> string zqs;\n\t}\n}\n"
	add("lf", "whole-file", "control: every definition kind with comments and attributes, LF line ends", all)
	out[len(out)-1].Control = true
	add("crlf", "whole-file", "the same schema with CRLF line ends", strings.ReplaceAll(all, "\n", "\r\n"))
	add("no-final-newline", "whole-file", "the same schema without the final newline", strings.TrimSuffix(all, "\n"))
	add("tabs-and-spaces", "whole-file", "the same schema with trailing blanks on every line", strings.ReplaceAll(all, "\n", " \t\n"))
	return out
}

// ---------------------------------------------------------------------------------------------
// part 2c: consts and package names

func constItems() []*item {
	var out []*item
	add := func(class, pos, note, text string) {
		out = append(out, &item{Part: "const", Class: class, Pos: pos, Note: note, Text: text, Pkg: defaultPkg, Wide: true})
	}
	type form struct{ name, lit string }
	widths := map[string]int{"byte": 8, "uint8": 8, "uint16": 16, "uint32": 32, "uint64": 64, "int16": 16, "int32": 32, "int64": 64}
	intForms := func(t string) []form {
		w := widths[t]
		fs := []form{{"zero", "0"}, {"decimal", "7"}, {"hex", "0x1F"}, {"hex-upper-x", "0X1F"}, {"negative", "-5"}, {"negative-hex", "-0x10"},
			{"u64-max", "18446744073709551615"}, {"i64-min", "-9223372036854775808"}, {"beyond-64-bit", "18446744073709551616"}, {"beyond-64-bit-negative", "-9223372036854775809"},
			{"exponent", "1e3"}, {"leading-zero-octal", "017"}, {"leading-zero-not-octal", "089"}, {"double-exponent", "1e2e3"}, {"float-literal", "1.5"},
			{"hex-with-e", "0x1e3"}, {"trailing-e", "1e"}, {"minus-zero", "-0"}, {"long-zeros", "0000000000000000000000001"}}
		if strings.HasPrefix(t, "int") {
			fs = append(fs, form{"width-min", fmt.Sprint(-(int64(1) << (w - 1)))}, form{"width-max", fmt.Sprint(int64(1)<<(w-1) - 1)})
			if w < 64 {
				fs = append(fs, form{"width-max+1", fmt.Sprint(int64(1) << (w - 1))}, form{"width-min-1", fmt.Sprint(-(int64(1) << (w - 1)) - 1)})
			}
		} else {
			fs = append(fs, form{"width-max", fmt.Sprint(^uint64(0) >> (64 - w))})
			if w < 64 {
				fs = append(fs, form{"width-max+1", fmt.Sprint(uint64(1) << w)})
			}
		}
		return fs
	}
	floatForms := []form{{"integer", "1"}, {"negative-integer", "-3"}, {"decimal", "1.5"}, {"negative-decimal", "-1.5"}, {"exponent", "1e3"}, {"decimal-exponent", "1.5e3"},
		{"negative-exponent", "1.5e-3"}, {"negative-both", "-1.5e-3"}, {"plus-exponent", "1.5e+3"}, {"leading-zero", "0.5"}, {"no-leading-digit", ".5"}, {"no-trailing-digit", "1."},
		{"inf", "inf"}, {"negative-inf", "-inf"}, {"nan", "nan"}, {"huge-exponent", "1e400"}, {"enormous-exponent", "1e999999999"}, {"hex", "0x10"}, {"leading-zeros-decimal", "089.5"},
		{"double-exponent", "1.5e2e3"}, {"exponent-then-point", "1e3.5"}, {"upper-e", "1E3"}, {"leading-zero-integer", "089"}, {"many-digits", "3.14159265358979323846264338327950288419716939937510"},
		{"negative-nan", "-nan"}, {"plus-inf", "+inf"}}
	withRec := "struct ZqS {\n\tint32 zqa;\n}\n"
	emit := func(tclass, t string, f form) {
		line := "const " + t + " zqc = " + f.lit + ";\n"
		add(tclass+":"+f.name, "alone", "const "+t+" = "+f.lit+" (no records in the file)", line)
		add(tclass+":"+f.name, "with-record", "const "+t+" = "+f.lit, line+withRec)
	}
	for _, t := range []string{"byte", "uint8", "uint16", "uint32", "uint64"} {
		for _, f := range intForms(t) {
			emit("uint", t, f)
		}
	}
	for _, t := range []string{"int16", "int32", "int64"} {
		for _, f := range intForms(t) {
			emit("int", t, f)
		}
	}
	for _, t := range []string{"float32", "float64"} {
		for _, f := range floatForms {
			emit("float", t, f)
		}
	}
	for _, f := range []form{{"true", "true"}, {"false", "false"}, {"capitalized", "True"}, {"integer", "1"}} {
		emit("bool", "bool", f)
	}
	for _, f := range []form{{"dashes", `"e2722bf7-022a-496a-9f01-7029d7d5563d"`}, {"no-dashes", `"e2722bf7022a496a9f017029d7d5563d"`}, {"upper-case", `"E2722BF7-022A-496A-9F01-7029D7D5563D"`},
		{"braces", `"{e2722bf7-022a-496a-9f01-7029d7d5563d}"`}, {"not-hex", `"zzzzzzzz-zzzz-zzzz-zzzz-zzzzzzzzzzzz"`}, {"escapes", `"\x41\x41\x41\x41\x41\x41\x41\x41"`},
		{"esc-unknown", `"\q\q\q\q\q\q\q\q\q\q\q\q\q\q\q\q"`}, {"raw-newlines", "\"e2722bf7-022a-496a\n9f01-7029d7d5563d-\""}, {"too-short", `"e2722bf7"`}} {
		emit("guid", "guid", f)
	}
	emit("string", "string", form{"plain", `"text"`})
	emit("date", "date", form{"string-literal", `"2020-01-01"`})
	emit("date", "date", form{"integer", `0`})
	// several consts: the const block and the var block of inf/nan values together
	add("mixed:const-and-var-blocks", "alone", "ordinary and inf/nan consts in one file", "const int32 a = 1;\nconst float32 b = inf;\nconst float64 c = -inf;\nconst float64 d = nan;\nconst string e = \"x\";\nconst bool f = true;\nconst guid g = \"e2722bf7-022a-496a-9f01-7029d7d5563d\";\n")
	add("mixed:const-and-var-blocks", "with-record", "ordinary and inf/nan consts next to a record using date", "const int32 a = 1;\nconst float32 b = inf;\nconst float64 d = nan;\nstruct ZqS {\n\tdate zqd;\n}\n")
	add("mixed:only-var-block", "alone", "only inf/nan consts", "const float32 b = inf;\nconst float64 d = nan;\n")
	add("mixed:only-var-block", "with-record", "only inf/nan consts next to a record", "const float32 b = inf;\n"+withRec)
	add("mixed:all-types", "with-record", "one const of every primitive type that allows consts", "const byte c1 = 1;\nconst uint8 c2 = 2;\nconst uint16 c3 = 3;\nconst uint32 c4 = 4;\nconst uint64 c5 = 5;\nconst int16 c6 = -6;\nconst int32 c7 = -7;\nconst int64 c8 = -8;\nconst float32 c9 = 9.5;\nconst float64 c10 = 1e10;\nconst bool c11 = false;\nconst string c12 = \"s\";\nconst guid c13 = \"e2722bf7022a496a9f017029d7d5563d\";\n"+withRec)
	add("mixed:const-uses-math-name", "alone", "an ordinary const named math next to an inf const", "const int32 math = 1;\nconst float64 b = inf;\n")
	return out
}

func pkgnameItems() []*item {
	var out []*item
	add := func(class, pos, note, text, pkg string) {
		out = append(out, &item{Part: "pkgname", Class: class, Pos: pos, Note: note, Text: text, Pkg: pkg, Wide: true})
	}
	rec := "struct ZqS {\n\tint32 zqa;\n\tdate zqd;\n}\n"
	gp := func(v string) string { return "const string go_package = \"" + v + "\";\n" }
	for _, v := range []struct{ class, val string }{
		{"plain-path", "example.com/x/genpkg"}, {"single-element", "genpkg"}, {"empty", ""}, {"trailing-slash", "example.com/x/genpkg/"}, {"only-slash", "/"},
		{"dash", "example.com/x/gen-pkg"}, {"dot", "example.com/x/gen.pkg"}, {"go-keyword", "example.com/x/go"}, {"keyword-type", "example.com/x/type"}, {"leading-digit", "example.com/x/1abc"},
		{"space", "example.com/x/gen pkg"}, {"version-suffix", "example.com/x/v2"}, {"main", "example.com/x/main"}, {"non-ascii", "example.com/x/géné"}, {"underscore", "example.com/x/_"},
		{"predeclared-string", "example.com/x/string"}, {"named-io", "example.com/x/io"}, {"named-iohelp", "example.com/x/iohelp"}, {"named-bebop", "example.com/x/bebop"}, {"named-time", "example.com/x/time"},
		{"named-like-record", "example.com/x/ZqS"}, {"esc-in-path", `example.com/x/gen\x41`}, {"dot-dot", "example.com/x/.."}, {"upper-case", "example.com/x/GenPkg"},
	} {
		add("go_package:"+v.class, "from-const", fmt.Sprintf("go_package = %q, PackageName unset", v.val), gp(v.val)+rec, "")
		add("go_package:"+v.class, "setting-wins", fmt.Sprintf("go_package = %q, PackageName = %q", v.val, defaultPkg), gp(v.val)+rec, defaultPkg)
		add("go_package:"+v.class, "from-const:no-records", fmt.Sprintf("go_package = %q, PackageName unset, no records", v.val), gp(v.val), "")
	}
	add("go_package:absent", "from-const", "neither go_package nor PackageName", rec, "")
	add("go_package:absent", "setting-wins", "only PackageName", rec, defaultPkg)
	out[len(out)-1].Control = true
	add("go_package:not-a-string", "from-const", "const int32 go_package", "const int32 go_package = 3;\n"+rec, "")
	add("go_package:not-a-string", "setting-wins", "const int32 go_package with PackageName", "const int32 go_package = 3;\n"+rec, defaultPkg)
	add("go_package:after-records", "from-const", "go_package declared after the records", rec+gp("example.com/x/genpkg"), "")
	add("go_package:with-doc-comment", "from-const", "go_package with a doc comment", "// the package\n"+gp("example.com/x/genpkg")+rec, "")
	// the part-1 support schema with the package taken from go_package (the other PackageName source over a large file)
	sup := schema.NewSupport()
	cs := sup.Cases(false)
	var pick []*schema.Case
	for _, c := range cs {
		if c.Ctx == "X" || (c.Shape != nil && c.Shape.Depth() == 0 && c.Ctx == "S") {
			pick = append(pick, c)
		}
	}
	for _, c := range pick {
		add("go_package:plain-path", "from-const:"+c.Class, "part-1 case "+c.ID+" with the package name taken from go_package", gp("example.com/x/genpkg")+sup.BatchSchema([]*schema.Case{c}).Render(), "")
	}
	return out
}

// ---------------------------------------------------------------------------------------------
// part 2d: enums

func enumItems() []*item {
	var out []*item
	add := func(class, pos, note, text string) {
		out = append(out, &item{Part: "enum", Class: class, Pos: pos, Note: note, Text: text, Pkg: defaultPkg, Wide: true})
	}
	user := "struct ZqS {\n\tZqE zqf;\n\tmap[string, ZqE] zqm;\n}\nmessage ZqM {\n\t1 -> ZqE zqf;\n}\n"
	bases := []string{"", "byte", "uint8", "uint16", "uint32", "uint64", "int16", "int32", "int64"}
	for _, b := range bases {
		bn, head := b, "enum ZqE : "+b+" {\n"
		if b == "" {
			bn, head = "default", "enum ZqE {\n"
		}
		signed := strings.HasPrefix(b, "int")
		w := 32
		switch b {
		case "byte", "uint8":
			w = 8
		case "uint16", "int16":
			w = 16
		case "uint64", "int64":
			w = 64
		}
		var min, max string
		if signed {
			min, max = fmt.Sprint(-(int64(1) << (w - 1))), fmt.Sprint(int64(1)<<(w-1)-1)
		} else {
			min, max = "0", fmt.Sprint(^uint64(0)>>(64-w))
		}
		forms := []struct{ name, body, pre string }{
			{"plain", "\tA = 1;\n\tB = 2;\n", ""},
			{"empty", "", ""},
			{"single-member", "\tA = 0;\n", ""},
			{"min-max", "\tLo = " + min + ";\n\tHi = " + max + ";\n", ""},
			{"hex", "\tA = 0x1;\n\tB = 0x7f;\n", ""},
			{"deprecated-member", "\t[deprecated(\"use B\")]\n\tA = 1;\n\tB = 2;\n", ""},
			{"doc-comments", "\t// doc A\n\tA = 1;\n\t/* doc B */\n\tB = 2;\n", "// doc of the enum\n"},
			{"flags", "\tNone = 0;\n\tA = 1;\n\tB = 2;\n\tC = 1 << 2;\n\tAB = A | B;\n\tAll = A | B | C;\n\tMasked = All & 6;\n\tShr = 64 >> 2;\n\tParen = (1 << 3) | (1 << 4);\n", "[flags]\n"},
			{"flags-deprecated-doc", "\t// doc\n\t[deprecated(\"x\")]\n\tA = 1;\n\tB = 1 << 1;\n", "// doc\n[flags]\n"},
			{"flags-top-bit", "\tTop = 1 << " + fmt.Sprint(w-1) + ";\n", "[flags]\n"},
		}
		if signed {
			forms = append(forms, struct{ name, body, pre string }{"negative", "\tA = -1;\n\tB = -2;\n", ""})
		}
		for _, f := range forms {
			text := f.pre + head + f.body + "}\n"
			add(bn+":"+f.name, "unused", "enum over "+bn+" ("+f.name+"), no record uses it", text)
			add(bn+":"+f.name, "used", "enum over "+bn+" ("+f.name+") used as struct field, map value and message field", text+user)
		}
	}
	add("two-enums:same-member-names", "used", "two enums with the same member names", "enum ZqE {\n\tA = 1;\n}\nenum ZqF {\n\tA = 1;\n}\n"+user)
	add("enum-only-file", "unused", "a file of three enums and nothing else", "enum ZqE {\n\tA = 1;\n}\n[flags]\nenum ZqF : uint64 {\n\tA = 1;\n}\nenum ZqG : int16 {\n\tA = -1;\n}\n")
	return out
}

// ---------------------------------------------------------------------------------------------
// part 2e: opcodes

func opcodeItems() []*item {
	var out []*item
	add := func(class, pos, note, text string) {
		out = append(out, &item{Part: "opcode", Class: class, Pos: pos, Note: note, Text: text, Pkg: defaultPkg, Wide: true})
	}
	kinds := []struct{ pos, def string }{
		{"struct", "struct ZqS {\n\tint32 zqa;\n}\n"},
		{"empty-struct", "struct ZqS {\n}\n"},
		{"readonly-struct", "readonly struct ZqS {\n\tint32 zqa;\n}\n"},
		{"message", "message ZqS {\n\t1 -> int32 zqa;\n}\n"},
		{"union", "union ZqS {\n\t1 -> struct ZqBrA {\n\t\tint32 zqa;\n\t}\n}\n"},
		{"empty-union", "union ZqS {\n}\n"},
		{"enum", "enum ZqS {\n\tA = 1;\n}\n"},
	}
	forms := []struct{ class, lit string }{
		{"decimal", "1"}, {"zero", "0"}, {"hex", "0x12345678"}, {"max-hex", "0xffffffff"}, {"max-decimal", "4294967295"}, {"beyond-32-bit", "4294967296"}, {"negative", "-1"},
		{"string", `"ABCD"`}, {"string-spaces", `"    "`}, {"string-esc-quote-inside", `"a\"bc"`}, {"string-trailing-esc-quote", `"abc\""`}, {"string-leading-esc-quote", `"\"abc"`},
		{"string-non-ascii", `"éab"`}, {"string-3-chars", `"ABC"`}, {"string-5-chars", `"ABCDE"`}, {"string-esc-n", `"ab\n"`}, {"string-back-quote", "\"a`bc\""}, {"string-empty", `""`},
		{"octal-looking", "017"}, {"float", "1.5"},
	}
	for _, k := range kinds {
		for _, f := range forms {
			add(f.class, k.pos, "[opcode("+f.lit+")] on "+k.pos, "[opcode("+f.lit+")]\n"+k.def)
		}
		add("same-line", k.pos, "[opcode(7)] on the line of the definition", "[opcode(7)] "+k.def)
		add("with-doc-comment", k.pos, "doc comment, then [opcode(7)]", "// doc\n[opcode(7)]\n"+k.def)
		add("doc-comment-after-opcode", k.pos, "[opcode(7)], then a doc comment", "[opcode(7)]\n// doc\n"+k.def)
	}
	add("two-records", "struct+message", "two records with different opcodes", "[opcode(1)]\nstruct ZqS {\n\tint32 zqa;\n}\n[opcode(2)]\nmessage ZqM {\n\t1 -> int32 zqa;\n}\n")
	add("two-records-same-opcode", "struct+message", "two records with one opcode", "[opcode(1)]\nstruct ZqS {\n\tint32 zqa;\n}\n[opcode(1)]\nmessage ZqM {\n\t1 -> int32 zqa;\n}\n")
	add("opcode-and-name-differing-in-case", "struct+struct", "records zqS and ZqS both with opcodes", "[opcode(1)]\nstruct ZqS {\n\tint32 zqa;\n}\n[opcode(2)]\nstruct zqT {\n\tint32 zqa;\n}\n")
	add("on-union-branch", "union-branch", "[opcode(1)] before a union branch", "union ZqU {\n\t[opcode(1)]\n\t1 -> struct ZqBrA {\n\t\tint32 zqa;\n\t}\n}\n")
	add("on-const", "const", "[opcode(1)] before a const", "[opcode(1)]\nconst int32 zqc = 1;\n")
	return out
}

// ---------------------------------------------------------------------------------------------
// part 2f: unions, empty records, wide records, sequences of records in one file

func unionItems() []*item {
	var out []*item
	add := func(class, pos, note, text string) {
		out = append(out, &item{Part: "union", Class: class, Pos: pos, Note: note, Text: text, Pkg: defaultPkg, Wide: true})
	}
	st := func(n string, body string) string { return "struct " + n + " {\n" + body + "\t}\n" }
	ms := func(n string, body string) string { return "message " + n + " {\n" + body + "\t}\n" }
	sBody, mBody := "\t\tint32 zqa;\n\t\tstring zqs;\n", "\t\t1 -> int32 zqa;\n\t\t2 -> string zqs;\n"
	mk := func(i int, kind string, empty bool) string {
		n := fmt.Sprintf("ZqBr%d", i)
		sb, mb := sBody, mBody
		if empty {
			sb, mb = "", ""
		}
		if kind == "s" {
			return st(n, sb)
		}
		return ms(n, mb)
	}
	// 0..3 branches, every kind combination, with populated and with empty branch records
	for n := 0; n <= 3; n++ {
		combos := 1 << n
		for c := 0; c < combos; c++ {
			for _, empty := range []bool{false, true} {
				if n == 0 && empty {
					continue
				}
				var kinds []string
				text := "union ZqU {\n"
				for i := 0; i < n; i++ {
					k := "s"
					if c&(1<<i) != 0 {
						k = "m"
					}
					kinds = append(kinds, k)
					text += fmt.Sprintf("\t%d -> ", i+1) + mk(i, k, empty)
				}
				text += "}\n"
				class := fmt.Sprintf("branches-%d:%s", n, strings.Join(kinds, ""))
				if n == 0 {
					class = "branches-0"
				}
				if empty {
					class += ":empty-records"
				}
				add(class, "union", "union with "+fmt.Sprint(n)+" branches", text)
				add(class, "union-used", "the same union used as struct field, array element, map value and message field", text+"struct ZqS {\n\tZqU zqf;\n\tarray[ZqU] zql;\n\tmap[string, ZqU] zqm;\n}\nmessage ZqM {\n\t1 -> ZqU zqf;\n}\n")
			}
		}
	}
	add("discriminators:sparse", "union", "discriminators 1, 7, 255", "union ZqU {\n\t1 -> "+mk(1, "s", false)+"\t7 -> "+mk(2, "m", false)+"\t255 -> "+mk(3, "s", true)+"}\n")
	add("discriminators:zero", "union", "discriminator 0", "union ZqU {\n\t0 -> "+mk(1, "s", false)+"\t1 -> "+mk(2, "m", false)+"}\n")
	add("discriminators:descending", "union", "discriminators written 3, 2, 1", "union ZqU {\n\t3 -> "+mk(1, "s", false)+"\t2 -> "+mk(2, "m", false)+"\t1 -> "+mk(3, "s", false)+"}\n")
	add("discriminators:256", "union", "discriminator 256", "union ZqU {\n\t256 -> "+mk(1, "s", false)+"}\n")
	add("deprecated-branch", "union", "deprecated branches", "union ZqU {\n\t[deprecated(\"old\")]\n\t1 -> "+mk(1, "s", false)+"\t[deprecated(\"older\")]\n\t2 -> "+mk(2, "m", false)+"\t3 -> "+mk(3, "s", false)+"}\n")
	add("branch-doc-and-tags", "union", "documented and tagged branches", "union ZqU {\n\t// doc\n\t//[tag(json:\"a\")]\n\t1 -> "+mk(1, "s", false)+"\t/* block */\n\t2 -> "+mk(2, "m", false)+"}\n")
	add("readonly-branch", "union", "readonly struct as branch", "union ZqU {\n\t1 -> readonly struct ZqBr1 {\n\t\tint32 zqa;\n\t}\n}\n")
	add("self-reference:message-branch", "union", "union refers to itself through a message branch", "union ZqU {\n\t1 -> message ZqBr1 {\n\t\t1 -> ZqU inner;\n\t\t2 -> array[ZqU] kids;\n\t}\n\t2 -> struct ZqBr2 {\n\t\tint32 zqa;\n\t}\n}\n")
	add("self-reference:struct-branch", "union", "union refers to itself through a struct branch", "union ZqU {\n\t1 -> struct ZqBr1 {\n\t\tZqU inner;\n\t}\n\t2 -> struct ZqBr2 {\n\t\tint32 zqa;\n\t}\n}\n")
	add("self-reference:struct-branch-array", "union", "union refers to itself through an array in a struct branch", "union ZqU {\n\t1 -> struct ZqBr1 {\n\t\tarray[ZqU] kids;\n\t\tmap[string, ZqU] named;\n\t}\n}\n")
	add("mutual-reference:message-union", "union", "a message and a union refer to each other", "message ZqM {\n\t1 -> ZqU u;\n\t2 -> array[ZqM] more;\n}\nunion ZqU {\n\t1 -> message ZqBr1 {\n\t\t1 -> ZqM m;\n\t}\n\t2 -> struct ZqBr2 {\n\t\tZqM m;\n\t}\n}\n")
	add("mutual-reference:union-union", "union", "two unions refer to each other", "union ZqU {\n\t1 -> message ZqBr1 {\n\t\t1 -> ZqV v;\n\t}\n}\nunion ZqV {\n\t1 -> message ZqBr2 {\n\t\t1 -> ZqU u;\n\t}\n}\n")
	add("mutual-reference:message-message", "record", "two messages refer to each other", "message ZqM {\n\t1 -> ZqN n;\n}\nmessage ZqN {\n\t1 -> ZqM m;\n\t2 -> map[string, ZqM] ms;\n}\n")
	add("forward-reference", "record", "a struct uses types defined later in the file", "struct ZqS {\n\tZqT t;\n\tZqE e;\n\tZqM m;\n\tZqU u;\n}\nstruct ZqT {\n\tint32 zqa;\n}\nenum ZqE {\n\tA = 1;\n}\nmessage ZqM {\n\t1 -> int32 zqa;\n}\nunion ZqU {\n\t1 -> struct ZqBr1 {\n\t}\n}\n")
	add("branch-uses-sibling-branch", "union", "a branch field typed as another branch of the same union", "union ZqU {\n\t1 -> struct ZqBr1 {\n\t\tint32 zqa;\n\t}\n\t2 -> message ZqBr2 {\n\t\t1 -> ZqBr1 b;\n\t}\n}\n")
	add("branch-uses-undefined-type", "union", "a branch struct field of an undefined type", "union ZqU {\n\t1 -> struct ZqBr1 {\n\t\tZqNowhere zqa;\n\t}\n}\n")
	add("branch-message-uses-undefined-type", "union", "a branch message field of an undefined type", "union ZqU {\n\t1 -> message ZqBr1 {\n\t\t1 -> ZqNowhere zqa;\n\t}\n}\n")
	add("empty-struct", "record", "struct without fields", "struct ZqS {\n}\nstruct ZqUser {\n\tZqS f;\n\tarray[ZqS] l;\n\tmap[string, ZqS] m;\n}\nmessage ZqUserM {\n\t1 -> ZqS f;\n\t2 -> array[ZqS] l;\n}\n")
	add("empty-readonly-struct", "record", "readonly struct without fields", "readonly struct ZqS {\n}\n")
	add("empty-message", "record", "message without fields", "message ZqM {\n}\nstruct ZqUser {\n\tZqM f;\n\tarray[ZqM] l;\n\tmap[string, ZqM] m;\n}\n")
	add("empty-everything", "record", "one empty definition of every kind", "struct ZqS {\n}\nmessage ZqM {\n}\nunion ZqU {\n}\nenum ZqE {\n}\n")
	add("empty-file", "file", "an empty schema", "")
	add("comment-only-file", "file", "a schema of one comment", "// nothing here\n")
	// wide records
	prims := schema.Primitives
	var s20, m20, ro20 strings.Builder
	s20.WriteString("struct ZqWide {\n")
	ro20.WriteString("readonly struct ZqWideRO {\n")
	m20.WriteString("message ZqWideM {\n")
	for i := 0; i < 20; i++ {
		t := prims[i%len(prims)]
		switch {
		case i >= 17:
			t = "map[" + prims[i%len(prims)] + ", array[string]]"
		case i >= 14:
			t = "array[" + prims[i%len(prims)] + "]"
		}
		fmt.Fprintf(&s20, "\t%s f%d;\n", t, i)
		fmt.Fprintf(&ro20, "\t%s f%d;\n", t, i)
		fmt.Fprintf(&m20, "\t%d -> %s f%d;\n", i*13+1, strings.Replace(t, ", array[string]]", ", string]", 1), i)
	}
	s20.WriteString("}\n")
	ro20.WriteString("}\n")
	m20.WriteString("}\n")
	add("20-fields", "struct", "struct with 20 fields", s20.String())
	add("20-fields", "readonly-struct", "readonly struct with 20 fields", ro20.String())
	add("20-fields", "message", "message with 20 fields, indices up to 248", m20.String())
	var u20 strings.Builder
	u20.WriteString("union ZqWideU {\n")
	for i := 0; i < 20; i++ {
		fmt.Fprintf(&u20, "\t%d -> %s", i+1, mk(i, []string{"s", "m"}[i%2], i%3 == 0))
	}
	u20.WriteString("}\n")
	add("20-branches", "union", "union with 20 branches", u20.String())
	add("message-index:0", "message", "message field index 0", "message ZqM {\n\t0 -> int32 zqa;\n\t1 -> string zqs;\n}\n")
	add("message-index:255", "message", "message field index 255", "message ZqM {\n\t255 -> int32 zqa;\n}\n")
	add("message-index:descending", "message", "message fields written 3, 2, 1", "message ZqM {\n\t3 -> int32 c;\n\t2 -> string b;\n\t1 -> array[string] a;\n}\n")
	add("deprecated-struct-field", "struct", "deprecated field in a struct", "struct ZqS {\n\t[deprecated(\"old\")]\n\tint32 zqa;\n\tstring zqs;\n}\n")
	add("deprecated-all-message-fields", "message", "every field of a message deprecated", "message ZqM {\n\t[deprecated(\"a\")]\n\t1 -> int32 zqa;\n\t[deprecated(\"b\")]\n\t2 -> map[string, string] zqm;\n\t[deprecated(\"c\")]\n\t3 -> array[ZqM] zql;\n}\n")
	return out
}

// seqRecords are records whose generated code draws on the file-wide length-name counters
// (lnN / laN, isFirstTopLength). All are shapes that compile on their own.
var seqRecords = []struct {
	label string
	tmpl  string // %s = suffix making the names unique
}{
	{"struct:map", "struct R1%[1]s {\n\tmap[string, int32] m;\n}\n"},
	{"struct:two-maps", "struct R2%[1]s {\n\tmap[string, int32] m;\n\tmap[uint32, string] n;\n\tint32 after;\n}\n"},
	{"struct:array-of-map", "struct R3%[1]s {\n\tarray[map[string, string]] am;\n}\n"},
	{"struct:map-of-array", "struct R4%[1]s {\n\tmap[uint32, array[string]] ma;\n\tarray[string] l;\n}\n"},
	{"message:map", "message R5%[1]s {\n\t1 -> map[string, int32] m;\n\t2 -> map[guid, string] n;\n}\n"},
	{"message:array", "message R6%[1]s {\n\t1 -> array[string] l;\n\t2 -> array[byte] b;\n}\n"},
	{"union:maps-in-branches", "union R7%[1]s {\n\t1 -> struct R7A%[1]s {\n\t\tmap[string, int32] m;\n\t\tarray[int32] l;\n\t}\n\t2 -> message R7B%[1]s {\n\t\t1 -> map[string, string] m;\n\t}\n}\n"},
	{"readonly-struct:map+array", "readonly struct R8%[1]s {\n\tmap[string, int32] m;\n\tarray[string] l;\n}\n"},
	{"struct:array-of-array", "struct R9%[1]s {\n\tarray[array[int32]] aa;\n\tarray[array[string]] as;\n}\n"},
	{"struct:fixed", "struct R10%[1]s {\n\tint32 a;\n\tguid g;\n}\n"},
	{"struct:empty", "struct R11%[1]s {\n}\n"},
	{"message:maps+array-of-struct", "struct R12E%[1]s {\n\tint32 a;\n}\nmessage R12%[1]s {\n\t1 -> map[string, R12E%[1]s] m;\n\t2 -> array[R12E%[1]s] l;\n\t3 -> map[int32, int32] n;\n}\n"},
	{"struct:map-of-map", "struct R13%[1]s {\n\tmap[string, map[string, int32]] mm;\n\tmap[string, int32] m;\n}\n"},
}

func seqItems() []*item {
	var out []*item
	add := func(class, pos, note, text string) {
		out = append(out, &item{Part: "seq", Class: class, Pos: pos, Note: note, Text: text, Pkg: defaultPkg, Wide: true})
	}
	for _, a := range seqRecords {
		add(a.label, "single", "record alone", fmt.Sprintf(a.tmpl, "A"))
	}
	for _, a := range seqRecords {
		for _, b := range seqRecords {
			add(a.label+"+"+b.label, "pair", "two records in this order in one file", fmt.Sprintf(a.tmpl, "A")+fmt.Sprintf(b.tmpl, "B"))
		}
	}
	tri := []int{0, 1, 4, 6, 7, 12}
	for _, a := range tri {
		for _, b := range tri {
			for _, c := range tri {
				add(seqRecords[a].label+"+"+seqRecords[b].label+"+"+seqRecords[c].label, "triple", "three records in this order in one file",
					fmt.Sprintf(seqRecords[a].tmpl, "A")+fmt.Sprintf(seqRecords[b].tmpl, "B")+fmt.Sprintf(seqRecords[c].tmpl, "C"))
			}
		}
	}
	return out
}

// ---------------------------------------------------------------------------------------------
// part 2g: imports

const impRoot = "c12.test"

func importItems() []*item {
	var out []*item
	k := 0
	// depText is the imported file; its package path is unique per item so that a stale registration can never satisfy an import.
	depDefs := "enum ImpEnum {\n\tA = 1;\n\tB = 2;\n}\nstruct ImpFixed {\n\tint32 a;\n}\nstruct ImpVar {\n\tstring s;\n}\nreadonly struct ImpRO {\n\tint32 a;\n}\nmessage ImpMsg {\n\t1 -> int32 a;\n}\nunion ImpUnion {\n\t1 -> struct ImpUA {\n\t\tint32 a;\n\t}\n\t2 -> message ImpUB {\n\t\t1 -> string s;\n\t}\n}\n"
	gp := func(p string) string { return "const string go_package = \"" + p + "\";\n" }
	newItem := func(class, pos, note, main string, files map[string]string, deps []depFile, mode int, depOpts, pkg string) *item {
		it := &item{Part: "import", Class: class, Pos: pos, Note: note, Text: main, Files: files, Deps: deps, Mode: mode, DepOpts: depOpts, Pkg: pkg, Wide: true}
		out = append(out, it)
		return it
	}
	types := []struct{ name, label string }{{"ImpEnum", "enum"}, {"ImpFixed", "struct:fixed"}, {"ImpVar", "struct:var"}, {"ImpRO", "struct:readonly"}, {"ImpMsg", "message"}, {"ImpUnion", "union"}}
	sites := []struct {
		pos  string
		tmpl func(t string) string
	}{
		{"struct-field", func(t string) string { return "struct ZqS {\n\tint32 bait;\n\t" + t + " f;\n\tint32 after;\n}\n" }},
		{"struct-array-elem", func(t string) string { return "struct ZqS {\n\tarray[" + t + "] f;\n}\n" }},
		{"struct-map-value", func(t string) string { return "struct ZqS {\n\tmap[string, " + t + "] f;\n}\n" }},
		{"readonly-struct-field", func(t string) string { return "readonly struct ZqS {\n\t" + t + " f;\n}\n" }},
		{"message-field", func(t string) string { return "message ZqM {\n\t1 -> " + t + " f;\n}\n" }},
		{"message-array-elem", func(t string) string { return "message ZqM {\n\t1 -> array[" + t + "] f;\n}\n" }},
		{"message-map-value", func(t string) string { return "message ZqM {\n\t1 -> map[uint32, " + t + "] f;\n}\n" }},
		{"union-branch-struct-field", func(t string) string { return "union ZqU {\n\t1 -> struct ZqBrA {\n\t\t" + t + " f;\n\t}\n}\n" }},
		{"union-branch-message-field", func(t string) string { return "union ZqU {\n\t1 -> message ZqBrB {\n\t\t1 -> " + t + " f;\n\t}\n}\n" }},
	}
	for _, t := range types {
		for _, s := range sites {
			body := s.tmpl(t.name)
			for _, v := range []struct {
				label   string
				mode    int
				depOpts string
			}{{"separate", 0, "public"}, {"combined", 1, ""}} {
				k++
				p := fmt.Sprintf("%s/i%d/dep", impRoot, k)
				files := map[string]string{"dep.bop": gp(p) + depDefs}
				var deps []depFile
				if v.mode == 0 {
					deps = []depFile{{"dep.bop", p}}
				}
				newItem(v.label+":"+t.label, s.pos, "imported "+t.name+" used as "+s.pos, "import \"./dep.bop\"\n"+body, files, deps, v.mode, v.depOpts, defaultPkg)
			}
		}
	}
	// special import situations
	spDepOpts := "public"
	sp := func(class, pos, note, main string, files map[string]string, depNames []string, mode int, pkg string) {
		k++
		var deps []depFile
		nf := map[string]string{}
		for n, t := range files {
			nf[n] = strings.ReplaceAll(t, "$K", fmt.Sprint(k))
		}
		if mode == 0 {
			for _, n := range depNames {
				// go_package of that file
				t := nf[n]
				i := strings.Index(t, "go_package = \"")
				if i < 0 {
					continue
				}
				rest := t[i+len("go_package = \""):]
				deps = append(deps, depFile{n, rest[:strings.Index(rest, "\"")]})
			}
		}
		depOpts := ""
		if mode == 0 {
			depOpts = spDepOpts
		}
		newItem(class, pos, note, strings.ReplaceAll(main, "$K", fmt.Sprint(k)), nf, deps, mode, depOpts, pkg)
	}
	dep := gp(impRoot+"/i$K/dep") + depDefs
	// option sets of importer and importee that differ (separate mode only). The generator documents that an imported
	// package is assumed not to be private; unsafe methods of the importee are called when the importer is unsafe.
	allTypes := "import \"./dep.bop\"\nstruct ZqS {\n\tImpEnum e;\n\tImpFixed f;\n\tImpVar v;\n\tImpRO r;\n\tImpMsg m;\n\tImpUnion u;\n\tarray[ImpFixed] l;\n}\nmessage ZqM {\n\t1 -> ImpFixed f;\n\t2 -> ImpEnum e;\n}\n"
	spDepOpts = "same"
	sp("separate:importee-generated-with-importer-options-incl-private", "struct-field", "imported file generated with exactly the importer's options (also private)", allTypes, map[string]string{"dep.bop": dep}, []string{"dep.bop"}, 0, defaultPkg)
	spDepOpts = "none"
	sp("separate:importee-generated-with-default-options", "struct-field", "imported file generated with all options off", allTypes, map[string]string{"dep.bop": dep}, []string{"dep.bop"}, 0, defaultPkg)
	spDepOpts = "public"
	for mode, mname := range []string{"separate", "combined"} {
		sp(mname+":import-unused", "file", "an import none of whose types is used", "import \"./dep.bop\"\nstruct ZqS {\n\tint32 a;\n}\n", map[string]string{"dep.bop": dep}, []string{"dep.bop"}, mode, defaultPkg)
		sp(mname+":import-only", "file", "a file that only imports", "import \"./dep.bop\"\n", map[string]string{"dep.bop": dep}, []string{"dep.bop"}, mode, defaultPkg)
		sp(mname+":all-imported-types", "struct-field", "every imported definition used in one struct", "import \"./dep.bop\"\nstruct ZqS {\n\tImpEnum e;\n\tImpFixed f;\n\tImpVar v;\n\tImpRO r;\n\tImpMsg m;\n\tImpUnion u;\n\tarray[ImpFixed] l;\n\tmap[string, array[ImpMsg]] mm;\n}\n", map[string]string{"dep.bop": dep}, []string{"dep.bop"}, mode, defaultPkg)
		sp(mname+":package-from-go_package", "struct-field", "importer takes its package name from its own go_package", gp(impRoot+"/i$K/top")+"import \"./dep.bop\"\nstruct ZqS {\n\tImpFixed f;\n}\n", map[string]string{"dep.bop": dep}, []string{"dep.bop"}, mode, "")
		sp(mname+":importer-has-go_package-and-setting", "struct-field", "importer has go_package and PackageName", gp(impRoot+"/i$K/top")+"import \"./dep.bop\"\nstruct ZqS {\n\tImpFixed f;\n}\n", map[string]string{"dep.bop": dep}, []string{"dep.bop"}, mode, defaultPkg)
		sp(mname+":importee-without-go_package", "struct-field", "imported file has no go_package", "import \"./dep.bop\"\nstruct ZqS {\n\tImpFixed f;\n}\n", map[string]string{"dep.bop": depDefs}, nil, mode, defaultPkg)
		sp(mname+":transitive", "struct-field", "a imports b imports c; a uses types of b and c", "import \"./b.bop\"\nstruct ZqS {\n\tBType b;\n\tCType c;\n}\n",
			map[string]string{"b.bop": gp(impRoot+"/i$K/bpkg") + "import \"./c.bop\"\nstruct BType {\n\tCType c;\n}\n", "c.bop": gp(impRoot+"/i$K/cpkg") + "struct CType {\n\tint32 a;\n}\n"}, []string{"c.bop", "b.bop"}, mode, defaultPkg)
		sp(mname+":transitive-only-deep-type", "struct-field", "a imports b imports c; a uses only a type of c", "import \"./b.bop\"\nstruct ZqS {\n\tCType c;\n}\n",
			map[string]string{"b.bop": gp(impRoot+"/i$K/bpkg") + "import \"./c.bop\"\nstruct BType {\n\tCType c;\n}\n", "c.bop": gp(impRoot+"/i$K/cpkg") + "struct CType {\n\tint32 a;\n}\n"}, []string{"c.bop", "b.bop"}, mode, defaultPkg)
		// package names in a prefix / suffix / case relation: which imports the output needs is decided by name matching
		for _, pn := range [][2]string{{"units", "unitsext"}, {"unitsext", "units"}, {"v1", "v10"}, {"model", "amodel"}, {"shapes", "shapes2"}} {
			bp, cp := pn[0], pn[1]
			files := map[string]string{"b.bop": gp(impRoot+"/i$K/"+bp) + "import \"./c.bop\"\nstruct BType {\n\tCType c;\n}\nenum BEnum {\n\tA = 1;\n}\n", "c.bop": gp(impRoot+"/i$K/"+cp) + "struct CType {\n\tint32 a;\n}\n"}
			sp(mname+":transitive-names-"+bp+"-"+cp+":uses-near-only", "struct-field", "a imports b ("+bp+") imports c ("+cp+"); a uses only types of b", "import \"./b.bop\"\nstruct ZqS {\n\tBType b;\n\tarray[BEnum] es;\n}\n", files, []string{"c.bop", "b.bop"}, mode, defaultPkg)
			sp(mname+":transitive-names-"+bp+"-"+cp+":uses-deep-only", "struct-field", "a imports b ("+bp+") imports c ("+cp+"); a uses only a type of c", "import \"./b.bop\"\nmessage ZqM {\n\t1 -> map[string, CType] c;\n}\n", files, []string{"c.bop", "b.bop"}, mode, defaultPkg)
			sp(mname+":transitive-names-"+bp+"-"+cp+":uses-both", "struct-field", "a imports b ("+bp+") imports c ("+cp+"); a uses both", "import \"./b.bop\"\nstruct ZqS {\n\tBType b;\n\tCType c;\n}\n", files, []string{"c.bop", "b.bop"}, mode, defaultPkg)
			flat := map[string]string{"b.bop": gp(impRoot+"/i$K/"+bp) + "struct BType {\n\tint32 a;\n}\n", "c.bop": gp(impRoot+"/i$K/"+cp) + "struct CType {\n\tint32 a;\n}\n"}
			sp(mname+":two-imports-names-"+bp+"-"+cp+":uses-first-only", "struct-field", "a imports b ("+bp+") and c ("+cp+"), uses only b", "import \"./b.bop\"\nimport \"./c.bop\"\nstruct ZqS {\n\tBType b;\n}\n", flat, []string{"c.bop", "b.bop"}, mode, defaultPkg)
		}
		sp(mname+":two-imports", "struct-field", "two imported files, both used", "import \"./b.bop\"\nimport \"./c.bop\"\nstruct ZqS {\n\tBType b;\n\tCType c;\n}\n",
			map[string]string{"b.bop": gp(impRoot+"/i$K/bpkg") + "struct BType {\n\tint32 a;\n}\n", "c.bop": gp(impRoot+"/i$K/cpkg") + "struct CType {\n\tint32 a;\n}\n"}, []string{"c.bop", "b.bop"}, mode, defaultPkg)
		sp(mname+":two-imports-same-package-base-name", "struct-field", "two imported packages whose last path element is equal", "import \"./b.bop\"\nimport \"./c.bop\"\nstruct ZqS {\n\tBType b;\n\tCType c;\n}\n",
			map[string]string{"b.bop": gp(impRoot+"/i$K/x/dep") + "struct BType {\n\tint32 a;\n}\n", "c.bop": gp(impRoot+"/i$K/y/dep") + "struct CType {\n\tint32 a;\n}\n"}, []string{"c.bop", "b.bop"}, mode, defaultPkg)
		sp(mname+":same-file-imported-twice", "struct-field", "one file imported twice", "import \"./dep.bop\"\nimport \"./dep.bop\"\nstruct ZqS {\n\tImpFixed f;\n}\n", map[string]string{"dep.bop": dep}, []string{"dep.bop"}, mode, defaultPkg)
		sp(mname+":local-type-named-like-imported", "struct-field", "a local struct with the name of an imported struct", "import \"./dep.bop\"\nstruct ImpFixed {\n\tstring local;\n}\nstruct ZqS {\n\tImpFixed f;\n}\n", map[string]string{"dep.bop": dep}, []string{"dep.bop"}, mode, defaultPkg)
		sp(mname+":imported-const", "file", "imported file has consts besides go_package", "import \"./dep.bop\"\nconst int32 mine = 1;\nstruct ZqS {\n\tImpFixed f;\n}\n", map[string]string{"dep.bop": dep + "const int32 theirs = 2;\nconst float64 big = inf;\n"}, []string{"dep.bop"}, mode, defaultPkg)
		sp(mname+":imported-date-only", "struct-field", "only the imported struct uses date", "import \"./dep.bop\"\nstruct ZqS {\n\tHasDate f;\n}\n", map[string]string{"dep.bop": gp(impRoot+"/i$K/dep") + "struct HasDate {\n\tdate d;\n}\n"}, []string{"dep.bop"}, mode, defaultPkg)
		sp(mname+":imported-enum-as-map-value-and-array", "struct-field", "imported enum in map value and message", "import \"./dep.bop\"\nstruct ZqS {\n\tmap[string, ImpEnum] m;\n}\nmessage ZqM {\n\t1 -> ImpEnum e;\n\t2 -> map[uint32, ImpEnum] m;\n}\n", map[string]string{"dep.bop": dep}, []string{"dep.bop"}, mode, defaultPkg)
		sp(mname+":imported-union-branch-type", "struct-field", "a branch record of an imported union used as a field type", "import \"./dep.bop\"\nstruct ZqS {\n\tImpUA f;\n}\n", map[string]string{"dep.bop": dep}, []string{"dep.bop"}, mode, defaultPkg)
		for _, n := range []string{"io", "iohelp", "bebop", "time", "math", "go", "gen"} {
			sp(mname+":importee-package-named-"+n, "struct-field", "imported package is called "+n, "import \"./dep.bop\"\nstruct ZqS {\n\tImpFixed f;\n\tdate d;\n}\n", map[string]string{"dep.bop": gp(impRoot+"/i$K/"+n) + depDefs}, []string{"dep.bop"}, mode, defaultPkg)
		}
		sp(mname+":import-path-without-dot-slash", "struct-field", "import \"dep.bop\"", "import \"dep.bop\"\nstruct ZqS {\n\tImpFixed f;\n}\n", map[string]string{"dep.bop": dep}, []string{"dep.bop"}, mode, defaultPkg)
		sp(mname+":import-in-subdirectory", "struct-field", "import \"./sub/dep.bop\"", "import \"./sub/dep.bop\"\nstruct ZqS {\n\tImpFixed f;\n}\n", map[string]string{"sub/dep.bop": dep}, []string{"sub/dep.bop"}, mode, defaultPkg)
		sp(mname+":import-missing-file", "file", "imported file does not exist", "import \"./nowhere.bop\"\nstruct ZqS {\n\tint32 a;\n}\n", map[string]string{}, nil, mode, defaultPkg)
		sp(mname+":import-cycle", "file", "a imports b imports a", "import \"./b.bop\"\n"+gp(impRoot+"/i$K/apkg")+"struct AType {\n\tint32 a;\n}\n", map[string]string{"b.bop": gp(impRoot+"/i$K/bpkg") + "import \"./main.bop\"\nstruct BType {\n\tint32 a;\n}\n"}, nil, mode, "")
	}
	return out
}

// ---------------------------------------------------------------------------------------------

func allItems(thorough bool) []*item {
	var out []*item
	out = append(out, shapeItems(thorough)...)
	out = append(out, identItems()...)
	out = append(out, stringItems()...)
	out = append(out, constItems()...)
	out = append(out, pkgnameItems()...)
	out = append(out, enumItems()...)
	out = append(out, opcodeItems()...)
	out = append(out, unionItems()...)
	out = append(out, seqItems()...)
	out = append(out, importItems()...)
	for i, it := range out {
		it.idx = i
	}
	return out
}

var partOrder = []string{"shape", "ident", "string", "const", "pkgname", "enum", "opcode", "union", "seq", "import"}

func sortedKeys[V any](m map[string]V) []string {
	ks := make([]string, 0, len(m))
	for k := range m {
		ks = append(ks, k)
	}
	sort.Strings(ks)
	return ks
}
