// C15 — constants, enum members and opcodes carry the schema's values into Go.
// Bounded-exhaustive: literal forms × types, [flags] expression trees up to depth 3 × base types,
// opcodes (integers and all 4-character strings over a 4-letter alphabet) × record kinds × naming.
// Values are read from the generated source with go/types (types.Const.Val()), never from text.
package main

import (
	"flag"
	"fmt"
	"go/ast"
	"go/constant"
	"go/parser"
	"go/token"
	"go/types"
	"math"
	"math/big"
	"strings"
	"sync/atomic"

	"github.com/200sc/bebop"
	"verif/fe"
	"verif/tc"
	"verif/vlib"
)

type expectation struct {
	goName  string
	val     constant.Value // expected exact value (nil: see special)
	typ     string         // expected Go type name ("" = untyped constant expected)
	under   string         // expected underlying basic type of typ
	special string         // "inf", "-inf", "nan": package variable initialised with math.Inf(1) / math.Inf(-1) / math.NaN()
	what    string
}

var chk *tc.Checker

func exposed(name string, private bool) string {
	if name == "" {
		return name
	}
	if private {
		return strings.ToLower(name[:1]) + name[1:]
	}
	return strings.ToUpper(name[:1]) + name[1:]
}

// checkSchema generates the schema and verifies every expectation. It returns the number of constants verified.
// genOverride, when set, produces the generated source instead of fe.Gen (schemas spread over several files).
var genOverride func(opt int) ([]byte, string, error)

func checkSchema(run *vlib.Run, class, schema string, opt int, exps []expectation) int {
	src, phase, err := fe.Gen(schema, opt, "p")
	if genOverride != nil {
		src, phase, err = genOverride(opt)
	}
	c := map[string]any{"schema": schema, "options": opt, "class": class}
	if err != nil {
		// an accepted-looking schema was rejected: not a C15 matter unless it is one of our well-formed inputs
		run.Report(fmt.Sprintf("C15|%s|rejected|%s", class, phase), fmt.Sprintf("a schema with well-formed constants was rejected (%s): %v\n%s", phase, err, vlib.Short(schema, 400)), c)
		return 0
	}
	res := chk.Check("gen.go", src)
	if !res.OK() {
		msg := ""
		if res.ParseErr != nil {
			msg = res.ParseErr.Error()
		} else {
			msg = tc.ErrLine(res.Errs[0])
		}
		run.Report(fmt.Sprintf("C15|%s|does-not-compile", class), "generated constants do not compile (also a C12 matter): "+msg+"\n"+vlib.Short(schema, 300), c)
		return 0
	}
	scope := res.Pkg.Scope()
	// variable initialisers for inf/nan
	inits := map[string]string{}
	fset := token.NewFileSet()
	if f, err := parser.ParseFile(fset, "gen.go", src, 0); err == nil {
		for _, d := range f.Decls {
			gd, ok := d.(*ast.GenDecl)
			if !ok || gd.Tok != token.VAR {
				continue
			}
			for _, sp := range gd.Specs {
				vs := sp.(*ast.ValueSpec)
				for i, n := range vs.Names {
					if i < len(vs.Values) {
						inits[n.Name] = types.ExprString(vs.Values[i])
					}
				}
			}
		}
	}
	n := 0
	for _, e := range exps {
		obj := scope.Lookup(e.goName)
		ce := map[string]any{"schema": schema, "options": opt, "class": class, "constant": e.goName, "what": e.what}
		if obj == nil {
			run.Report(fmt.Sprintf("C15|%s|missing", class), fmt.Sprintf("%s: the generated package has no %s", e.what, e.goName), ce)
			continue
		}
		if e.special != "" {
			want := map[string]string{"inf": "math.Inf(1)", "-inf": "math.Inf(-1)", "nan": "math.NaN()"}[e.special]
			if _, ok := obj.(*types.Var); !ok || inits[e.goName] != want {
				run.Report(fmt.Sprintf("C15|%s|special-float|%s", class, e.special), fmt.Sprintf("%s: want a package variable initialised with %s, got %T = %s", e.what, want, obj, inits[e.goName]), ce)
			}
			n++
			continue
		}
		co, ok := obj.(*types.Const)
		if !ok {
			run.Report(fmt.Sprintf("C15|%s|not-a-constant", class), fmt.Sprintf("%s: %s is a %T, not a constant", e.what, e.goName, obj), ce)
			continue
		}
		got := co.Val()
		equal := false
		switch {
		case e.val.Kind() == constant.String || e.val.Kind() == constant.Bool:
			equal = got.Kind() == e.val.Kind() && constant.Compare(got, token.EQL, e.val)
		default:
			equal = (got.Kind() == constant.Int || got.Kind() == constant.Float) && constant.Compare(constant.ToFloat(got), token.EQL, constant.ToFloat(e.val))
			if got.Kind() == constant.Int && e.val.Kind() == constant.Int {
				equal = constant.Compare(got, token.EQL, e.val)
			}
		}
		if !equal {
			run.Report(fmt.Sprintf("C15|%s|wrong-value", class), fmt.Sprintf("%s: Go constant %s = %s, the schema says %s", e.what, e.goName, got.ExactString(), e.val.ExactString()), ce)
		}
		if e.typ != "" {
			named, ok := co.Type().(*types.Named)
			if !ok || named.Obj().Name() != e.typ {
				run.Report(fmt.Sprintf("C15|%s|member-type", class), fmt.Sprintf("%s: constant %s has type %s, want the enum type %s", e.what, e.goName, co.Type(), e.typ), ce)
			} else if b, ok := named.Underlying().(*types.Basic); !ok || b.Name() != e.under {
				run.Report(fmt.Sprintf("C15|%s|enum-base-type", class), fmt.Sprintf("%s: enum type %s has underlying type %s, the schema declares %s", e.what, e.typ, named.Underlying(), e.under), ce)
			}
		}
		n++
	}
	return n
}

func goBase(base string) string {
	if base == "" {
		return "uint32"
	}
	if base == "byte" {
		return "byte"
	}
	return base
}

func rangeOf(base string) (lo, hi *big.Int) {
	switch base {
	case "byte", "uint8":
		return big.NewInt(0), big.NewInt(math.MaxUint8)
	case "uint16":
		return big.NewInt(0), big.NewInt(math.MaxUint16)
	case "uint32", "":
		return big.NewInt(0), big.NewInt(math.MaxUint32)
	case "uint64":
		return big.NewInt(0), new(big.Int).SetUint64(math.MaxUint64)
	case "int16":
		return big.NewInt(math.MinInt16), big.NewInt(math.MaxInt16)
	case "int32":
		return big.NewInt(math.MinInt32), big.NewInt(math.MaxInt32)
	case "int64":
		return big.NewInt(math.MinInt64), big.NewInt(math.MaxInt64)
	}
	panic(base)
}

// expr is a fully parenthesised [flags] expression with its exact value.
type expr struct {
	text  string
	val   *big.Int
	fits  bool // every intermediate value fits the base type and shift counts are in [0,width)
	depth int
	op    string // top-level operator, "" for a leaf
	min   string // the same tree written with the fewest parentheses C-family precedence allows
}

// opPrec is the C-family (C#, C, Java) precedence of the [flags] operators: shifts, then &, then |.
var opPrec = map[string]int{"|": 1, "&": 2, "<<": 3, ">>": 3}

func leaf(text string, v int64) expr {
	return expr{text: text, val: big.NewInt(v), fits: true, min: text}
}

func combine(op string, a, b expr, lo, hi *big.Int, width uint) expr {
	e := expr{text: "(" + a.text + ") " + op + " (" + b.text + ")", fits: a.fits && b.fits, depth: max(a.depth, b.depth) + 1}
	if a.depth == 0 {
		e.text = a.text + " " + op
	} else {
		e.text = "(" + a.text + ") " + op
	}
	if b.depth == 0 {
		e.text += " " + b.text
	} else {
		e.text += " (" + b.text + ")"
	}
	e.op = op
	amin, bmin := a.min, b.min
	if a.op != "" && opPrec[a.op] < opPrec[op] {
		amin = "(" + amin + ")"
	}
	if b.op != "" && opPrec[b.op] <= opPrec[op] { // equal precedence groups left to right
		bmin = "(" + bmin + ")"
	}
	e.min = amin + " " + op + " " + bmin
	v := new(big.Int)
	switch op {
	case "|":
		v.Or(a.val, b.val)
	case "&":
		v.And(a.val, b.val)
	case "<<", ">>":
		// a negative count is an error; a left shift by the width or more cannot fit; a RIGHT shift by the width or more is
		// exact like any other (0 for non-negative values, -1 for negative ones in a signed base type)
		if b.val.Sign() < 0 || (op == "<<" && b.val.Cmp(big.NewInt(int64(width))) >= 0) || b.val.Cmp(big.NewInt(4096)) >= 0 {
			e.fits = false
			e.val = big.NewInt(0)
			return e
		}
		if op == "<<" {
			v.Lsh(a.val, uint(b.val.Int64()))
		} else {
			v.Rsh(a.val, uint(b.val.Int64())) // arithmetic shift on big.Int
		}
	}
	e.val = v
	if v.Cmp(lo) < 0 || v.Cmp(hi) > 0 {
		e.fits = false
	}
	return e
}

func main() {
	prop := flag.String("property", "C15", "")
	flag.String("replay", "", "")
	flag.Parse()
	run := vlib.NewRun(*prop, "model_checking")
	var err error
	chk, err = tc.New(vlib.RepoDir())
	if err != nil {
		vlib.Fatal("%v", err)
	}
	var states, trans, consts int64
	outcomes := vlib.NewCounter()
	mkInt := func(s string) constant.Value { return constant.MakeFromLiteral(s, token.INT, 0) }
	bigVal := func(b *big.Int) constant.Value { return constant.MakeFromLiteral(b.String(), token.INT, 0) }

	// ---- 1. consts: every primitive type × literal forms --------------------------------------------
	type lit struct {
		text string
		val  constant.Value
		spec string
	}
	intLits := func(base string) []lit {
		lo, hi := rangeOf(base)
		out := []lit{{"0", mkInt("0"), ""}, {"1", mkInt("1"), ""}, {"42", mkInt("42"), ""}, {"0x2A", mkInt("42"), ""}, {"0x0", mkInt("0"), ""}, {hi.String(), bigVal(hi), ""}, {"0x" + hi.Text(16), bigVal(hi), ""}, {"0x" + strings.ToUpper(hi.Text(16)), bigVal(hi), ""}}
		if lo.Sign() < 0 {
			out = append(out, lit{"-1", mkInt("-1"), ""}, lit{lo.String(), bigVal(lo), ""}, lit{"-0x10", mkInt("-16"), ""})
		}
		return out
	}
	floatLits := []lit{{"0", mkInt("0"), ""}, {"1", mkInt("1"), ""}, {"-1", mkInt("-1"), ""}, {"1.5", constant.MakeFromLiteral("1.5", token.FLOAT, 0), ""},
		{"-2.25", constant.MakeFromLiteral("-2.25", token.FLOAT, 0), ""}, {"1e3", constant.MakeFromLiteral("1e3", token.FLOAT, 0), ""}, {"1.5e3", constant.MakeFromLiteral("1.5e3", token.FLOAT, 0), ""},
		{"0.001", constant.MakeFromLiteral("0.001", token.FLOAT, 0), ""}, {"123456789.125", constant.MakeFromLiteral("123456789.125", token.FLOAT, 0), ""},
		{"inf", nil, "inf"}, {"-inf", nil, "-inf"}, {"nan", nil, "nan"}}
	strLits := []lit{{`""`, constant.MakeString(""), ""}, {`"hello"`, constant.MakeString("hello"), ""}, {`"he said \"hi\""`, constant.MakeString(`he said "hi"`), ""},
		{`"back\\slash"`, constant.MakeString(`back\slash`), ""}, {`"héllo ☃"`, constant.MakeString("héllo ☃"), ""}, {`"semi;colon // not a comment /* nor this */"`, constant.MakeString("semi;colon // not a comment /* nor this */"), ""},
		{`"{}[]()"`, constant.MakeString("{}[]()"), ""}, {`"100%% sure, %d of %s done, 50% off %v"`, constant.MakeString("100%% sure, %d of %s done, 50% off %v"), ""}}
	guidLits := []lit{{`"e215a946-b26f-4567-a276-13136f0a1708"`, constant.MakeString("e215a946-b26f-4567-a276-13136f0a1708"), ""}, {`"e215a946b26f4567a27613136f0a1708"`, constant.MakeString("e215a946b26f4567a27613136f0a1708"), ""}}
	type cjob struct {
		typ string
		l   lit
	}
	var cjobs []cjob
	for _, t := range []string{"byte", "uint8", "uint16", "uint32", "uint64", "int16", "int32", "int64"} {
		for _, l := range intLits(t) {
			cjobs = append(cjobs, cjob{t, l})
		}
	}
	for _, t := range []string{"float32", "float64"} {
		for _, l := range floatLits {
			cjobs = append(cjobs, cjob{t, l})
		}
	}
	for _, l := range strLits {
		cjobs = append(cjobs, cjob{"string", l})
	}
	for _, l := range guidLits {
		cjobs = append(cjobs, cjob{"guid", l})
	}
	cjobs = append(cjobs, cjob{"bool", lit{"true", constant.MakeBool(true), ""}}, cjob{"bool", lit{"false", constant.MakeBool(false), ""}})
	vlib.ParallelFor(len(cjobs)*2, func(i int) {
		j := cjobs[i/2]
		opt := 0
		if i%2 == 1 {
			opt = 2 // PrivateDefinitions
		}
		schema := fmt.Sprintf("const %s myConst = %s;\n", j.typ, j.l.text)
		atomic.AddInt64(&states, 1)
		atomic.AddInt64(&trans, 1)
		n := checkSchema(run, "const|"+j.typ, schema, opt, []expectation{{goName: exposed("myConst", opt == 2), val: j.l.val, special: j.l.spec, what: fmt.Sprintf("const %s = %s", j.typ, j.l.text)}})
		atomic.AddInt64(&consts, int64(n))
		outcomes.Add("const|" + j.typ + "|" + j.l.text)
	})
	// all consts of one file together (const block + var block + math import interplay)
	{
		var sb strings.Builder
		var exps []expectation
		for i, j := range cjobs {
			name := fmt.Sprintf("k%d", i)
			fmt.Fprintf(&sb, "const %s %s = %s;\n", j.typ, name, j.l.text)
			exps = append(exps, expectation{goName: exposed(name, false), val: j.l.val, special: j.l.spec, what: fmt.Sprintf("const %s = %s", j.typ, j.l.text)})
		}
		states++
		trans++
		consts += int64(checkSchema(run, "const|all-in-one-file", sb.String(), 0, exps))
	}
	// consts, enum members and opcodes that live in an IMPORTED file, generated in combined mode: they are part of the
	// generated package like the root's own (the imports the const block needs must follow them)
	{
		dep := "const float64 depInf = inf;\nconst float32 depNegInf = -inf;\nconst float64 depNan = nan;\nconst int64 depInt = -9223372036854775808;\nconst string depStr = \"ms\\t\\\"wall\\\"\";\nconst guid depGuid = \"e215a946-b26f-4567-a276-13136f0a1708\";\nenum DepLevel : uint8 {\n\tLow = 1;\n\tHigh = 255;\n}\n[opcode(\"DEPS\")]\nstruct DepRec {\n\tint32 x;\n}\n"
		for _, root := range []struct{ name, text string }{
			{"root-with-own-consts", "import \"dep.bop\"\nconst int32 rootInt = 3;\nconst float64 rootFloat = 1.5;\nstruct Root {\n\tDepLevel l;\n}\n"},
			{"root-without-consts", "import \"dep.bop\"\nstruct Root {\n\tDepLevel l;\n\tDepRec r;\n}\n"},
			{"root-with-own-inf", "import \"dep.bop\"\nconst float64 rootInf = inf;\nstruct Root {\n\tint32 x;\n}\n"},
		} {
			for _, opt := range []int{0, 2} {
				exps := []expectation{
					{goName: exposed("depInf", opt == 2), special: "inf", what: "imported const float64 = inf"},
					{goName: exposed("depNegInf", opt == 2), special: "-inf", what: "imported const float32 = -inf"},
					{goName: exposed("depNan", opt == 2), special: "nan", what: "imported const float64 = nan"},
					{goName: exposed("depInt", opt == 2), val: mkInt("-9223372036854775808"), what: "imported const int64 = min"},
					{goName: exposed("depStr", opt == 2), val: constant.MakeString("ms\t\"wall\""), what: "imported const string with escapes"},
					{goName: exposed("DepLevel", opt == 2) + "_High", val: mkInt("255"), typ: exposed("DepLevel", opt == 2), under: "uint8", what: "imported enum member High = 255"},
					{goName: exposed("DepRec", opt == 2) + "OpCode", val: mkInt("1397769540"), what: "imported opcode \"DEPS\" as little-endian u32"},
				}
				rootText := root.text
				genOverride = func(o int) ([]byte, string, error) {
					return fe.GenFiles(map[string]string{"root.bop": rootText, "dep.bop": dep}, "root.bop", o, "p", true)
				}
				states++
				trans++
				consts += int64(checkSchema(run, "const|combined-import|"+root.name, "// root.bop\n"+rootText+"// dep.bop\n"+dep, opt, exps))
				genOverride = nil
				outcomes.Add("combined-import|" + root.name)
			}
		}
	}

	// ---- 2. enums over every base type -----------------------------------------------------------------
	bases := []string{"", "byte", "uint8", "uint16", "uint32", "uint64", "int16", "int32", "int64"}
	for _, base := range bases {
		for _, opt := range []int{0, 2} {
			lo, hi := rangeOf(base)
			var sb strings.Builder
			var exps []expectation
			hdr := "enum Color"
			if base != "" {
				hdr += " : " + base
			}
			sb.WriteString(hdr + " {\n")
			tn := exposed("Color", opt == 2)
			add := func(name, text string, v *big.Int) {
				fmt.Fprintf(&sb, "\t%s = %s;\n", name, text)
				exps = append(exps, expectation{goName: tn + "_" + name, val: bigVal(v), typ: tn, under: goBase(base), what: fmt.Sprintf("enum member %s = %s (base %q)", name, text, base)})
			}
			add("Zero", "0", big.NewInt(0))
			add("One", "1", big.NewInt(1))
			add("Hex", "0x2A", big.NewInt(42))
			add("Max", hi.String(), hi)
			add("MaxHexM1", "0x"+new(big.Int).Sub(hi, big.NewInt(1)).Text(16), new(big.Int).Sub(hi, big.NewInt(1)))
			if lo.Sign() < 0 {
				add("Neg", "-1", big.NewInt(-1))
				add("Min", lo.String(), lo)
				add("NegTwo", "-2", big.NewInt(-2))
				add("NegHex", "-0x10", big.NewInt(-16))
				add("MinHexP1", "-0x"+new(big.Int).Sub(new(big.Int).Neg(lo), big.NewInt(1)).Text(16), new(big.Int).Add(lo, big.NewInt(1)))
			}
			sb.WriteString("}\n")
			states++
			trans++
			consts += int64(checkSchema(run, "enum|base="+base, sb.String(), opt, exps))
			outcomes.Add("enum|" + base)
		}
	}

	// ---- 3. [flags] expression trees, every base type ---------------------------------------------------
	maxDepth := 2
	if run.Thorough() {
		maxDepth = 3
	}
	var nExpr, nFit, nMin int64
	vlib.ParallelFor(len(bases), func(bi int) {
		base := bases[bi]
		lo, hi := rangeOf(base)
		width := uint(hi.BitLen())
		if lo.Sign() < 0 {
			width++
		}
		leaves := []expr{leaf("1", 1), leaf("2", 2), leaf("0x0F", 15), leaf("A", 4), leaf("B", 96), leaf("3", 3)}
		if lo.Sign() < 0 {
			leaves = append(leaves, leaf("-1", -1), leaf("N", -8))
		}
		levels := [][]expr{leaves}
		all := append([]expr{}, leaves...)
		for d := 1; d <= maxDepth; d++ {
			var cur []expr
			prev := all
			if d == 3 {
				// depth 3: combine depth-2 trees with leaves and depth-1 trees (the full square is 10^4 × larger)
				prev = append(append([]expr{}, levels[0]...), levels[1]...)
			}
			for _, op := range []string{"|", "&", "<<", ">>"} {
				for _, a := range prev {
					for _, b := range prev {
						if max(a.depth, b.depth)+1 != d && d != 3 {
							continue
						}
						if d == 3 && a.depth < 1 && b.depth < 1 {
							continue
						}
						e := combine(op, a, b, lo, hi, width)
						cur = append(cur, e)
					}
				}
			}
			if d == 3 {
				// and every depth-2 tree against every leaf, both sides
				for _, op := range []string{"|", "&", "<<", ">>"} {
					for _, a := range levels[2] {
						for _, b := range levels[0] {
							cur = append(cur, combine(op, a, b, lo, hi, width), combine(op, b, a, lo, hi, width))
						}
					}
				}
			}
			levels = append(levels, cur)
			all = append(all, cur...)
		}
		if !run.Thorough() && (base == "" || base == "int16" || base == "uint64") {
			// quick tier: left- and right-leaning trees of depth 3 over a small leaf set, so that a parenthesised group
			// holding two operators occurs in first, middle and last position of a longer expression
			small := []expr{leaves[0], leaves[1], leaves[2], leaves[3], leaves[5]}
			ops := []string{"|", "&", "<<", ">>"}
			var d1, d2 []expr
			for _, op := range ops {
				for _, a := range small {
					for _, b := range small {
						d1 = append(d1, combine(op, a, b, lo, hi, width))
					}
				}
			}
			for _, op := range ops {
				for _, x := range d1 {
					for _, l := range small {
						d2 = append(d2, combine(op, x, l, lo, hi, width), combine(op, l, x, lo, hi, width))
					}
				}
			}
			for _, op := range ops {
				for _, y := range d2 {
					if !y.fits {
						continue
					}
					for _, l := range small {
						all = append(all, combine(op, y, l, lo, hi, width), combine(op, l, y, lo, hi, width))
					}
				}
			}
		}
		hdr := "[flags]\nenum F"
		if base != "" {
			hdr += " : " + base
		}
		pre := hdr + " {\n\tA = 4;\n\tB = 96;\n"
		if lo.Sign() < 0 {
			pre += "\tN = -8;\n"
		}
		// (a) every expression through ReadFile (the evaluated value is in the File)
		byVal := map[string]expr{}
		for _, e := range all {
			atomic.AddInt64(&nExpr, 1)
			if !e.fits {
				continue // overflowing / out-of-range expressions belong to C13
			}
			atomic.AddInt64(&nFit, 1)
			schema := pre + "\tX = " + e.text + ";\n}\n"
			f, _, err := bebop.ReadFile(strings.NewReader(schema))
			atomic.AddInt64(&states, 1)
			atomic.AddInt64(&trans, 1)
			c := map[string]any{"schema": schema, "class": "flags|base=" + base}
			if err != nil {
				run.Report("C15|flags|rejected|base="+base, fmt.Sprintf("a well-formed [flags] expression was rejected: %v\n%s", err, schema), c)
				continue
			}
			opts := f.Enums[0].Options
			x := opts[len(opts)-1]
			var got *big.Int
			if f.Enums[0].Unsigned {
				got = new(big.Int).SetUint64(x.UintValue)
			} else {
				got = big.NewInt(x.Value)
			}
			if got.Cmp(e.val) != 0 {
				run.Report(fmt.Sprintf("C15|flags|wrong-value|base=%s|depth=%d", base, e.depth), fmt.Sprintf("[flags] member X = %s evaluates to %s, exact value %s (base %q)", e.text, got, e.val, base), c)
			}
			// the same tree with only the parentheses precedence requires must mean the same
			if e.min != e.text {
				schemaMin := pre + "\tX = " + e.min + ";\n}\n"
				fm, _, err := bebop.ReadFile(strings.NewReader(schemaMin))
				atomic.AddInt64(&states, 1)
				atomic.AddInt64(&trans, 1)
				atomic.AddInt64(&nMin, 1)
				cm := map[string]any{"schema": schemaMin, "class": "flags-min-parens|base=" + base}
				if err != nil {
					run.Report("C15|flags-min-parens|rejected|base="+base, fmt.Sprintf("a well-formed [flags] expression was rejected: %v\n%s", err, schemaMin), cm)
				} else {
					mo := fm.Enums[0].Options
					xm := mo[len(mo)-1]
					var gm *big.Int
					if fm.Enums[0].Unsigned {
						gm = new(big.Int).SetUint64(xm.UintValue)
					} else {
						gm = big.NewInt(xm.Value)
					}
					if gm.Cmp(e.val) != 0 {
						run.Report(fmt.Sprintf("C15|flags-min-parens|wrong-value|base=%s|depth=%d", base, e.depth), fmt.Sprintf("[flags] member X = %s (that is %s) evaluates to %s, exact value %s (base %q)", e.min, e.text, gm, e.val, base), cm)
					}
				}
			}
			if _, dup := byVal[e.val.String()]; !dup && e.val.Cmp(big.NewInt(4)) != 0 && e.val.Cmp(big.NewInt(96)) != 0 && e.val.Cmp(big.NewInt(-8)) != 0 {
				byVal[e.val.String()] = e
			}
		}
		// (b) one enum with one member per distinct value through Generate + go/types
		for _, opt := range []int{0, 2} {
			var sb strings.Builder
			sb.WriteString(pre)
			tn := exposed("F", opt == 2)
			exps := []expectation{{goName: tn + "_A", val: mkInt("4"), typ: tn, under: goBase(base), what: "A = 4"}, {goName: tn + "_B", val: mkInt("96"), typ: tn, under: goBase(base), what: "B = 96"}}
			i := 0
			for _, e := range byVal {
				name := fmt.Sprintf("M%d", i)
				i++
				txt := e.text
				if i%2 == 1 {
					txt = e.min // every other member is written with the fewest parentheses
				}
				fmt.Fprintf(&sb, "\t%s = %s;\n", name, txt)
				exps = append(exps, expectation{goName: tn + "_" + name, val: bigVal(e.val), typ: tn, under: goBase(base), what: fmt.Sprintf("[flags] member %s = %s (base %q)", name, e.text, base)})
				if i >= 400 {
					break
				}
			}
			sb.WriteString("}\n")
			atomic.AddInt64(&states, 1)
			atomic.AddInt64(&trans, 1)
			atomic.AddInt64(&consts, int64(checkSchema(run, "flags|base="+base, sb.String(), opt, exps)))
		}
		outcomes.Add(fmt.Sprintf("flags|%s|%d", base, len(byVal)))
	})

	// ---- 3b. shifting a one into the sign bit of a signed base type: either rejected, or the two's-complement pattern
	for _, base := range []string{"int16", "int32", "int64"} {
		lo, _ := rangeOf(base)
		width := map[string]int{"int16": 16, "int32": 32, "int64": 64}[base]
		for _, opt := range []int{0, 2} {
			schema := fmt.Sprintf("[flags]\nenum SignBit : %s {\n\tOne = 1;\n\tTop = 1 << %d;\n\tTopOrOne = Top | One;\n\tSmear = Top >> %d;\n}\n", base, width-1, width-4)
			states++
			trans++
			if _, _, err := fe.Gen(schema, opt, "p"); err != nil {
				outcomes.Add("signbit-rejected|" + base)
				continue // rejecting the expression is a legitimate answer
			}
			tn := exposed("SignBit", opt == 2)
			smear := new(big.Int).Rsh(lo, uint(width-4))
			consts += int64(checkSchema(run, "flags-sign-bit|base="+base, schema, opt, []expectation{
				{goName: tn + "_Top", val: bigVal(lo), typ: tn, under: base, what: fmt.Sprintf("Top = 1 << %d in %s: accepted, so it must be the only representable pattern %s", width-1, base, lo)},
				{goName: tn + "_TopOrOne", val: bigVal(new(big.Int).Add(lo, big.NewInt(1))), typ: tn, under: base, what: "Top | One"},
				{goName: tn + "_Smear", val: bigVal(smear), typ: tn, under: base, what: "Top >> (width-4), arithmetic shift"},
			}))
			outcomes.Add("signbit|" + base)
		}
	}

	// ---- 3c. member references resolve to the member of exactly that name: names that differ only in letter case, a
	// prefix of another name, the enum's own name; referenced both before and after the look-alike in declaration order
	for _, base := range []string{"uint8", "int16", "uint32", "int64"} {
		for _, opt := range []int{0, 2} {
			schema := fmt.Sprintf("[flags]\nenum Near : %s {\n\tRead = 1;\n\tREAD = 2;\n\tread = 4;\n\tRea = 8;\n\tReadX = 16;\n\tNear = 32;\n"+
				"\tA1 = READ | 64;\n\tA2 = read | Read;\n\tA3 = Rea | ReadX;\n\tA4 = Near | READ;\n\tA5 = ReadX | read;\n\tA6 = A2 | A3;\n}\n", base)
			states++
			trans++
			tn := exposed("Near", opt == 2)
			var exps []expectation
			for _, m := range []struct {
				name string
				val  int64
			}{{"Read", 1}, {"READ", 2}, {"read", 4}, {"Rea", 8}, {"ReadX", 16}, {"Near", 32}, {"A1", 66}, {"A2", 5}, {"A3", 24}, {"A4", 34}, {"A5", 20}, {"A6", 29}} {
				exps = append(exps, expectation{goName: tn + "_" + m.name, val: bigVal(big.NewInt(m.val)), typ: tn, under: goBase(base), what: "[flags] member " + m.name + " among look-alike names (base " + base + ")"})
			}
			consts += int64(checkSchema(run, "flags-look-alike-names|base="+base, schema, opt, exps))
			outcomes.Add("look-alike|" + base)
		}
	}

	// ---- 4. opcodes ------------------------------------------------------------------------------------
	letters := []byte{'0', 'A', 'z', ' '}
	var ops []struct {
		text string
		val  uint32
	}
	for _, a := range letters {
		for _, b := range letters {
			for _, c := range letters {
				for _, d := range letters {
					s := string([]byte{a, b, c, d})
					ops = append(ops, struct {
						text string
						val  uint32
					}{fmt.Sprintf("%q", s), uint32(a) | uint32(b)<<8 | uint32(c)<<16 | uint32(d)<<24})
				}
			}
		}
	}
	// four BYTES that are not four characters: multi-byte UTF-8 characters, raw bytes >= 0x80 (the opcode is the four
	// bytes between the quotes, little-endian, whatever they spell)
	for _, s := range []string{"\u00e9ab", "\u00fc\u00df", "\u20ac1", "caf\xe9", "\xff\xfe\x80\x81", "a\u00e9b"} {
		bs := []byte(s)
		if len(bs) != 4 {
			panic("opcode literal " + s)
		}
		ops = append(ops, struct {
			text string
			val  uint32
		}{"\"" + s + "\"", uint32(bs[0]) | uint32(bs[1])<<8 | uint32(bs[2])<<16 | uint32(bs[3])<<24})
	}
	for _, s := range []string{"1", "255", "0x1", "0xFFFFFFFF", "4294967295", "0x12345678", "305419896"} {
		v, _ := new(big.Int).SetString(strings.TrimPrefix(s, "0x"), map[bool]int{true: 16, false: 10}[strings.HasPrefix(s, "0x")])
		ops = append(ops, struct {
			text string
			val  uint32
		}{s, uint32(v.Uint64())})
	}
	kinds := []string{"struct Rec { int32 x; }", "message Rec { 1 -> int32 x; }", "union Rec { 1 -> struct Inner { int32 x; } }"}
	vlib.ParallelFor(len(ops)*len(kinds)*2, func(i int) {
		op := ops[i/(len(kinds)*2)]
		kind := kinds[(i/2)%len(kinds)]
		opt := 0
		if i%2 == 1 {
			opt = 2
		}
		schema := fmt.Sprintf("[opcode(%s)]\n%s\n", op.text, kind)
		atomic.AddInt64(&states, 1)
		atomic.AddInt64(&trans, 1)
		n := checkSchema(run, "opcode|"+strings.Fields(kind)[0], schema, opt, []expectation{{goName: exposed("Rec", opt == 2) + "OpCode", val: constant.MakeUint64(uint64(op.val)), what: "opcode " + op.text}})
		atomic.AddInt64(&consts, int64(n))
		outcomes.Add(fmt.Sprintf("opcode|%x", op.val))
	})

	run.Sample(map[string]any{"const": "const uint64 myConst = 0xffffffffffffffff;", "expect": "MyConst == 18446744073709551615"})
	run.Sample(map[string]any{"flags": "[flags] enum F : int16 { A = 4; B = 96; N = -8; X = (A | 3) << (2 & 3); }", "expect": "value read from ReadFile's File and from the generated Go constant"})
	run.Sample(map[string]any{"opcode": "[opcode(\"A0 z\")] struct Rec {...}", "expect": "RecOpCode == 0x7a203041"})
	run.Coverage["states"] = states
	run.Coverage["transitions"] = trans
	run.Coverage["traces_validated_against_impl"] = trans
	run.Coverage["evaluations"] = states
	run.Coverage["go_constants_verified"] = consts
	run.Coverage["flag_expressions_enumerated"] = nExpr
	run.Coverage["flag_expressions_in_range_checked"] = nFit
	run.Coverage["flag_expressions_rechecked_with_minimal_parentheses"] = nMin
	run.Coverage["distinct_nontrivial"] = outcomes.Distinct()
	run.Coverage["rule"] = "state = one schema generated and type-checked (or one [flags] expression evaluated by ReadFile); consts: 14 types × decimal/hex/negative/min/max/float/inf/nan/string-escape/bool/guid forms × public/private naming; enums: 9 base types × boundary members; [flags]: every expression tree of depth ≤ 2 (thorough: 3, restricted square) over {1,2,3,0x0F,A,B,-1,N} and | & << >>, written fully parenthesised and again with only the parentheses C-family precedence (shift > & > |, left to right) requires, asserted when every intermediate value fits the base type; opcodes: 256 four-character strings + 6 four-byte strings with bytes >= 0x80 + 7 integers × struct/message/union × public/private; values read with go/types (types.Const.Val())"
	run.Assume = []string{"expressions whose exact value (or an intermediate) leaves the base type are C13's business", "string escapes other than \\\" and \\\\ are not asserted (bebop and Go may differ legitimately)"}
	run.Finish()
}
