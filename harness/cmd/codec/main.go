// codec is the orchestrator of the codec checks C01–C09: it generates Go code for every enumerated
// record case with the real ReadFile+Generate from /repo's working tree, compiles it together with
// the decision procedures (verif/codeccheck) into worker binaries (with the runtime map-order seam),
// shards the case space over worker processes and aggregates their findings.
package main

import (
	"bufio"
	"bytes"
	"crypto/sha256"
	"encoding/hex"
	"encoding/json"
	"flag"
	"fmt"
	"io/fs"
	"os"
	"os/exec"
	"path/filepath"
	"runtime"
	"sort"
	"strings"
	"sync"
	"syscall"
	"time"

	"verif/codeccheck"
	"verif/driver"
	"verif/fe"
	"verif/overlay"
	"verif/schema"
	"verif/tc"
	"verif/vlib"
)

func treeHash() string {
	h := sha256.New()
	add := func(root string, skipTestdata bool) {
		var files []string
		filepath.WalkDir(root, func(p string, d fs.DirEntry, err error) error {
			if err != nil {
				return nil
			}
			if d.IsDir() {
				n := d.Name()
				if n == ".git" || (skipTestdata && n == "testdata") || n == ".cache" {
					return filepath.SkipDir
				}
				return nil
			}
			if strings.HasSuffix(p, ".go") || strings.HasSuffix(p, "go.mod") || strings.HasSuffix(p, ".s") {
				files = append(files, p)
			}
			return nil
		})
		sort.Strings(files)
		for _, f := range files {
			b, _ := os.ReadFile(f)
			fmt.Fprintf(h, "%s %d\n", f, len(b))
			h.Write(b)
		}
	}
	add(vlib.RepoDir(), true)
	add(filepath.Join(vlib.VerifDir(), "harness"), false)
	return hex.EncodeToString(h.Sum(nil))[:16]
}

var mainOpts = []int{0, 31, driver.OptPtr | driver.OptUnsafe, driver.OptPrivate | driver.OptShared}

// reducedCase selects the cases generated under the 28 non-main option sets (C09).
func reducedCase(c *schema.Case) bool {
	if c.Ctx == "X" {
		return true
	}
	if c.Shape == nil {
		return false
	}
	switch c.Shape.String() {
	case "int32", "string", "date", "guid", "bool", "float64", "EnU16", "EnI64", "SupFixed", "SupVar", "SupRO", "SupMsg", "SupUnion", "SupEmpty",
		"array[string]", "array[byte]", "array[SupMsg]", "array[int32]", "array[SupFixed]",
		"map[string, int32]", "map[uint32, string]", "map[string, SupMsg]", "map[guid, SupFixed]", "array[array[int32]]", "map[string, array[string]]", "array[map[string, string]]":
		return true
	}
	return false
}

type buildInfo struct {
	Dir      string
	Parts    []string // worker binaries
	Dropped  []fe.Dropped
	Records  int
	Packages int
	Seam     bool
}

func ensureBuilt(tier string) (*buildInfo, error) {
	hash := treeHash()
	root := filepath.Join(vlib.VerifDir(), ".cache", "work")
	os.MkdirAll(root, 0o755)
	dir := filepath.Join(root, fmt.Sprintf("codec-%s-%s", tier, hash))
	lock, err := os.OpenFile(filepath.Join(root, "codec-"+tier+".lock"), os.O_CREATE|os.O_RDWR, 0o644)
	if err != nil {
		return nil, err
	}
	defer lock.Close()
	if err := syscall.Flock(int(lock.Fd()), syscall.LOCK_EX); err != nil {
		return nil, err
	}
	defer syscall.Flock(int(lock.Fd()), syscall.LOCK_UN)
	infoPath := filepath.Join(dir, "build.json")
	if b, err := os.ReadFile(infoPath); err == nil {
		var bi buildInfo
		if json.Unmarshal(b, &bi) == nil {
			ok := true
			for _, p := range bi.Parts {
				if _, err := os.Stat(p); err != nil {
					ok = false
				}
			}
			if ok {
				return &bi, nil
			}
		}
	}
	// prune older builds of this tier (disk is limited)
	ents, _ := os.ReadDir(root)
	for _, e := range ents {
		if strings.HasPrefix(e.Name(), "codec-"+tier+"-") && e.Name() != filepath.Base(dir) {
			os.RemoveAll(filepath.Join(root, e.Name()))
		}
	}
	os.RemoveAll(dir)
	t0 := time.Now()
	thorough := tier == "thorough"
	chk, err := tc.New(vlib.RepoDir())
	if err != nil {
		return nil, fmt.Errorf("type-checking the repository: %w", err)
	}
	sup := schema.NewSupport()
	cases := sup.Cases(thorough)
	evo := codeccheck.EvoCases(sup)
	var reduced []*schema.Case
	for _, c := range cases {
		if reducedCase(c) {
			reduced = append(reduced, c)
		}
	}
	nparts := 1
	if thorough {
		nparts = 8
	}
	bi := &buildInfo{Dir: dir, Seam: true}
	type pkgRef struct {
		opt    int
		suffix string
		part   int
	}
	var refs []pkgRef
	genRoot := filepath.Join(dir, "gen")
	isMain := map[int]bool{}
	for _, o := range mainOpts {
		isMain[o] = true
	}
	for opt := 0; opt < 32; opt++ {
		cs := reduced
		if isMain[opt] {
			cs = cases
		}
		// split by part so that all option sets of one case land in the same worker binary
		for part := 0; part < nparts; part++ {
			var pc []*schema.Case
			for i, c := range cs {
				if i%nparts == part {
					pc = append(pc, c)
				}
			}
			if len(pc) == 0 {
				continue
			}
			batches, dropped := fe.BuildBatches(sup, pc, opt, chk, 48, false, part*10000)
			if part == 0 && isMain[opt] {
				// the schema-evolution cases reference each other: one atomic batch, in part 0
				eb, ed := fe.BuildBatches(sup, evo, opt, chk, len(evo), true, 9000)
				batches = append(batches, eb...)
				dropped = append(dropped, ed...)
				// records using types of a separately generated imported file: one atomic batch plus the imported package
				ib, id := fe.BuildImportBatch(schema.ImportCases(), opt, chk, 9500, "codecwork/gen")
				if ib != nil {
					batches = append(batches, ib)
				}
				dropped = append(dropped, id...)
			}
			bi.Dropped = append(bi.Dropped, dropped...)
			for _, b := range batches {
				suffix, err := b.WritePackage(genRoot)
				if err != nil {
					return nil, err
				}
				refs = append(refs, pkgRef{opt, suffix, part})
				bi.Records += len(b.Cases)
				bi.Packages++
			}
		}
	}
	// module files
	gomod := "module codecwork\n\ngo 1.21\n\nrequire (\n\tgithub.com/200sc/bebop v0.0.0\n\tverif v0.0.0\n)\n\nreplace github.com/200sc/bebop => " + vlib.RepoDir() + "\n\nreplace verif => " + filepath.Join(vlib.VerifDir(), "harness") + "\n"
	if err := os.WriteFile(filepath.Join(dir, "go.mod"), []byte(gomod), 0o644); err != nil {
		return nil, err
	}
	var ov overlay.File
	if err := overlay.MapSeam(&ov, filepath.Join(dir, "ov")); err != nil {
		return nil, err
	}
	ovPath, err := ov.Write(filepath.Join(dir, "ov"))
	if err != nil {
		return nil, err
	}
	for part := 0; part < nparts; part++ {
		pdir := filepath.Join(dir, fmt.Sprintf("w%d", part))
		os.MkdirAll(pdir, 0o755)
		var mb strings.Builder
		mb.WriteString("package main\n\nimport (\n\t\"verif/codeccheck\"\n")
		n := 0
		var list strings.Builder
		for _, r := range refs {
			if r.part != part {
				continue
			}
			fmt.Fprintf(&mb, "\tp%d \"codecwork/gen/%s\"\n", n, r.suffix)
			fmt.Fprintf(&list, "\t\t{Opt: %d, Reg: p%d.Registry()},\n", r.opt, n)
			n++
		}
		mb.WriteString(")\n\nfunc main() {\n\tcodeccheck.Main([]codeccheck.Pkg{\n" + list.String() + "\t})\n}\n")
		if err := os.WriteFile(filepath.Join(pdir, "main.go"), []byte(mb.String()), 0o644); err != nil {
			return nil, err
		}
		bin := filepath.Join(dir, fmt.Sprintf("worker%d", part))
		cmd := exec.Command("go", "build", "-overlay", ovPath, "-o", bin, "./"+filepath.Base(pdir))
		cmd.Dir = dir
		out, err := cmd.CombinedOutput()
		if err != nil {
			return nil, fmt.Errorf("building worker %d failed: %v\n%s", part, err, vlib.Short(string(out), 4000))
		}
		bi.Parts = append(bi.Parts, bin)
		// generated sources of this part are no longer needed once linked
	}
	os.RemoveAll(genRoot)
	b, _ := json.MarshalIndent(bi, "", " ")
	if err := os.WriteFile(infoPath, b, 0o644); err != nil {
		return nil, err
	}
	fmt.Fprintf(os.Stderr, "codec: built %d records in %d packages (%d dropped) for tier %s in %.0fs\n", bi.Records, bi.Packages, len(bi.Dropped), tier, time.Since(t0).Seconds())
	return bi, nil
}

func runWorkers(bi *buildInfo, prop, tier string, extra []string) ([]*codeccheck.Result, []string) {
	shardsPer := runtime.NumCPU() / len(bi.Parts)
	if shardsPer < 1 {
		shardsPer = 1
	}
	if len(extra) > 0 {
		shardsPer = 1
	}
	type job struct {
		bin   string
		shard string
	}
	var jobs []job
	for _, p := range bi.Parts {
		for s := 0; s < shardsPer; s++ {
			jobs = append(jobs, job{p, fmt.Sprintf("%d/%d", s, shardsPer)})
		}
	}
	results := make([]*codeccheck.Result, len(jobs))
	crashes := make([]string, len(jobs))
	sem := make(chan struct{}, runtime.NumCPU())
	var wg sync.WaitGroup
	for i, j := range jobs {
		wg.Add(1)
		go func(i int, j job) {
			defer wg.Done()
			sem <- struct{}{}
			defer func() { <-sem }()
			prog := filepath.Join(bi.Dir, fmt.Sprintf("progress-%s-%d-%d", prop, os.Getpid(), i))
			defer os.Remove(prog)
			merged := &codeccheck.Result{Property: prop, Shard: j.shard, Extra: map[string]int{}, Outcomes: map[string]int{}}
			bySig := map[string]*codeccheck.Finding{}
			resume := ""
			for attempt := 0; attempt < 400; attempt++ {
				args := append([]string{"-property", prop, "-shard", j.shard, "-tier", tier, "-progress", prog, "-resume-after", resume}, extra...)
				// address-space limit so that a runaway allocation kills the worker, not the sandbox
				sh := fmt.Sprintf("ulimit -v %d; exec \"$0\" \"$@\"", 4*1024*1024)
				cmd := exec.Command("bash", append([]string{"-c", sh, j.bin}, args...)...)
				var stdout, stderr bytes.Buffer
				cmd.Stdout, cmd.Stderr = &stdout, &stderr
				// a worker must not outlive the orchestrator (it may be killed from outside)
				cmd.SysProcAttr = &syscall.SysProcAttr{Pdeathsig: syscall.SIGKILL}
				// hang watchdog: a case normally takes milliseconds; no new progress marker for 120 s means the
				// worker is stuck inside one call (runaway loop) and is killed, which is attributed like a crash
				hung := false
				err := cmd.Start()
				if err == nil {
					done := make(chan struct{})
					go func() {
						lastSize, lastChange := int64(-1), time.Now()
						for {
							select {
							case <-done:
								return
							case <-time.After(2 * time.Second):
							}
							if fi, e := os.Stat(prog); e == nil && fi.Size() != lastSize {
								lastSize, lastChange = fi.Size(), time.Now()
							}
							if time.Since(lastChange) > 120*time.Second {
								hung = true
								cmd.Process.Kill()
								return
							}
						}
					}()
					err = cmd.Wait()
					close(done)
				}
				sc := bufio.NewScanner(&stdout)
				sc.Buffer(make([]byte, 1<<20), 1<<30)
				var final *codeccheck.Result
				for sc.Scan() {
					var line struct {
						Finding *codeccheck.Finding `json:"finding"`
						Result  *codeccheck.Result  `json:"result"`
						Partial *codeccheck.Result  `json:"partial"`
					}
					if json.Unmarshal(sc.Bytes(), &line) != nil {
						continue
					}
					if line.Finding != nil {
						if _, ok := bySig[line.Finding.Sig]; !ok {
							bySig[line.Finding.Sig] = line.Finding
						}
					}
					if line.Result != nil {
						final = line.Result
					}
					if line.Partial != nil && (final == nil || line.Result == nil) {
						final = line.Partial
					}
				}
				complete := final != nil && err == nil
				if final != nil {
					merged.States += final.States
					merged.Transitions += final.Transitions
					merged.Evaluations += final.Evaluations
					merged.Distinct += final.Distinct
					merged.Samples = append(merged.Samples, final.Samples...)
					for k, v := range final.Outcomes {
						merged.Outcomes[k] += v
					}
					for k, v := range final.Extra {
						merged.Extra[k] += v
					}
					if final.Capped != "" {
						merged.Capped = final.Capped
					}
					if final.HarnessErr != "" {
						merged.HarnessErr = final.HarnessErr
					}
					for _, f := range final.Findings {
						bySig[f.Sig] = f
					}
				}
				if complete {
					break
				}
				// the worker died: attribute the death to the case it was working on and restart without it
				last := ""
				if b, e := os.ReadFile(prog); e == nil {
					lines := strings.Split(strings.TrimSpace(string(b)), "\n")
					last = lines[len(lines)-1]
				}
				se := stderr.String()
				kind := "crash"
				if hung {
					kind = "hang"
				} else if strings.Contains(se, "out of memory") || strings.Contains(se, "cannot allocate memory") {
					kind = "out-of-memory"
				} else if strings.Contains(se, "stack overflow") || strings.Contains(se, "goroutine stack exceeds") {
					kind = "stack-overflow"
				}
				// a fatal error whose running goroutine shows no frame of the code under test among its innermost frames is
				// the harness's own (a value enumerator recursing, say): a harness error, never a verdict
				ownFault := false
				if kind == "stack-overflow" || kind == "out-of-memory" {
					if k := strings.Index(se, "[running]"); k >= 0 {
						inner := strings.Split(se[k:], "\n")
						if len(inner) > 80 {
							inner = inner[:80]
						}
						it := strings.Join(inner, "\n")
						ownFault = strings.Contains(it, "verif/") && !strings.Contains(it, "codecwork/") && !strings.Contains(it, "200sc/bebop")
					}
				}
				if len(se) > 1200 {
					se = se[:600] + "\n...\n" + se[len(se)-600:]
				}
				if ownFault {
					crashes[i] = fmt.Sprintf("worker %s shard %s died with a fatal %s inside the harness itself (last case %q); stderr: %s", filepath.Base(j.bin), j.shard, kind, last, se)
					break
				}
				marker, class, _ := strings.Cut(last, "|")
				if marker == "" || attempt == 399 || marker == resume {
					crashes[i] = fmt.Sprintf("worker %s shard %s died (%v) and could not be attributed to a case (marker %q); stderr: %s", filepath.Base(j.bin), j.shard, err, last, se)
					break
				}
				sig := fmt.Sprintf("%s|worker-killed|%s|%s", prop, kind, class)
				if _, ok := bySig[sig]; !ok {
					bySig[sig] = &codeccheck.Finding{Sig: sig, N: 1, Msg: fmt.Sprintf("the process died with a fatal %s (unrecoverable, under a 4 GiB address-space limit) while working on case %s; stderr: %s", kind, last, se),
						Case: map[string]any{"case": strings.Split(marker, "@")[0], "class": class, "marker": marker}}
				}
				resume = marker
				merged.Capped = "a worker was killed; the values of case " + class + " after the fatal one were not explored"
			}
			for _, f := range bySig {
				merged.Findings = append(merged.Findings, f)
			}
			results[i] = merged
		}(i, j)
	}
	wg.Wait()
	var cr []string
	for _, c := range crashes {
		if c != "" {
			cr = append(cr, c)
		}
	}
	var rs []*codeccheck.Result
	for _, r := range results {
		if r != nil {
			rs = append(rs, r)
		}
	}
	return rs, cr
}

var levels = map[string]string{"C01": "model_checking", "C02": "model_checking", "C03": "model_checking", "C04": "model_checking", "C05": "model_checking",
	"C06": "fault_enumeration", "C07": "model_checking", "C08": "fault_enumeration", "C09": "model_checking"}

var rules = map[string]string{
	"C01": "state = (record case, option set, value); transition = one encoder→decoder pairing executed on generated code; distinct = distinct (case, encoding) pairs",
	"C02": "state = (record case, option set, value, map rotation); transitions = encoder calls over buffer pre-states {00,ff,a5/5a} × {Size(), Size()+8}; distinct = distinct (case, encoding)",
	"C03": "state = (record case, option set, value, map rotation); transitions = encodes compared with / reference encodings (every permutation of ≤3 map entries) decoded by each decoder; distinct = distinct reference encodings",
	"C04": "state = (version pair, nesting context, v2 value); transitions = decodes of v2 bytes by v1 types on both paths",
	"C05": "state = choice point (one Read call of the harness reader) reached; transition = choice taken; all schedules with ≤ bound deviations from 'return everything' are run, plus the uniform 1-byte and half schedules",
	"C06": "evaluation = (record case, value, cut point k, decoder, EOF style); every cut point 0 ≤ k < len(encoding) is executed; distinct non-trivial = distinct (case, value, byte role at the cut) triples",
	"C07": "state = (record case, byte string); transitions = decoder calls; byte strings = all strings ≤ 5 bytes over {00,01,02,03,7f,ff} plus exhaustive one- and two-site structure-aware corruptions and splices of every enumerated valid encoding",
	"C08": "evaluation = (record case, value, fault point, style); every Write call index / every byte offset is failed once (and all pairs in thorough); distinct non-trivial = distinct (case, value, fault point) with a fault actually delivered",
	"C09": "state = (record case, value); transitions = encodes/decodes under each of the 32 option sets compared with the baseline option set",
}

func main() {
	prop := flag.String("property", "", "")
	replay := flag.String("replay", "", "")
	prepare := flag.Bool("prepare", false, "build the quick-tier workers for the current tree")
	flag.Parse()
	tier := os.Getenv("VERIF_TIER")
	if tier != "thorough" {
		tier = "quick"
	}
	if *prepare {
		if _, err := ensureBuilt("quick"); err != nil {
			fmt.Fprintln(os.Stderr, "codec -prepare:", err)
			os.Exit(1)
		}
		return
	}
	if _, ok := levels[*prop]; !ok {
		vlib.Fatal("codec: unknown property %q", *prop)
	}
	run := vlib.NewRun(*prop, levels[*prop])
	bi, err := ensureBuilt(tier)
	if err != nil {
		vlib.Fatal("%v", err)
	}
	var extra []string
	if *replay != "" {
		b, err := os.ReadFile(*replay)
		if err != nil {
			vlib.Fatal("replay: %v", err)
		}
		var v struct {
			Case map[string]any `json:"case"`
		}
		if json.Unmarshal(b, &v) != nil || v.Case["case"] == nil {
			vlib.Fatal("replay file has no case")
		}
		extra = []string{"-only", fmt.Sprint(v.Case["case"])}
		if o, ok := v.Case["opt"].(float64); ok {
			extra = append(extra, "-opt", fmt.Sprint(int(o)))
		}
	}
	results, crashes := runWorkers(bi, *prop, tier, extra)
	var states, trans, evals, distinct int64
	outcomes := map[string]int{}
	extraCounts := map[string]int{}
	for _, r := range results {
		if r.HarnessErr != "" {
			vlib.Fatal("worker %s: %s", r.Shard, r.HarnessErr)
		}
		states += r.States
		trans += r.Transitions
		evals += r.Evaluations
		distinct += r.Distinct
		for k, v := range r.Outcomes {
			outcomes[k] += v
		}
		for k, v := range r.Extra {
			extraCounts[k] += v
		}
		for _, f := range r.Findings {
			for i := 0; i < f.N; i++ {
				run.Report(f.Sig, f.Msg, f.Case)
				if i > 3 {
					break
				}
			}
		}
		for _, s := range r.Samples {
			run.Sample(s)
		}
		if r.Capped != "" {
			run.Cap(r.Capped)
		}
	}
	for _, c := range crashes {
		// a dead worker is a verdict only for the properties whose statement covers crashes / memory exhaustion
		run.Report(*prop+"|worker-died", c, map[string]any{"crash": c})
	}
	if *prop == "C04" && states == 0 && len(extra) == 0 {
		vlib.Fatal("C04: no schema-evolution case was compiled into the workers (the evolution batch failed to generate or type-check: see C12); nothing could be checked")
	}
	if evals == 0 {
		evals = states
	}
	run.Coverage["states"] = states
	run.Coverage["transitions"] = trans
	run.Coverage["traces_validated_against_impl"] = trans
	run.Coverage["evaluations"] = evals
	run.Coverage["distinct_nontrivial"] = distinct
	run.Coverage["rule"] = rules[*prop]
	run.Coverage["records_compiled"] = bi.Records
	run.Coverage["packages_compiled"] = bi.Packages
	run.Coverage["cases_not_compilable_dropped"] = len(bi.Dropped)
	dc := map[string]int{}
	for _, d := range bi.Dropped {
		dc[d.Phase+":"+d.Category]++
	}
	run.Coverage["dropped_by_class"] = dc
	run.Coverage["distinct_outcomes"] = outcomes
	for k, v := range extraCounts {
		run.Coverage[k] = v
	}
	run.Coverage["explanation"] = "every execution is an execution of Go code generated by the working tree's ReadFile+Generate, compiled with the runtime map-order seam; no abstract model is involved"
	run.Assume = []string{
		"cases whose generated code does not type-check are excluded here (none on the unchanged tree; counted in cases_not_compilable_dropped) and reported by C12",
		"unions carry exactly one member; a float-keyed map holds at most one NaN key (the quiet NaN); the Unix-epoch instant and dates outside the UnixNano range are outside the value domain",
		"value sets are boundary sets, containers hold at most 3 elements",
	}
	run.Finish()
}
