// C14 - "Parsing, validating, generating and formatting are pure and repeatable".
//
// Orchestrator. Built plainly by /verif/check; at run time it
//
//	(a) rewrites the non-test files of package bebop of /repo's current working tree so that they call
//	    verif/sched.Yield before every statement that may touch memory (overlay.YieldSeam) and patches
//	    runtime/map.go with the map-iteration seam (overlay.MapSeam) - both only as `go build -overlay` files;
//	(b) builds ./cmd/c14/worker twice: with the overlay (exploration, map orders, repetition) and with
//	    -race and no overlay (free-running race pass);
//	(c) runs the workers on units of work (16 at a time), merges their JSON results and reports through vlib.
//
// Sub-checks: interleavings (controlled scheduler, preemption-bounded exhaustive DFS), map iteration
// orders (all 64 iteration starts), repetition/aliasing (all call sequences up to a length), race pass
// (Go race detector = dynamic happens-before analysis on free-running goroutines).
package main

import (
	"bytes"
	"encoding/json"
	"flag"
	"fmt"
	"os"
	"os/exec"
	"path/filepath"
	"regexp"
	"runtime"
	"sort"
	"strings"
	"sync"
	"time"

	"verif/overlay"
	"verif/vlib"
)

const bebopPkg = "github.com/200sc/bebop"

var alphabet = []string{"Generate-separate", "Generate-combined", "Generate-private-ptr", "Validate", "ReadFile", "Format"}
var extraOps = []string{"Generate-separate-allflags", "Generate-combined-allflags", "Generate-combined-unsafe-tags", "Generate-separate-shared-strings"}

var workDir string

func cleanup() {
	if workDir != "" && os.Getenv("C14_KEEP") == "" {
		os.RemoveAll(workDir)
	}
}

func die(format string, a ...any) {
	cleanup()
	vlib.Fatal(format, a...)
}

// ---------------------------------------------------------------- unit / result (mirror of the worker's types)

type unit struct {
	Mode     string   `json:"mode"`
	Schema   string   `json:"schema,omitempty"`
	Schemas  []string `json:"schemas,omitempty"`
	Ops      []string `json:"ops,omitempty"`
	LSites   bool     `json:"lsites"`
	Bound    int      `json:"bound"`
	Shard    int      `json:"shard"`
	Shards   int      `json:"shards"`
	Deadline int64    `json:"deadline"`
	MaxLen   int      `json:"max_len,omitempty"`
	Rs       int      `json:"rs,omitempty"`
	Iters    int      `json:"iters,omitempty"`
	Choices  [][2]int `json:"choices,omitempty"`
	NChoices int      `json:"nchoices,omitempty"`
	Seq      []string `json:"seq,omitempty"`
	R        []int    `json:"r,omitempty"`
	Dev      int      `json:"dev,omitempty"`
	DevCap   int      `json:"dev_cap,omitempty"`
	DevAt    []int    `json:"dev_at,omitempty"`
	Sites    string   `json:"sites,omitempty"`

	pass string  // orchestrator only
	est  float64 // estimated schedules
	race bool
}

type violation struct {
	Sig  string         `json:"sig"`
	Msg  string         `json:"msg"`
	Case map[string]any `json:"case"`
	N    int            `json:"n"`
}

type result struct {
	Unit         unit                      `json:"unit"`
	Error        string                    `json:"error"`
	Capped       bool                      `json:"capped"`
	Skipped      string                    `json:"skipped"`
	Executed     int                       `json:"executed"`
	Schedules    int                       `json:"schedules"`
	ChoicePoints int                       `json:"choice_points"`
	Steps        int                       `json:"steps"`
	ByPreempt    map[string]int            `json:"by_preempt"`
	Outcomes     map[string]int            `json:"outcomes"`
	Violations   []*violation              `json:"violations"`
	Info         map[string]int            `json:"info"`
	Sample       any                       `json:"sample"`
	Probe        map[string]map[string]any `json:"probe"`
	Evaluations  int                       `json:"evaluations"`
	Seconds      float64                   `json:"seconds"`

	u        *unit
	raceLogs []string
}

var unitSeq int
var unitMu sync.Mutex

// runUnit runs one worker process on one unit.
func runUnit(bin string, u *unit, env []string) (*result, error) {
	unitMu.Lock()
	unitSeq++
	id := unitSeq
	unitMu.Unlock()
	up := filepath.Join(workDir, fmt.Sprintf("unit-%d.json", id))
	b, _ := json.Marshal(u)
	if err := os.WriteFile(up, b, 0o644); err != nil {
		return nil, err
	}
	cmd := exec.Command(bin, "-unit", up)
	cmd.Env = append(os.Environ(), env...)
	var stdout, stderr bytes.Buffer
	cmd.Stdout, cmd.Stderr = &stdout, &stderr
	logPrefix := ""
	if u.race {
		logPrefix = filepath.Join(workDir, fmt.Sprintf("race-%d.log", id))
		cmd.Env = append(cmd.Env, "GORACE=halt_on_error=0 log_path="+logPrefix)
	}
	if err := cmd.Run(); err != nil {
		// the race detector makes the process exit 66 when races were reported
		if ee, ok := err.(*exec.ExitError); !(ok && u.race && ee.ExitCode() == 66) {
			return nil, fmt.Errorf("worker for %s %v failed: %v\n%s", u.Mode, u.Ops, err, vlib.Short(stderr.String(), 3000))
		}
	}
	var r result
	if err := json.Unmarshal(bytes.TrimSpace(stdout.Bytes()), &r); err != nil {
		return nil, fmt.Errorf("worker for %s %v: unreadable result: %v\nstdout: %s\nstderr: %s", u.Mode, u.Ops, err, vlib.Short(stdout.String(), 500), vlib.Short(stderr.String(), 2000))
	}
	r.u = u
	if u.race {
		logs, _ := filepath.Glob(logPrefix + ".*")
		r.raceLogs = logs
	}
	return &r, nil
}

// ---------------------------------------------------------------- schemas

// The schema of the interleaving exploration is kept minimal (cost grows with the square/cube of the
// number of yields): one record of every kind on both sides of the import, one map field (the per-call
// ln counter), imported types used from inside a union so that Validate accepts the file on its own.
const smallMain = `import "imp.bop"
message M { 1 -> map[string, int32] m; }
union U {
  1 -> struct B { Q q; E e; E[] es; }
  [deprecated("old")]
  2 -> struct C { int32 c; }
}
`

const smallImp = `const string go_package = "example.com/c14/imp";
struct Q { int32 y; }
enum E { One = 1; }
message IM { 1 -> Q q; }
union IU { 1 -> struct IS {} }
`

// mapsSchema builds a schema whose maps (message fields, union branches, used types, import aliases)
// have 2..9 entries.
func mapsSchema() (main, impa, impb string) {
	types := []string{"int32", "string", "guid", "date", "float64", "uint16", "bool", "byte[]", "map[string, int32]", "uint64[]", "S2", "map[guid, S2]", "int64"}
	var b strings.Builder
	b.WriteString("import \"impa.bop\"\nimport \"impb.bop\"\n")
	b.WriteString("const int32 answer = 42;\nconst string greeting = \"hi\";\n")
	b.WriteString("enum Color { Red = 1; Green = 2; Blue = 3; }\n")
	b.WriteString("struct S2 { int32 a; string b; }\n")
	b.WriteString("struct S6 { guid g; date d; float64 f; Color c; bool[] bs; map[string, S2] m; map[int32, map[string, S2[]]] mm; }\n")
	for _, n := range []int{2, 3, 4, 5, 7, 8, 9} {
		fmt.Fprintf(&b, "/* message with %d fields */\nmessage M%d {\n", n, n)
		for i := 1; i <= n; i++ {
			// indices deliberately not in textual order: a multiplier coprime to n+1 permutes 1..n
			k := 2
			for gcd(k, n+1) != 1 {
				k++
			}
			idx := (i * k) % (n + 1)
			fmt.Fprintf(&b, "  %d -> %s f%d;\n", idx, types[(i+n)%len(types)], idx)
		}
		b.WriteString("}\n")
	}
	for _, n := range []int{2, 3, 5, 8, 9} {
		fmt.Fprintf(&b, "union U%d {\n", n)
		for i := n; i >= 1; i-- {
			if i == 2 {
				// a deprecated, documented branch (attributes live on the union field, comments on the member)
				fmt.Fprintf(&b, "  /* branch %d is on its way out */\n  [deprecated(\"use branch 1\")]\n", i)
			}
			if i%2 == 0 {
				fmt.Fprintf(&b, "  %d -> message U%dM%d { 1 -> %s p; 2 -> %s q; }\n", i, n, i, types[i%len(types)], types[(i+3)%len(types)])
			} else {
				imported := []string{"PA", "PB", "EA", "QA", "QB"}[i%5]
				// imported types also as array elements and map values (the Size() emitter resolves their aliases)
				fmt.Fprintf(&b, "  %d -> struct U%dS%d { %s v; %s imp; %s[] imps; map[string, %s[]] impm; }\n", i, n, i, types[(i+1)%len(types)], imported, imported, imported)
			}
		}
		b.WriteString("}\n")
	}
	// union branches that embed sibling branches, used in arrays and maps: everything derived per branch
	// (names, sizes, guards) is computed while ranging over the union's field map
	b.WriteString("union Geo {\n  1 -> struct GPoint { int32 x; int32 y; }\n  2 -> struct GSegment { GPoint from; GPoint to; }\n")
	b.WriteString("  3 -> struct GPath { GSegment[] segs; map[string, GSegment] named; }\n  4 -> struct GBox { GSegment diag; GPoint[] corners; }\n")
	b.WriteString("  5 -> message GMsg { 1 -> GPath[] paths; 2 -> map[uint32, GBox] boxes; }\n  7 -> struct GTri { GSegment a; GSegment b; GPoint apex; }\n}\n")
	b.WriteString("struct UsesGeo { GSegment[] segs; map[string, GBox] boxes; GPath p; GTri[] tris; }\n")
	// branch structs that hold a message directly and through arrays / maps of sibling branches (a chain, not a cycle:
	// Validate rejects struct cycles even through arrays)
	b.WriteString("message CyNote { 1 -> string text; }\nunion CyTree {\n  1 -> struct CyBranch { CyNote[] notes; }\n  2 -> struct CyLeaf { CyBranch[] parents; CyNote note; }\n  3 -> struct CyTwig { map[string, CyLeaf] byName; CyBranch[] up; }\n}\nstruct CyForest { CyBranch[] roots; CyTwig[] twigs; int32 n; }\n")
	impa = "const string go_package = \"example.com/c14/impa\";\nstruct PA { int32 y; }\nstruct PB { string s; PA a; }\nenum EA { One = 1; Two = 2; }\nmessage MA { 1 -> PA a; 2 -> EA e; 3 -> PB b; }\nunion UA { 1 -> struct UAS { int32 z; } 2 -> message UAM { 1 -> PA p; } }\n"
	impb = "const string go_package = \"example.com/c14/impb\";\nstruct QA { float32 y; }\nstruct QB { map[string, QA] m; }\nenum EB { X = 7; }\nmessage MB { 1 -> QA a; 2 -> QB b; }\n"
	return b.String(), impa, impb
}

var schemaPaths = map[string]string{} // logical id -> path

func schemaID(path string) string {
	for id, p := range schemaPaths {
		if p == path {
			return id
		}
	}
	if rel, err := filepath.Rel(vlib.RepoDir(), path); err == nil && !strings.HasPrefix(rel, "..") {
		return "repo:" + rel
	}
	return path
}

func schemaPath(id string) string {
	if p, ok := schemaPaths[id]; ok {
		return p
	}
	if strings.HasPrefix(id, "repo:") {
		return filepath.Join(vlib.RepoDir(), strings.TrimPrefix(id, "repo:"))
	}
	return id
}

// noImports has no import statement (Generate merges nothing into its copies of the File's slices), three top-level structs
// (ReadFile leaves spare capacity behind them) and a union with inline struct and message members.
const noImports = `struct NiPoint { int32 x; int32 y; }
readonly struct NiSpan { int32 type; int32 range; int32 func; NiPoint len; }
message NiWords { 1 -> int32 type; 2 -> string string; 3 -> int32 error; }
struct NiSize { uint16 w; uint16 h; }
struct NiLabel {
  //[tag(json:"text")]
  //[tag(json:"label_text,omitempty")]
  //[tag(db:"text")]
  //[tag(yaml:"text")]
  string text;
  //[tag(json:"at")]
  //[tag(json:"at")]
  NiPoint at;
}
union NiShape {
  1 -> struct NiCircle { NiPoint centre; float32 r; }
  //[tag(kind:"text")]
  //[tag(kind:"txt")]
  //[tag(other:"x")]
  2 -> message NiText {
    //[tag(json:"label")]
    //[tag(json:"lbl")]
    //[tag(xml:"label")]
    1 -> NiLabel label;
    2 -> NiSize box;
  }
  3 -> struct NiBox { NiPoint a; NiPoint b; NiLabel[] labels; }
}
message NiDrawing { 1 -> NiShape[] shapes; 2 -> map[string, NiCircle] named; }
enum NiKind { A = 1; B = 2; }
`

// structRing is INVALID on purpose: a struct that contains itself through a ring of six, next to structs that are not on
// the ring. Validate and Generate must reject it under every map iteration order (the recursion analysis iterates maps).
const structRing = `struct RgLeafA { int32 v; }
struct Rg0 { int32 v; Rg1 next; }
struct Rg1 { RgLeafA a; Rg2 next; }
struct Rg2 { int32 v; Rg3 next; }
struct RgLeafB { string s; RgLeafA a; }
struct Rg3 { Rg4 next; }
struct Rg4 { RgLeafB b; Rg5 next; }
struct Rg5 { Rg0 next; }
`

// ringSchemas is a family of INVALID schemas: a struct containing itself through a ring of n structs, declared forwards,
// backwards or interleaved, with structs that are not on the ring declared first, in the middle or last.
func ringSchemas() map[string]string {
	out := map[string]string{}
	for _, n := range []int{3, 4, 5, 6, 8, 10} {
		for _, order := range []string{"fwd", "rev", "mix"} {
			for _, leaves := range []int{1, 3, 6} {
				for _, pos := range []string{"first", "mid", "last"} {
					ring := make([]string, n)
					for i := range ring {
						ring[i] = fmt.Sprintf("struct Rg%d { int32 v; Rg%d next; RgLeaf%d l; }\n", i, (i+1)%n, i%leaves)
					}
					idx := make([]int, n)
					for i := range idx {
						switch order {
						case "fwd":
							idx[i] = i
						case "rev":
							idx[i] = n - 1 - i
						default:
							if i%2 == 0 {
								idx[i] = i / 2
							} else {
								idx[i] = n - 1 - i/2
							}
						}
					}
					var lv strings.Builder
					for i := 0; i < leaves; i++ {
						fmt.Fprintf(&lv, "struct RgLeaf%d { float32 x; float32 y; }\n", i)
					}
					var b strings.Builder
					for k, i := range idx {
						if (pos == "first" && k == 0) || (pos == "mid" && k == n/2) {
							b.WriteString(lv.String())
						}
						b.WriteString(ring[i])
					}
					if pos == "last" {
						b.WriteString(lv.String())
					}
					out[fmt.Sprintf("invalid-ring-%d-%s-%d-%s", n, order, leaves, pos)] = b.String()
				}
			}
		}
	}
	return out
}

// deepSchema: containers nested ten deep - generated lines indented further than anything the repository's own schemas
// reach (tables indexed by depth, per-depth variable names). Used by the race pass (cold start) and the map-order pass.
const deepSchema = `struct DeepLeaf { int32 a; string b; }
struct Deep { int32[][][][][][][][][][] a; map[string, map[int32, map[string, map[guid, string[][][][][][]]]]] m; }
message DeepM { 1 -> DeepLeaf[][][][][][][][][] a; 2 -> map[string, map[string, map[string, map[string, map[string, int32[][][]]]]]] m; }
`

func writeSchemas() {
	w := func(rel, text string) string {
		p := filepath.Join(workDir, "schemas", rel)
		if err := os.MkdirAll(filepath.Dir(p), 0o755); err != nil {
			die("%v", err)
		}
		if err := os.WriteFile(p, []byte(text), 0o644); err != nil {
			die("%v", err)
		}
		return p
	}
	schemaPaths["builtin:small"] = w("small/main.bop", smallMain)
	w("small/imp.bop", smallImp)
	m, a, b := mapsSchema()
	schemaPaths["builtin:maps"] = w("maps/main.bop", m)
	w("maps/impa.bop", a)
	w("maps/impb.bop", b)
	schemaPaths["builtin:noimports"] = w("noimports/main.bop", noImports)
	schemaPaths["builtin:invalid-ring"] = w("invalid-ring/main.bop", structRing)
	schemaPaths["builtin:deep"] = w("deep/main.bop", deepSchema)
	// names that differ only in the case of their first letter (one Go name): accepted or rejected, the answer - error
	// text included - has to be the same under every order
	schemaPaths["builtin:odd-case"] = w("odd-case/main.bop", "message OcPacket { 1 -> int32 data; 2 -> string Data; 3 -> bool other; 4 -> int32 Other; }\nunion OcU { 1 -> message OcM { 1 -> int32 x; 2 -> int32 X; 3 -> int32 y; 4 -> int32 Y; } }\n")
	for name, text := range ringSchemas() {
		schemaPaths["ring:"+name] = w(name+"/main.bop", text)
	}
}

// ---------------------------------------------------------------- builds

type builds struct {
	worker, raceWorker, sites string
	yi                        *overlay.YieldInfo
	buildSeconds              float64
	unsupported               []string
}

func build(needRace, needOverlay bool) *builds {
	t0 := time.Now()
	harness := filepath.Join(vlib.VerifDir(), "harness")
	b := &builds{worker: filepath.Join(workDir, "worker"), raceWorker: filepath.Join(workDir, "raceworker"), sites: filepath.Join(workDir, "sites.json")}
	var wg sync.WaitGroup
	var errOv, errRace error
	if needOverlay {
		wg.Add(1)
		go func() {
			defer wg.Done()
			var ov overlay.File
			yi, err := overlay.YieldSeam(&ov, filepath.Join(workDir, "ov"), harness, bebopPkg, "verif/sched", []string{"File"})
			if err != nil {
				errOv = err
				return
			}
			b.yi = yi
			if len(yi.Unsupported) > 0 {
				// blocking / atomic synchronisation is not modelled by the cooperative scheduler: the interleaving exploration is
				// skipped (reported as a cap), the single-threaded passes and the free-running race pass still run
				b.unsupported = yi.Unsupported
			}
			sb, _ := json.Marshal(yi)
			if err := os.WriteFile(b.sites, sb, 0o644); err != nil {
				errOv = err
				return
			}
			if err := overlay.MapSeam(&ov, filepath.Join(workDir, "ov")); err != nil {
				errOv = err
				return
			}
			ovp, err := ov.Write(filepath.Join(workDir, "ov"))
			if err != nil {
				errOv = err
				return
			}
			cmd := exec.Command("go", "build", "-overlay", ovp, "-tags", "c14seam", "-o", b.worker, "./cmd/c14/worker")
			cmd.Dir = harness
			if out, err := cmd.CombinedOutput(); err != nil {
				errOv = fmt.Errorf("overlay build of the worker failed: %v\n%s", err, vlib.Short(string(out), 4000))
			}
		}()
	}
	if needRace {
		wg.Add(1)
		go func() {
			defer wg.Done()
			cmd := exec.Command("go", "build", "-race", "-o", b.raceWorker, "./cmd/c14/worker")
			cmd.Dir = harness
			if out, err := cmd.CombinedOutput(); err != nil {
				errRace = fmt.Errorf("-race build of the worker failed: %v\n%s", err, vlib.Short(string(out), 4000))
			}
		}()
	}
	wg.Wait()
	if errOv != nil {
		die("%v", errOv)
	}
	if errRace != nil {
		die("%v", errRace)
	}
	b.buildSeconds = time.Since(t0).Seconds()
	return b
}

// ---------------------------------------------------------------- race reports

var reAccess = regexp.MustCompile(`^(Read|Write|Previous read|Previous write|Atomic read|Atomic write|Previous atomic read|Previous atomic write) at 0x[0-9a-f]+ by (main )?goroutine`)

type raceAccess struct{ kind, fn, loc string }

// parseRaces extracts, per report, the innermost frame in package bebop of both accesses.
func parseRaces(text string) [][2]raceAccess {
	var out [][2]raceAccess
	for _, block := range strings.Split(text, "WARNING: DATA RACE")[1:] {
		lines := strings.Split(block, "\n")
		var acc []raceAccess
		for i := 0; i < len(lines); i++ {
			m := reAccess.FindStringSubmatch(lines[i])
			if m == nil {
				continue
			}
			a := raceAccess{kind: strings.ToLower(strings.TrimPrefix(m[1], "Previous "))}
			top := ""
			for j := i + 1; j+1 < len(lines) && strings.HasPrefix(lines[j], "  "); j += 2 {
				fn := strings.TrimSuffix(strings.TrimSpace(lines[j]), "()")
				loc := strings.TrimSpace(lines[j+1])
				if k := strings.Index(loc, " +0x"); k >= 0 {
					loc = loc[:k]
				}
				if top == "" {
					top = fn + " " + filepath.Base(loc)
				}
				if strings.HasPrefix(fn, bebopPkg+".") {
					a.fn = "bebop." + strings.TrimPrefix(fn, bebopPkg+".")
					a.loc = filepath.Base(loc)
					break
				}
			}
			if a.fn == "" {
				a.fn, a.loc = top, ""
			}
			acc = append(acc, a)
		}
		if len(acc) >= 2 {
			out = append(out, [2]raceAccess{acc[0], acc[1]})
		}
	}
	return out
}

// ---------------------------------------------------------------- main

func gcd(a, b int) int {
	for b != 0 {
		a, b = b, a%b
	}
	return a
}

func pairsOf(ops []string) [][]string {
	var out [][]string
	for i := range ops {
		for j := i; j < len(ops); j++ {
			out = append(out, []string{ops[i], ops[j]})
		}
	}
	return out
}

func repoSchemas() []string {
	var out []string
	base, _ := filepath.Glob(filepath.Join(vlib.RepoDir(), "testdata", "base", "*.bop"))
	sort.Strings(base)
	out = append(out, base...)
	for _, n := range []string{"import_separate_a.bop", "import_separate_b.bop", "import_loop_a.bop"} {
		p := filepath.Join(vlib.RepoDir(), "testdata", "incompatible", n)
		if _, err := os.Stat(p); err == nil {
			out = append(out, p)
		}
	}
	return out
}

func main() {
	prop := flag.String("property", "C14", "")
	replayFile := flag.String("replay", "", "")
	flag.Parse()
	run := vlib.NewRun(*prop, "model_checking")
	start := time.Now()
	workDir = filepath.Join(vlib.VerifDir(), ".cache", "work", fmt.Sprintf("c14-%d", os.Getpid()))
	if err := os.MkdirAll(workDir, 0o755); err != nil {
		vlib.Fatal("%v", err)
	}
	writeSchemas()
	if *replayFile != "" {
		os.Exit(replay(*replayFile))
	}
	thorough := run.Thorough()
	bl := build(true, true)
	fmt.Printf("C14: yield seam inserted %d scheduling points (%d class S, %d class L) into %d files of package bebop (%d statements examined); builds took %.1fs\n",
		len(bl.yi.Sites), bl.yi.NS, bl.yi.NL, bl.yi.Files, bl.yi.Statements, bl.buildSeconds)
	small := schemaPaths["builtin:small"]

	// probe: yields per operation, to size the shards
	pr, err := runUnit(bl.worker, &unit{Mode: "probe", Schema: small, Ops: alphabet, Sites: bl.sites}, nil)
	if err != nil {
		die("%v", err)
	}
	nS, nAll := map[string]float64{}, map[string]float64{}
	for _, op := range alphabet {
		p := pr.Probe[op]
		nS[op], _ = p["s"].(float64)
		nAll[op], _ = p["all"].(float64)
		fmt.Printf("C14: probe %-22s status=%v yields: %v at S sites, %v at all sites, output %v bytes\n", op, p["status"], p["s"], p["all"], p["out_bytes"])
		if st, _ := p["status"].(string); strings.HasPrefix(st, "panic") {
			die("operation %s panics on the built-in schema when run alone: %s", op, st)
		}
	}

	// ---- plan
	quickExplore, thoroughExplore := 135*time.Second, 26*time.Minute
	deadline := start.Add(quickExplore)
	if thorough {
		deadline = start.Add(thoroughExplore)
	}
	if s := os.Getenv("C14_EXPLORE_S"); s != "" {
		var v int
		fmt.Sscan(s, &v)
		deadline = start.Add(time.Duration(v) * time.Second)
	}
	var units []*unit
	excluded := map[string][]string{}
	shardsFor := func(est, per float64, max int) int {
		k := int(est/per) + 1
		if k > max {
			k = max
		}
		return k
	}
	addExplore := func(pass string, ops []string, l bool, bound int, est float64, per float64, max int) {
		if len(bl.unsupported) > 0 {
			return
		}
		k := shardsFor(est, per, max)
		for s := 0; s < k; s++ {
			units = append(units, &unit{Mode: "explore", Schema: small, Ops: ops, LSites: l, Bound: bound, Shard: s, Shards: k,
				Deadline: deadline.Unix(), Sites: bl.sites, pass: pass, est: est / float64(k)})
		}
	}
	type passInfo struct {
		name, what string
		lsites     bool
		bound, n   int
	}
	passes := []passInfo{
		{"A", "2 threads, every yield site (S+L), <=1 preemption", true, 1, 2},
		{"B", "2 threads, class-S yield sites, <=2 preemptions", false, 2, 2},
	}
	for _, p := range pairsOf(alphabet) {
		a, b := p[0], p[1]
		addExplore("A", p, true, 1, 2*(1+nAll[a]+nAll[b]), 8000, 16)
		addExplore("B", p, false, 2, 2*(1+nS[a]+nS[b]+nS[a]*nS[b]), 12000, 64)
	}
	if thorough {
		passes = append(passes,
			passInfo{"C", "3 threads, class-S yield sites, <=2 preemptions", false, 2, 3},
			passInfo{"D", "2 threads, every yield site (S+L), <=2 preemptions", true, 2, 2},
			passInfo{"E", "2 threads, class-S yield sites, <=3 preemptions", false, 3, 2})
		triples := [][]string{
			{"Generate-separate", "Generate-combined", "Generate-private-ptr"},
			{"Generate-separate", "Generate-separate", "Generate-combined"},
			{"Generate-separate", "Generate-combined", "Validate"},
			{"Generate-separate", "Generate-combined", "ReadFile"},
			{"Generate-combined", "Validate", "Format"},
			{"Validate", "ReadFile", "Format"},
		}
		for _, t := range triples {
			a, b, c := nS[t[0]], nS[t[1]], nS[t[2]]
			addExplore("C", t, false, 2, 6*(a*b+a*c+b*c)*2, 60000, 128)
		}
		// Passes D and E grow with N^2 over all sites / N^3 over class-S sites. Pairs whose estimated schedule
		// count exceeds the per-pair limit (every pair of two Generate calls; in D also Generate with
		// ReadFile/Format and ReadFile with itself) are left out by name; every other pair is explored completely.
		const limitD, limitE = 6.5e6, 6e6
		for _, p := range pairsOf(alphabet) {
			a, b := p[0], p[1]
			if est := 2 * nAll[a] * nAll[b]; est > limitD {
				excluded["D"] = append(excluded["D"], fmt.Sprintf("%s+%s (~%.1fM schedules)", a, b, est/1e6))
			} else {
				addExplore("D", p, true, 2, est, 150000, 256)
			}
		}
		for _, p := range pairsOf(alphabet) {
			a, b := nS[p[0]], nS[p[1]]
			if est := 1 + a*b*(a+b); est > limitE {
				excluded["E"] = append(excluded["E"], fmt.Sprintf("%s+%s (~%.1fM schedules)", p[0], p[1], est/1e6))
			} else {
				addExplore("E", p, false, 3, est, 80000, 256)
			}
		}
	}
	// passes in order (A before B ...), larger units first inside a pass
	passRank := map[string]int{"A": 0, "B": 1, "C": 2, "D": 3, "E": 4}
	sort.SliceStable(units, func(i, j int) bool {
		if passRank[units[i].pass] != passRank[units[j].pass] {
			return passRank[units[i].pass] < passRank[units[j].pass]
		}
		return units[i].est > units[j].est
	})

	// map orders
	allSchemas := append([]string{schemaPaths["builtin:maps"], small, schemaPaths["builtin:noimports"], schemaPaths["builtin:invalid-ring"], schemaPaths["builtin:deep"], schemaPaths["builtin:odd-case"]}, repoSchemas()...)
	var cheap []*unit
	allOps := append(append([]string{}, alphabet...), extraOps...)
	// one-deviation pass: deviation values 0..7 cover every start of a map of up to 8 entries, 0..15 of up to 13
	devVals := 8
	if thorough {
		devVals = 16
	}
	var rings []string
	for k, p := range schemaPaths {
		if strings.HasPrefix(k, "ring:") {
			rings = append(rings, p)
		}
	}
	sort.Strings(rings)
	for i := 0; i < len(rings); i += 11 {
		j := min(i+11, len(rings))
		cheap = append(cheap, &unit{Mode: "maporder", Schemas: rings[i:j], Ops: []string{"Validate"}, Rs: 64, Dev: devVals, pass: "maporder"})
	}
	for i := 0; i < len(allSchemas); i += 3 {
		j := i + 3
		if j > len(allSchemas) {
			j = len(allSchemas)
		}
		cheap = append(cheap, &unit{Mode: "maporder", Schemas: allSchemas[i:j], Ops: allOps, Rs: 64, pass: "maporder"})
	}
	// one deviation, on the valid schemas: Validate everywhere, Generate on the harness's own schemas
	devCap, genCap := 400, 150
	if thorough {
		devCap, genCap = 0, 4000
	}
	for i := 0; i < len(allSchemas); i += 2 {
		cheap = append(cheap, &unit{Mode: "maporder", Schemas: allSchemas[i:min(i+2, len(allSchemas))], Ops: []string{"Validate"}, Rs: 1, Dev: devVals, DevCap: devCap, pass: "maporder"})
	}
	for _, sp := range []string{schemaPaths["builtin:maps"], small, schemaPaths["builtin:noimports"]} {
		for _, op := range []string{"Generate-separate", "Generate-combined-allflags"} {
			cheap = append(cheap, &unit{Mode: "maporder", Schemas: []string{sp}, Ops: []string{op}, Rs: 1, Dev: devVals, DevCap: genCap, pass: "maporder"})
		}
	}
	// imported files edited between two calls
	for _, sp := range []string{small, schemaPaths["builtin:maps"]} {
		cheap = append(cheap, &unit{Mode: "importedit", Schema: sp, Ops: allOps, pass: "importedit"})
	}
	// repetition / aliasing
	maxLen := 2
	repSchemas := []string{small, schemaPaths["builtin:maps"], schemaPaths["builtin:noimports"],
		filepath.Join(vlib.RepoDir(), "testdata", "incompatible", "import_separate_a.bop"),
		filepath.Join(vlib.RepoDir(), "testdata", "base", "import.bop"),
		filepath.Join(vlib.RepoDir(), "testdata", "base", "import_b.bop"),
		filepath.Join(vlib.RepoDir(), "testdata", "base", "jazz.bop")}
	// every generator option differs between at least two operations of the sequence alphabet (state that survives a
	// call shows only when a LATER call asks for something else)
	repOps := append(append([]string{}, alphabet...), "Generate-separate-shared-strings", "Generate-combined-allflags", "Generate-combined-unsafe-tags")
	if thorough {
		maxLen = 3
		repOps = allOps[:8]
	}
	for _, s := range repSchemas {
		if _, err := os.Stat(s); err == nil {
			cheap = append(cheap, &unit{Mode: "repeat", Schemas: []string{s}, Ops: repOps, MaxLen: maxLen, pass: "repeat"})
		}
	}
	// race pass
	iters := 15
	if thorough {
		iters = 100
	}
	var raceUnits []*unit
	for _, p := range pairsOf(alphabet) {
		raceUnits = append(raceUnits, &unit{Mode: "race", Schema: small, Ops: p, Iters: iters, pass: "race", race: true})
	}
	for _, n := range []int{3, 4, 8} {
		ops := []string{}
		for i := 0; i < n; i++ {
			ops = append(ops, alphabet[i%len(alphabet)])
		}
		raceUnits = append(raceUnits, &unit{Mode: "race", Schema: small, Ops: ops, Iters: iters, pass: "race", race: true})
		gen := []string{}
		for i := 0; i < n; i++ {
			gen = append(gen, alphabet[i%3])
		}
		raceUnits = append(raceUnits, &unit{Mode: "race", Schema: small, Ops: gen, Iters: iters, pass: "race", race: true})
	}
	maps := schemaPaths["builtin:maps"]
	deep := schemaPaths["builtin:deep"]
	raceUnits = append(raceUnits, &unit{Mode: "race", Schema: deep, Ops: []string{"Generate-separate", "Generate-separate", "Generate-combined", "Generate-private-ptr"}, Iters: iters, pass: "race", race: true},
		&unit{Mode: "race", Schema: deep, Ops: alphabet, Iters: iters, pass: "race", race: true})
	raceUnits = append(raceUnits, &unit{Mode: "race", Schema: maps, Ops: alphabet, Iters: iters, pass: "race", race: true},
		&unit{Mode: "race", Schema: maps, Ops: []string{"Generate-separate", "Generate-combined"}, Iters: iters, pass: "race", race: true})

	// ---- run: exploration first (it alone has a deadline), then the map-order / repetition units and the race units
	all := append(append(append([]*unit{}, units...), raceUnits...), cheap...)
	results := make([]*result, len(all))
	var firstErr error
	var emu sync.Mutex
	sem := make(chan struct{}, runtime.NumCPU())
	var wg sync.WaitGroup
	for i, u := range all {
		i, u := i, u
		wg.Add(1)
		sem <- struct{}{}
		go func() {
			defer wg.Done()
			defer func() { <-sem }()
			emu.Lock()
			failed := firstErr != nil
			emu.Unlock()
			if failed {
				return
			}
			bin, env := bl.worker, []string{"GOMAXPROCS=1"}
			if u.race {
				bin, env = bl.raceWorker, nil
			}
			if u.Mode == "explore" && time.Now().After(deadline) {
				results[i] = &result{Unit: *u, Capped: true, u: u}
				return
			}
			r, err := runUnit(bin, u, env)
			emu.Lock()
			defer emu.Unlock()
			if err != nil {
				if firstErr == nil {
					firstErr = err
				}
				return
			}
			if r.Error != "" && firstErr == nil {
				firstErr = fmt.Errorf("%s unit %v (lsites=%v bound=%d shard %d/%d): %s", u.Mode, u.Ops, u.LSites, u.Bound, u.Shard, u.Shards, r.Error)
			}
			results[i] = r
		}()
	}
	wg.Wait()
	if firstErr != nil {
		die("%v", firstErr)
	}

	// ---- merge
	type passStat struct {
		units, capped, schedules, executed, choicePoints, steps int
		byPre                                                   map[string]int
		seconds                                                 float64
		cappedPairs                                             map[string]bool
	}
	stats := map[string]*passStat{}
	outcomes := vlib.NewCounter()
	outcomeN := map[string]int{}
	info := map[string]int{}
	violating := map[string]int{}
	samples := 0
	totalEval := 0
	mapOrders, sequences, raceIters, raceReports, importEdits := 0, 0, 0, 0, 0
	for _, r := range results {
		if r == nil {
			continue
		}
		u := r.u
		ps := stats[u.pass]
		if ps == nil {
			ps = &passStat{byPre: map[string]int{}, cappedPairs: map[string]bool{}}
			stats[u.pass] = ps
		}
		ps.units++
		ps.schedules += r.Schedules
		ps.executed += r.Executed
		ps.choicePoints += r.ChoicePoints
		ps.steps += r.Steps
		ps.seconds += r.Seconds
		if r.Capped {
			ps.capped++
			ps.cappedPairs[strings.Join(u.Ops, "+")] = true
		}
		if r.Skipped != "" {
			ps.capped++
			ps.cappedPairs[strings.Join(u.Ops, "+")+" (skipped: "+r.Skipped+")"] = true
		}
		for k, n := range r.ByPreempt {
			ps.byPre[k] += n
		}
		for k, n := range r.Outcomes {
			outcomes.Add(u.pass + " | " + k)
			outcomeN[u.pass+" | "+k] += n
		}
		for k, n := range r.Info {
			info[k] += n
		}
		for _, v := range r.Violations {
			violating[v.Sig] += v.N
			if v.Case != nil {
				if s, ok := v.Case["schema"].(string); ok {
					v.Case["schema"] = schemaID(s)
				}
				v.Case["pass"] = u.pass
			}
			run.Report(v.Sig, v.Msg, v.Case)
		}
		switch u.Mode {
		case "explore":
			totalEval += r.Executed * len(u.Ops)
			if r.Sample != nil && samples < 6 && u.Shard == 0 {
				samples++
				run.Sample(map[string]any{"pass": u.pass, "real_schedule": r.Sample})
			}
		case "maporder":
			totalEval += r.Evaluations
			mapOrders += r.Evaluations
		case "importedit":
			totalEval += r.Evaluations
			importEdits += r.Schedules
		case "repeat":
			totalEval += r.Evaluations
			sequences += r.Schedules
		case "race":
			raceIters += r.Schedules
			totalEval += r.Schedules * len(u.Ops)
			for _, lp := range r.raceLogs {
				b, _ := os.ReadFile(lp)
				for _, rc := range parseRaces(string(b)) {
					raceReports++
					fa, fb := rc[0], rc[1]
					names := []string{fa.fn, fb.fn}
					sort.Strings(names)
					sig := "C14|race|" + names[0] + "/" + names[1]
					violating[sig]++
					run.Report(sig, fmt.Sprintf("Go race detector (dynamic happens-before analysis, free-running goroutines sharing one File value, operations %v on %s): %s in %s at %s conflicts with %s in %s at %s; no synchronisation orders the two accesses",
						u.Ops, schemaID(u.Schema), fa.kind, fa.fn, fa.loc, fb.kind, fb.fn, fb.loc),
						map[string]any{"sub": "race", "ops": u.Ops, "schema": schemaID(u.Schema), "iters": 50, "access_a": fa.kind + " " + fa.fn + " " + fa.loc, "access_b": fb.kind + " " + fb.fn + " " + fb.loc})
				}
			}
		}
	}

	// ---- coverage
	states, transitions, schedules := 0, 0, 0
	passCov := map[string]any{}
	maxPreS, maxPreAll := -1, -1
	var capped []string
	for _, p := range passes {
		ps := stats[p.name]
		if ps == nil {
			continue
		}
		states += ps.choicePoints
		transitions += ps.steps
		schedules += ps.schedules
		complete := ps.capped == 0
		passCov[p.name] = map[string]any{"what": p.what, "units": ps.units, "units_capped": ps.capped, "complete": complete, "schedules": ps.schedules,
			"executions_incl_stepping_stones": ps.executed, "choice_points_visited": ps.choicePoints, "yields_executed": ps.steps,
			"schedules_by_preemptions": ps.byPre, "cpu_seconds": ps.seconds, "pairs_excluded_by_design": excluded[p.name]}
		if complete && p.n == 2 && len(excluded[p.name]) == 0 {
			if p.lsites && p.bound > maxPreAll {
				maxPreAll = p.bound
			}
			if p.bound > maxPreS {
				if !p.lsites || p.bound <= maxPreAll {
					maxPreS = p.bound
				}
			}
		}
		if !complete {
			keys := []string{}
			for k := range ps.cappedPairs {
				keys = append(keys, k)
			}
			sort.Strings(keys)
			capped = append(capped, fmt.Sprintf("pass %s (%s): %d of %d units incomplete (%s)", p.name, p.what, ps.capped, ps.units, vlib.Short(strings.Join(keys, ", "), 300)))
		}
	}
	if len(capped) > 0 {
		run.Cap("exploration incomplete (time budget reached or pair skipped): " + strings.Join(capped, "; "))
	}
	if len(bl.unsupported) > 0 {
		run.Cap("interleaving exploration skipped, package bebop uses synchronisation the cooperative scheduler does not model: " + strings.Join(bl.unsupported, "; ") + " (map-order, repetition/aliasing and race passes were run)")
	}
	run.Coverage["states"] = states
	run.Coverage["transitions"] = transitions
	run.Coverage["traces_validated_against_impl"] = schedules
	run.Coverage["schedules"] = schedules
	run.Coverage["evaluations"] = totalEval
	run.Coverage["distinct_nontrivial"] = outcomes.Distinct()
	{
		type kv struct {
			k string
			n int
		}
		var l []kv
		for k, n := range outcomeN {
			if !strings.HasPrefix(k, "maporder") {
				l = append(l, kv{k, n})
			}
		}
		sort.Slice(l, func(i, j int) bool { return l[i].n > l[j].n || l[i].n == l[j].n && l[i].k < l[j].k })
		top := map[string]int{}
		for i := 0; i < len(l) && i < 16; i++ {
			top[l[i].k] = l[i].n
		}
		run.Coverage["outcomes_top_by_cases"] = top
	}
	run.Coverage["max_preemptions_completed"] = maxPreS
	run.Coverage["max_preemptions_completed_all_sites"] = maxPreAll
	run.Coverage["passes"] = passCov
	run.Coverage["map_orders"] = mapOrders
	run.Coverage["map_order_iteration_starts"] = 64
	run.Coverage["map_order_one_deviation"] = map[string]any{"deviation_values": devVals, "runs": info["one_deviation_runs"],
		"positions_per_call_Validate": map[bool]string{true: "all", false: fmt.Sprintf("first %d", devCap)}[devCap == 0], "positions_per_call_Generate": fmt.Sprintf("first %d", genCap),
		"what": "every uniform start 0..7 combined with ONE map iteration of the call (parse included) starting elsewhere: Validate on every schema and on a family of 162 invalid struct rings (must be rejected under every order), Generate on the harness's schemas"}
	run.Coverage["sequences"] = sequences
	run.Coverage["import_edit_sequences"] = importEdits
	run.Coverage["import_edit_meaning"] = "generate, edit the imported files (same size with the modification time put back / same size / grown), generate again in the same process: must equal a fresh process that only saw the edited files"
	run.Coverage["sequence_max_len"] = maxLen
	run.Coverage["race_iterations"] = raceIters
	run.Coverage["race_reports_parsed"] = raceReports
	run.Coverage["violating_cases_by_signature"] = violating
	run.Coverage["informational"] = info
	run.Coverage["yield_sites"] = map[string]any{"total": len(bl.yi.Sites), "class_S": bl.yi.NS, "class_L": bl.yi.NL, "files": bl.yi.Files,
		"statements_examined": bl.yi.Statements, "shared_types": bl.yi.SharedTypes, "opaque_roots": bl.yi.Opaque,
		"init_only_package_vars": bl.yi.InitOnlyVars, "call_private_variadics": bl.yi.OwnedVariadics}
	run.Coverage["yields_per_operation_solo"] = pr.Probe
	run.Coverage["build_seconds"] = bl.buildSeconds
	run.Coverage["rule"] = "state = one choice point of the cooperative scheduler (a yield executed while another logical thread is enabled, or a thread start/end); " +
		"transition = one executed yield; a schedule is one complete execution of the real (rewritten) package bebop under one choice sequence; " +
		"exploration is a deviation-bounded DFS enumerating EVERY schedule with at most k preemptions per pass (no sampling), sharded over processes by first-level subtrees; " +
		"distinct_nontrivial = distinct (pass, operation multiset, per-thread result vs solo, File state) outcomes; " +
		"map_orders = executions under a forced map-iteration start (all 64 uniform starts x operations x schemas, plus uniform start x one deviating iteration, see map_order_one_deviation); sequences = call sequences on one File value; " +
		"race_iterations = free-running executions under the Go race detector (dynamic happens-before analysis, complementary, not exhaustive)"
	run.Coverage["explanation"] = "every schedule, map order and sequence is executed on the real code of /repo's working tree (yields injected at build time through go build -overlay; /repo is not modified)"
	run.Assume = []string{
		"scheduling granularity is one statement: accesses inside one statement are atomic in the interleaving model (the race pass covers sub-statement conflicts dynamically)",
		"class-S/L split assumes no unsafe pointer tricks in package bebop; shared roots = package-level variables and the File type; Readers/Writers/GenerateSettings are per call",
		"only package bebop is instrumented; iohelp and internal/importgraph calls are atomic steps",
		"sequentially consistent memory (no weak-memory reorderings)",
		"imports are read from an unchanging scratch directory",
	}
	cleanup()
	run.Finish()
}

// ---------------------------------------------------------------- replay

func replay(path string) int {
	defer cleanup()
	b, err := os.ReadFile(path)
	if err != nil {
		die("replay: %v", err)
	}
	var doc struct {
		Signature string         `json:"signature"`
		Message   string         `json:"message"`
		Case      map[string]any `json:"case"`
	}
	if err := json.Unmarshal(b, &doc); err != nil {
		die("replay: %v", err)
	}
	fmt.Printf("replaying %s\n", doc.Signature)
	c := doc.Case
	strs := func(k string) []string {
		var out []string
		if l, ok := c[k].([]any); ok {
			for _, x := range l {
				out = append(out, fmt.Sprint(x))
			}
		}
		return out
	}
	sub, _ := c["sub"].(string)
	schema, _ := c["schema"].(string)
	u := &unit{Mode: "replay", Schema: schemaPath(schema), Ops: strs("ops")}
	switch sub {
	case "interleave":
		u.LSites, _ = c["lsites"].(bool)
		if n, ok := c["nchoices"].(float64); ok {
			u.NChoices = int(n)
		}
		if l, ok := c["choices"].([]any); ok {
			for _, e := range l {
				if p, ok := e.([]any); ok && len(p) == 2 {
					u.Choices = append(u.Choices, [2]int{int(p[0].(float64)), int(p[1].(float64))})
				}
			}
		}
	case "repeat":
		u.Seq = strs("seq")
	case "maporder":
		if l, ok := c["r"].([]any); ok {
			for _, e := range l {
				u.R = append(u.R, int(e.(float64)))
			}
		}
		if l, ok := c["dev"].([]any); ok {
			for _, e := range l {
				u.DevAt = append(u.DevAt, int(e.(float64)))
			}
		}
	case "race":
		bl := build(true, false)
		ru := &unit{Mode: "race", Schema: u.Schema, Ops: u.Ops, Iters: 50, race: true}
		r, err := runUnit(bl.raceWorker, ru, nil)
		if err != nil {
			die("%v", err)
		}
		n, same := 0, 0
		for _, lp := range r.raceLogs {
			lb, _ := os.ReadFile(lp)
			for _, rc := range parseRaces(string(lb)) {
				n++
				names := []string{rc[0].fn, rc[1].fn}
				sort.Strings(names)
				mark := ""
				if "C14|race|"+names[0]+"/"+names[1] == doc.Signature {
					same++
					mark = "   <== this signature"
				}
				fmt.Printf("DATA RACE (race detector, %d free-running iterations of %v): %s %s %s  <->  %s %s %s%s\n", ru.Iters, ru.Ops, rc[0].kind, rc[0].fn, rc[0].loc, rc[1].kind, rc[1].fn, rc[1].loc, mark)
			}
		}
		fmt.Printf("%d race reports, %d with the replayed signature\n", n, same)
		if same > 0 {
			fmt.Println("still violates")
			return 1
		}
		fmt.Println("replayed signature not observed (the race pass is dynamic: absence is not proof)")
		return 0
	case "importedit":
		u.Mode = "importedit"
		os.Setenv("C14_REPLAY", "1")
	default:
		die("replay: unknown case kind %q", sub)
	}
	bl := build(false, true)
	u.Sites = bl.sites
	up := filepath.Join(workDir, "replay-unit.json")
	ub, _ := json.Marshal(u)
	os.WriteFile(up, ub, 0o644)
	cmd := exec.Command(bl.worker, "-unit", up)
	cmd.Env = append(os.Environ(), "GOMAXPROCS=1")
	cmd.Stdout, cmd.Stderr = os.Stdout, os.Stderr
	if err := cmd.Run(); err != nil {
		if ee, ok := err.(*exec.ExitError); ok && ee.ExitCode() == 1 {
			fmt.Println("still violates")
			return 1
		}
		die("replay worker failed: %v", err)
	}
	fmt.Println("no violation observed")
	return 0
}
