// Present so that the body-less setMapIter declaration (go:linkname) compiles.
