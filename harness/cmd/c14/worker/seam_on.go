//go:build c14seam

package main

import _ "unsafe" // go:linkname

// setMapIter(r+1) makes every map iteration start at bucket/offset r and fixes hash seeds;
// setMapIter(0) restores the random behaviour. Provided by the runtime/map.go overlay (overlay.MapSeam).
//
//go:linkname setMapIter runtime.verifSetMapIter
func setMapIter(v uintptr)

// setMapDev(at, val): the at-th map iteration begun after the last setMapIter starts at val instead (one deviation).
//
//go:linkname setMapDev runtime.verifSetMapDev
func setMapDev(at, val uintptr)

//go:linkname mapIterCount runtime.verifMapIterCount
func mapIterCount() uintptr

const haveSeam = true
