//go:build c14seam

package main

import _ "unsafe" // go:linkname

// setMapIter(r+1) makes every map iteration start at bucket/offset r and fixes hash seeds;
// setMapIter(0) restores the random behaviour. Provided by the runtime/map.go overlay (overlay.MapSeam).
//
//go:linkname setMapIter runtime.verifSetMapIter
func setMapIter(v uintptr)

const haveSeam = true
