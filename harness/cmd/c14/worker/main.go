// Worker of the C14 check. It is built twice by the orchestrator (../main.go):
//
//   - with the yield overlay (verif/overlay.YieldSeam), the runtime map seam and -tags c14seam:
//     modes probe, explore, maporder, repeat, replay;
//   - with -race and no overlay: mode race.
//
// One unit of work is read from the file given by -unit, the result is printed as JSON on stdout.
package main

import (
	"bytes"
	"crypto/sha256"
	"encoding/hex"
	"encoding/json"
	"flag"
	"fmt"
	"os"
	"os/exec"
	"path/filepath"
	"reflect"
	"regexp"
	"runtime"
	"runtime/pprof"
	"sort"
	"strings"
	"sync"
	"time"

	"github.com/200sc/bebop"
	"verif/sched"
)

// ---------------------------------------------------------------- operations

type opDef struct {
	Name string
	Kind string // gen, validate, read, format
	Set  bebop.GenerateSettings
}

const pkgName = "c14pkg"

func ops() []opDef {
	sep, comb := bebop.ImportGenerationModeSeparate, bebop.ImportGenerationModeCombined
	return []opDef{
		{"Generate-separate", "gen", bebop.GenerateSettings{PackageName: pkgName, ImportGenerationMode: sep}},
		{"Generate-combined", "gen", bebop.GenerateSettings{PackageName: pkgName, ImportGenerationMode: comb}},
		{"Generate-private-ptr", "gen", bebop.GenerateSettings{PackageName: pkgName, ImportGenerationMode: comb, PrivateDefinitions: true, AlwaysUsePointerReceivers: true}},
		{"Validate", "validate", bebop.GenerateSettings{}},
		{"ReadFile", "read", bebop.GenerateSettings{}},
		{"Format", "format", bebop.GenerateSettings{}},
		// further option sets (map-order and repetition sub-checks)
		{"Generate-separate-allflags", "gen", bebop.GenerateSettings{PackageName: pkgName, ImportGenerationMode: sep, GenerateUnsafeMethods: true, SharedMemoryStrings: true, GenerateFieldTags: true, PrivateDefinitions: true, AlwaysUsePointerReceivers: true}},
		{"Generate-combined-allflags", "gen", bebop.GenerateSettings{PackageName: pkgName, ImportGenerationMode: comb, GenerateUnsafeMethods: true, SharedMemoryStrings: true, GenerateFieldTags: true, PrivateDefinitions: true, AlwaysUsePointerReceivers: true}},
		{"Generate-combined-unsafe-tags", "gen", bebop.GenerateSettings{PackageName: pkgName, ImportGenerationMode: comb, GenerateUnsafeMethods: true, GenerateFieldTags: true}},
		{"Generate-separate-shared-strings", "gen", bebop.GenerateSettings{PackageName: pkgName, ImportGenerationMode: sep, SharedMemoryStrings: true, GenerateUnsafeMethods: true}},
	}
}

func opByName(n string) opDef {
	for _, o := range ops() {
		if o.Name == n {
			return o
		}
	}
	fatal("unknown operation %q", n)
	return opDef{}
}

func opIndex(n string) int {
	for i, o := range ops() {
		if o.Name == n {
			return i
		}
	}
	return -1
}

// pairName names a multiset of operations independently of thread order.
func pairName(names []string) string {
	s := append([]string(nil), names...)
	sort.Slice(s, func(i, j int) bool { return opIndex(s[i]) < opIndex(s[j]) })
	return strings.Join(s, "+")
}

type schema struct {
	Path string
	Text []byte
}

func loadSchema(path string) *schema {
	b, err := os.ReadFile(path)
	if err != nil {
		fatal("schema %s: %v", path, err)
	}
	return &schema{Path: path, Text: b}
}

var topSlices = []string{"Structs", "Messages", "Enums", "Unions", "Consts", "Imports"}

// load parses the schema from disk (so FileName is set and imports resolve) and gives every
// top-level slice spare capacity, as slices grown by append usually have.
func (sc *schema) load() (bebop.File, error) {
	fh, err := os.Open(sc.Path)
	if err != nil {
		fatal("open %s: %v", sc.Path, err)
	}
	defer fh.Close()
	f, _, err := bebop.ReadFile(fh)
	if err != nil {
		return f, err
	}
	f.Structs = append(make([]bebop.Struct, 0, len(f.Structs)+4), f.Structs...)
	f.Messages = append(make([]bebop.Message, 0, len(f.Messages)+4), f.Messages...)
	f.Enums = append(make([]bebop.Enum, 0, len(f.Enums)+4), f.Enums...)
	f.Unions = append(make([]bebop.Union, 0, len(f.Unions)+4), f.Unions...)
	f.Consts = append(make([]bebop.Const, 0, len(f.Consts)+4), f.Consts...)
	f.Imports = append(make([]string, 0, len(f.Imports)+4), f.Imports...)
	return f, nil
}

// obs is what one call returned.
type obs struct {
	Out     []byte
	ErrNil  bool
	ErrText string
	Panic   string
}

func (o obs) hash() string {
	h := sha256.Sum256(o.Out)
	return hex.EncodeToString(h[:6])
}

func (o obs) status() string {
	switch {
	case o.Panic != "":
		return "panic"
	case o.ErrNil:
		return "ok"
	}
	return "error"
}

// sameResult: output bytes, error presence and panic presence.
func (o obs) sameResult(p obs) bool {
	return bytes.Equal(o.Out, p.Out) && o.ErrNil == p.ErrNil && (o.Panic == "") == (p.Panic == "")
}

// call runs one operation on f (the File value itself is passed by value to the methods, as any
// caller does; its slices and maps are shared).
func call(op opDef, f *bebop.File, sc *schema) (o obs) {
	var buf bytes.Buffer
	var err error
	switch op.Kind {
	case "gen":
		err = f.Generate(&buf, op.Set)
	case "validate":
		err = f.Validate()
	case "read":
		var ff bebop.File
		var warns []string
		ff, warns, err = bebop.ReadFile(bytes.NewReader(sc.Text))
		dump(&buf, reflect.ValueOf(ff), false)
		fmt.Fprintf(&buf, "\nwarnings=%q\n", warns)
	case "format":
		err = bebop.Format(bytes.NewReader(sc.Text), &buf)
	default:
		fatal("bad op kind %q", op.Kind)
	}
	o.Out = buf.Bytes()
	o.ErrNil = err == nil
	if err != nil {
		o.ErrText = err.Error()
	}
	return o
}

// callSafe is call with panics turned into an observation.
func callSafe(op opDef, f *bebop.File, sc *schema) (o obs) {
	defer func() {
		if p := recover(); p != nil {
			o = obs{Panic: fmt.Sprint(p)}
		}
	}()
	return call(op, f, sc)
}

// ---------------------------------------------------------------- canonical dump / file state

// dump writes a deterministic rendering of v: map keys sorted, pointers followed.
// With full set, slices are rendered up to their capacity (hidden elements after a "|" marker).
func dump(w *bytes.Buffer, v reflect.Value, full bool) {
	switch v.Kind() {
	case reflect.Struct:
		w.WriteString(v.Type().Name() + "{")
		for i := 0; i < v.NumField(); i++ {
			if i > 0 {
				w.WriteString(", ")
			}
			w.WriteString(v.Type().Field(i).Name + ":")
			dump(w, v.Field(i), full)
		}
		w.WriteString("}")
	case reflect.Slice:
		if v.IsNil() {
			w.WriteString("nil")
			return
		}
		n := v.Len()
		if full {
			v = v.Slice(0, v.Cap())
		}
		w.WriteString("[")
		for i := 0; i < v.Len(); i++ {
			if i == n {
				w.WriteString(" | ")
			} else if i > 0 {
				w.WriteString(", ")
			}
			dump(w, v.Index(i), full)
		}
		w.WriteString("]")
	case reflect.Map:
		if v.IsNil() {
			w.WriteString("nilmap")
			return
		}
		keys := v.MapKeys()
		sort.Slice(keys, func(i, j int) bool { return fmt.Sprint(keys[i].Interface()) < fmt.Sprint(keys[j].Interface()) })
		w.WriteString("map[")
		for i, k := range keys {
			if i > 0 {
				w.WriteString(", ")
			}
			fmt.Fprintf(w, "%v:", k.Interface())
			dump(w, v.MapIndex(k), full)
		}
		w.WriteString("]")
	case reflect.Ptr:
		if v.IsNil() {
			w.WriteString("nilptr")
			return
		}
		w.WriteString("&")
		dump(w, v.Elem(), full)
	case reflect.String:
		fmt.Fprintf(w, "%q", v.String())
	default:
		fmt.Fprintf(w, "%v", v.Interface())
	}
}

// fileState renders the File per top-level field: the visible part and the part including spare capacity.
type fileState struct {
	Vis, Full map[string]string
}

func stateOf(f *bebop.File) fileState {
	st := fileState{Vis: map[string]string{}, Full: map[string]string{}}
	v := reflect.ValueOf(f).Elem()
	for i := 0; i < v.NumField(); i++ {
		name := v.Type().Field(i).Name
		var a, b bytes.Buffer
		dump(&a, v.Field(i), false)
		dump(&b, v.Field(i), true)
		st.Vis[name], st.Full[name] = a.String(), b.String()
	}
	return st
}

// diff lists the fields whose visible part changed, and those where only spare capacity changed.
func (a fileState) diff(b fileState) (visible, hidden []string) {
	names := make([]string, 0, len(a.Vis))
	for n := range a.Vis {
		names = append(names, n)
	}
	sort.Strings(names)
	for _, n := range names {
		if a.Vis[n] != b.Vis[n] {
			visible = append(visible, n)
		} else if a.Full[n] != b.Full[n] {
			hidden = append(hidden, n)
		}
	}
	return
}

func firstDiff(a, b string) string { return firstDiffL(a, b, "got", "solo") }

func firstDiffL(a, b, na, nb string) string {
	la, lb := strings.Split(a, "\n"), strings.Split(b, "\n")
	for i := 0; i < len(la) || i < len(lb); i++ {
		var x, y string
		if i < len(la) {
			x = la[i]
		}
		if i < len(lb) {
			y = lb[i]
		}
		if x != y {
			return fmt.Sprintf("line %d: %s %q, %s %q", i+1, na, short(x, 160), nb, short(y, 160))
		}
	}
	return "identical"
}

func short(s string, n int) string {
	if len(s) > n {
		return s[:n] + "..."
	}
	return s
}

// ---------------------------------------------------------------- unit / result

type unit struct {
	Mode     string   `json:"mode"`
	Schema   string   `json:"schema"`  // path of the main schema file
	Schemas  []string `json:"schemas"` // maporder / repeat
	Ops      []string `json:"ops"`     // thread bodies (explore, race, replay) or alphabet (maporder, repeat)
	LSites   bool     `json:"lsites"`
	Bound    int      `json:"bound"`
	Shard    int      `json:"shard"`
	Shards   int      `json:"shards"`
	Deadline int64    `json:"deadline"` // unix seconds, 0 = none
	MaxLen   int      `json:"max_len"`  // repeat: longest sequence
	Rs       int      `json:"rs"`       // maporder: number of iteration starts
	Dev      int      `json:"dev"`      // maporder: >0 adds the one-deviation pass with deviation values below Dev
	DevCap   int      `json:"dev_cap"`  // maporder: deviation positions tried per call (0 = all)
	DevAt    []int    `json:"dev_at"`   // replay of maporder: [k, v] deviation of the second run
	Iters    int      `json:"iters"`    // race
	Choices  [][2]int `json:"choices"`  // replay: sparse non-zero choices [index, choice]
	NChoices int      `json:"nchoices"`
	Seq      []string `json:"seq"` // replay of repeat
	R        []int    `json:"r"`   // replay of maporder: the two iteration starts
	Sites    string   `json:"sites"`
}

type violation struct {
	Sig  string         `json:"sig"`
	Msg  string         `json:"msg"`
	Case map[string]any `json:"case"`
	N    int            `json:"n"`
}

type result struct {
	Unit         unit           `json:"unit"`
	Error        string         `json:"error,omitempty"` // harness error
	Capped       bool           `json:"capped"`
	Skipped      string         `json:"skipped,omitempty"`
	Executed     int            `json:"executed"`
	Schedules    int            `json:"schedules"`
	ChoicePoints int            `json:"choice_points"`
	Steps        int            `json:"steps"`
	ByPreempt    map[string]int `json:"by_preempt"`
	Outcomes     map[string]int `json:"outcomes"`
	Violations   []*violation   `json:"violations"`
	Info         map[string]int `json:"info"`
	Sample       any            `json:"sample,omitempty"`
	Probe        map[string]any `json:"probe,omitempty"`
	Evaluations  int            `json:"evaluations"`
	Seconds      float64        `json:"seconds"`
}

func (r *result) report(sig, msg string, c map[string]any) bool {
	for _, v := range r.Violations {
		if v.Sig == sig {
			v.N++
			return false
		}
	}
	r.Violations = append(r.Violations, &violation{Sig: sig, Msg: msg, Case: c, N: 1})
	return true
}

func (r *result) has(sig string) bool {
	for _, v := range r.Violations {
		if v.Sig == sig {
			return true
		}
	}
	return false
}

func fatal(format string, a ...any) {
	fmt.Fprintf(os.Stderr, "c14 worker: "+format+"\n", a...)
	os.Exit(2)
}

type siteInfo struct {
	ID    int    `json:"id"`
	Class string `json:"class"`
	Pos   string `json:"pos"`
	Func  string `json:"func"`
}

var sites []siteInfo

func loadSites(p string) {
	if p == "" {
		return
	}
	b, err := os.ReadFile(p)
	if err != nil {
		fatal("sites: %v", err)
	}
	var doc struct {
		Sites []siteInfo `json:"sites"`
	}
	if err := json.Unmarshal(b, &doc); err != nil {
		fatal("sites: %v", err)
	}
	sites = doc.Sites
}

func siteName(id int32) string {
	switch {
	case id == sched.SiteStart:
		return "start"
	case id == sched.SiteThreadEnd:
		return "thread-end"
	case int(id) < len(sites):
		s := sites[id]
		return fmt.Sprintf("%s(%s)%s#%d", s.Pos, s.Func, s.Class, id)
	}
	return fmt.Sprintf("site#%d", id)
}

// segments renders a step sequence as maximal runs of one thread.
func segments(steps []sched.Step, names []string) []map[string]any {
	var out []map[string]any
	for i := 0; i < len(steps); {
		j := i
		for j < len(steps) && steps[j].T == steps[i].T {
			j++
		}
		out = append(out, map[string]any{
			"thread": int(steps[i].T), "op": names[steps[i].T], "yields": j - i,
			"first_site": siteName(steps[i].Site), "last_site": siteName(steps[j-1].Site),
		})
		i = j
	}
	return out
}

func sparse(tr []sched.Choice) [][2]int {
	out := [][2]int{}
	for i, c := range tr {
		if c.C != 0 {
			out = append(out, [2]int{i, int(c.C)})
		}
	}
	return out
}

func dense(sp [][2]int, n int) []int8 {
	p := make([]int8, n)
	for _, e := range sp {
		if e[0] >= n {
			p = append(p, make([]int8, e[0]+1-len(p))...)
		}
		p[e[0]] = int8(e[1])
	}
	return p
}

// ---------------------------------------------------------------- interleaving exploration

type explorer struct {
	u      unit
	sc     *schema
	ops    []opDef
	names  []string
	pair   string
	solo   []obs
	soloFx [][2][]string // per thread: fields an op changes on its own (visible, hidden)
	snap   fileState
	shared bebop.File
	outs   []obs

	unstable, unstableOp string // the solo baseline is not reproducible: nothing can be compared
}

func newExplorer(u unit) *explorer {
	e := &explorer{u: u, sc: loadSchema(u.Schema), names: u.Ops, pair: pairName(u.Ops)}
	for _, n := range u.Ops {
		e.ops = append(e.ops, opByName(n))
	}
	f, err := e.sc.load()
	if err != nil {
		fatal("schema %s does not parse: %v", u.Schema, err)
	}
	e.snap = stateOf(&f)
	for _, op := range e.ops {
		f, _ := e.sc.load()
		e.solo = append(e.solo, callSafe(op, &f, e.sc))
		v, h := e.snap.diff(stateOf(&f))
		e.soloFx = append(e.soloFx, [2][]string{v, h})
		// a second solo run on another fresh copy must agree, or nothing can be compared
		f2, _ := e.sc.load()
		if o2 := callSafe(op, &f2, e.sc); !o2.sameResult(e.solo[len(e.solo)-1]) {
			o1 := e.solo[len(e.solo)-1]
			e.unstable = fmt.Sprintf("two consecutive single-threaded calls of %s, each on a freshly parsed copy of the schema, disagree: first %s, %d bytes (sha %s); second %s, %d bytes (sha %s); first difference at %s",
				op.Name, o1.status(), len(o1.Out), o1.hash(), o2.status(), len(o2.Out), o2.hash(), firstDiffL(string(o2.Out), string(o1.Out), "second", "first"))
			e.unstableOp = op.Name
		}
	}
	e.shared, _ = e.sc.load()
	return e
}

func (e *explorer) bodies() []func() {
	e.outs = make([]obs, len(e.ops))
	bs := make([]func(), len(e.ops))
	for i := range e.ops {
		i := i
		bs[i] = func() { e.outs[i] = call(e.ops[i], &e.shared, e.sc) }
	}
	return bs
}

type verdict struct {
	key   string   // outcome key
	sigs  []string // violated signatures
	msgs  []string
	dirty bool // shared file differs from the snapshot (visible or hidden)
}

func contains(l []string, s string) bool {
	for _, x := range l {
		if x == s {
			return true
		}
	}
	return false
}

// judge compares one finished execution with the solo results.
func (e *explorer) judge(r *sched.Result) verdict {
	var v verdict
	var key []string
	for i := range e.ops {
		o := e.outs[i]
		if r.Panics[i] != "" {
			o = obs{Panic: r.Panics[i]}
		}
		s := e.solo[i]
		who := fmt.Sprintf("thread %d (%s)", i, e.names[i])
		switch {
		case (o.Panic != "") != (s.Panic != ""):
			v.sigs = append(v.sigs, "C14|interleave|"+e.pair+"|panic")
			v.msgs = append(v.msgs, fmt.Sprintf("%s panicked: %q (solo: %q)", who, o.Panic, s.Panic))
			key = append(key, fmt.Sprintf("t%d:panic", i))
		case o.ErrNil != s.ErrNil:
			v.sigs = append(v.sigs, "C14|interleave|"+e.pair+"|error-status-differs-from-solo")
			v.msgs = append(v.msgs, fmt.Sprintf("%s returned error %q, its solo run returned error %q", who, o.ErrText, s.ErrText))
			key = append(key, fmt.Sprintf("t%d:%s-vs-%s", i, o.status(), s.status()))
		case !bytes.Equal(o.Out, s.Out):
			v.sigs = append(v.sigs, "C14|interleave|"+e.pair+"|output-differs-from-solo")
			v.msgs = append(v.msgs, fmt.Sprintf("%s produced %d bytes (sha %s), its solo run %d bytes (sha %s); first difference at %s",
				who, len(o.Out), o.hash(), len(s.Out), s.hash(), firstDiff(string(o.Out), string(s.Out))))
			key = append(key, fmt.Sprintf("t%d:out-%s", i, o.hash()))
		default:
			k := fmt.Sprintf("t%d:same-as-solo(%s)", i, o.status())
			if o.ErrText != s.ErrText {
				k += ":error-text-differs"
			}
			key = append(key, k)
		}
	}
	vis, hid := e.snap.diff(stateOf(&e.shared))
	v.dirty = len(vis)+len(hid) > 0
	for _, f := range vis {
		explained := false
		for i := range e.ops {
			explained = explained || contains(e.soloFx[i][0], f)
		}
		key = append(key, "file-visible:"+f)
		if !explained {
			v.sigs = append(v.sigs, "C14|interleave|"+e.pair+"|file-visible-mutated|"+f)
			v.msgs = append(v.msgs, fmt.Sprintf("after the run the shared File's %s differs from its snapshot although no operation changes it when run alone", f))
		}
	}
	for _, f := range hid {
		explained := false
		for i := range e.ops {
			explained = explained || contains(e.soloFx[i][1], f) || contains(e.soloFx[i][0], f)
		}
		key = append(key, "file-hidden:"+f)
		if !explained {
			v.sigs = append(v.sigs, "C14|interleave|"+e.pair+"|hidden-capacity-written|"+f)
			v.msgs = append(v.msgs, fmt.Sprintf("after the run the spare capacity of the shared File's %s differs from its snapshot although no operation writes it when run alone", f))
		}
	}
	v.key = strings.Join(key, " ")
	return v
}

func (e *explorer) reset(dirty bool) {
	if dirty {
		e.shared, _ = e.sc.load()
	}
}

// runOnce executes one fully specified schedule and returns its observation digest.
func (e *explorer) runOnce(tr []sched.Choice, record bool) (*sched.Result, verdict) {
	e.shared, _ = e.sc.load()
	p := make([]int8, len(tr))
	for i, c := range tr {
		p[i] = c.C
	}
	r := sched.Execute(e.bodies(), sched.Config{Prefix: p, Expect: tr, LSites: e.u.LSites, RecordSteps: record})
	v := e.judge(r)
	return r, v
}

func (e *explorer) describe(r *sched.Result) string {
	var b strings.Builder
	segs := segments(r.Steps, e.names)
	for i, s := range segs {
		if i > 0 {
			b.WriteString("; ")
		}
		fmt.Fprintf(&b, "T%d(%s) runs %d yields from %s", s["thread"], s["op"], s["yields"], s["first_site"])
		resumes := false
		for _, later := range segs[i+1:] {
			resumes = resumes || later["thread"] == s["thread"]
		}
		if resumes {
			fmt.Fprintf(&b, " and is switched out before the statement at %s", s["last_site"])
		} else {
			fmt.Fprintf(&b, " to its end (last yield %s)", s["last_site"])
		}
		if i >= 7 {
			b.WriteString("; ...")
			break
		}
	}
	return b.String()
}

func explore(u unit) *result {
	res := &result{Unit: u, Outcomes: map[string]int{}, Info: map[string]int{}, ByPreempt: map[string]int{}}
	setMapIter(1) // one fixed iteration order: executions must be reproducible
	runtime.GOMAXPROCS(1)
	e := newExplorer(u)
	if e.unstable != "" {
		// a violation of repeatability in its own right; interleavings of this pair cannot be judged
		res.report("C14|repeat|"+e.unstableOp+"|fresh-copy-result-not-reproducible", e.unstable,
			map[string]any{"sub": "repeat", "schema": u.Schema, "seq": []string{e.unstableOp, e.unstableOp}})
		res.Skipped = "solo baseline of " + e.unstableOp + " not reproducible"
		return res
	}
	x := &sched.Explorer{Bound: u.Bound, LSites: u.LSites, Shard: u.Shard, Shards: u.Shards}
	sampled := false
	herr := x.Run(e.bodies, func(r *sched.Result, owned bool) bool {
		v := e.judge(r)
		if owned {
			res.Outcomes[e.pair+" | "+v.key]++
			if strings.Contains(v.key, "error-text-differs") {
				res.Info["error_text_differs_from_solo"]++
			}
			for i, sig := range v.sigs {
				if res.has(sig) {
					res.report(sig, "", nil)
					continue
				}
				// confirm: the same schedule twice more, identical observations required
				r1, v1 := e.runOnce(r.Trace, true)
				r2, v2 := e.runOnce(r.Trace, false)
				if r1.Broken != "" || r2.Broken != "" || v1.key != v.key || v2.key != v.key || r1.StepHash != r.StepHash || r2.StepHash != r.StepHash {
					res.Error = fmt.Sprintf("counterexample for %s is not reproducible: first %q/%x, rerun %q/%x %s, rerun %q/%x %s",
						sig, v.key, r.StepHash, v1.key, r1.StepHash, r1.Broken, v2.key, r2.StepHash, r2.Broken)
					return false
				}
				res.report(sig, v.msgs[i]+". Schedule ("+fmt.Sprint(r.Preemptions)+" preemptions, confirmed by 2 identical re-executions): "+e.describe(r1),
					map[string]any{"sub": "interleave", "ops": u.Ops, "lsites": u.LSites, "schema": "builtin:small",
						"choices": sparse(r.Trace), "nchoices": len(r.Trace), "preemptions": r.Preemptions, "outcome": v.key})
			}
			if !sampled && x.Owned >= 40 && r.Preemptions == u.Bound {
				sampled = true
				r1, _ := e.runOnce(r.Trace, true)
				res.Sample = map[string]any{"ops": u.Ops, "lsites": u.LSites, "preemptions": r.Preemptions,
					"choice_points": len(r.Trace), "yields": r.NSteps, "outcome": v.key, "schedule": segments(r1.Steps, e.names)}
				v.dirty = true
			}
		}
		e.reset(v.dirty || len(v.sigs) > 0)
		if u.Deadline != 0 && x.Executed%64 == 0 && time.Now().Unix() >= u.Deadline {
			res.Capped = true
			return false
		}
		return true
	})
	if herr != "" && res.Error == "" {
		res.Error = "scheduler: " + herr
	}
	res.Executed, res.Schedules, res.ChoicePoints, res.Steps = x.Executed, x.Owned, x.ChoicePoints, x.StepsRun
	for k, n := range x.ByPreempt {
		res.ByPreempt[fmt.Sprint(k)] = n
	}
	return res
}

// probe counts the yields every operation executes on its own (S sites and all sites).
func probe(u unit) *result {
	res := &result{Unit: u, Probe: map[string]any{}}
	setMapIter(1)
	runtime.GOMAXPROCS(1)
	sc := loadSchema(u.Schema)
	for _, n := range u.Ops {
		op := opByName(n)
		counts := map[string]any{}
		for _, l := range []bool{false, true} {
			f, err := sc.load()
			if err != nil {
				fatal("schema: %v", err)
			}
			var o obs
			t0 := time.Now()
			r := sched.Execute([]func(){func() { o = call(op, &f, sc) }}, sched.Config{LSites: l, RecordSteps: !l})
			if !l {
				hist := map[string]int{}
				for _, st := range r.Steps {
					hist[siteName(st.Site)]++
				}
				counts["s_hits_by_site"] = hist
			}
			k := "s"
			if l {
				k = "all"
			}
			counts[k] = r.NSteps
			counts["status"] = o.status()
			counts["out_bytes"] = len(o.Out)
			counts["us_"+k] = time.Since(t0).Microseconds()
			if r.Panics[0] != "" {
				counts["status"] = "panic: " + r.Panics[0]
			}
		}
		res.Probe[n] = counts
	}
	return res
}

// ---------------------------------------------------------------- map iteration orders

func mapOrder(u unit) *result {
	res := &result{Unit: u, Outcomes: map[string]int{}, Info: map[string]int{}}
	if !haveSeam {
		fatal("maporder needs the runtime map seam")
	}
	defer setMapIter(0)
	for _, path := range u.Schemas {
		sc := loadSchema(path)
		base := path[strings.LastIndex(path, "/")+1:]
		for _, n := range u.Ops {
			op := opByName(n)
			// runAt executes the operation on a freshly parsed copy with the iteration start forced to r.
			runAt := func(r int) (o obs, ok bool) {
				setMapIter(uintptr(r + 1))
				defer setMapIter(0)
				if op.Kind == "read" || op.Kind == "format" {
					return callSafe(op, nil, sc), true
				}
				f, err := sc.load() // parsed under the same iteration start
				if err != nil {
					return obs{}, false
				}
				return callSafe(op, &f, sc), true
			}
			first, ok := runAt(0)
			if !ok {
				res.Info["schema_x_op_skipped_because_ReadFile_rejects_the_schema"]++
				continue
			}
			if strings.Contains(path, "/schemas/invalid-") {
				// a schema that is invalid on purpose: ReadFile and Format succeed, Validate and Generate must fail - under every order
				if (op.Kind == "validate" || op.Kind == "gen") && first.status() != "error" {
					res.report("C14|maporder|"+op.Name+"|invalid-schema-accepted", fmt.Sprintf("%s on the invalid schema %s returned %s under map iteration start 0", op.Name, base, first.status()), map[string]any{"sub": "maporder", "schema": path, "ops": []string{op.Name}, "r": []int{0, 0}})
				}
			} else if strings.Contains(path, "/schemas/odd-") {
				// accepted or rejected: only sameness under every order is asked
			} else if strings.Contains(path, "/schemas/") && first.status() != "ok" {
				// the harness's own schemas are valid: an operation that fails on them would make every comparison vacuous
				fatal("%s on the built-in schema %s does not succeed (%s %q): the schema has to be repaired", op.Name, path, first.status(), first.ErrText+first.Panic)
			}
			res.Evaluations++
			reported, textNoted := false, false
			for r := 1; r < u.Rs && !reported; r++ {
				o, _ := runAt(r)
				res.Evaluations++
				if o.sameResult(first) {
					if o.ErrText != first.ErrText && !textNoted {
						textNoted = true
						// the error is part of the result: its text has to be the same under every order as well. The class of
						// the message (the words both texts share) comes first in the signature.
						res.report("C14|maporder-error-text|"+errClass(first.ErrText, o.ErrText)+"|"+op.Name,
							fmt.Sprintf("%s on %s fails under every map iteration order, but with different error texts: start 0 gives %q, start %d gives %q", op.Name, base, first.ErrText, r, o.ErrText),
							map[string]any{"sub": "maporder", "schema": path, "ops": []string{op.Name}, "r": []int{0, r}})
					}
					continue
				}
				// confirm that the difference follows the iteration start and is not plain non-repeatability
				f2, _ := runAt(0)
				o2, _ := runAt(r)
				res.Evaluations += 2
				c := map[string]any{"sub": "maporder", "schema": path, "ops": []string{op.Name}, "r": []int{0, r}}
				reported = true
				switch {
				case !f2.sameResult(first) || !o2.sameResult(o):
					res.report("C14|repeat|"+op.Name+"|fresh-copy-result-not-reproducible",
						fmt.Sprintf("%s on %s: repeating the call on a freshly parsed copy under the SAME forced map iteration start gives a different result (start 0: sha %s then %s; start %d: sha %s then %s); first difference at %s",
							op.Name, base, first.hash(), f2.hash(), r, o.hash(), o2.hash(), firstDiffL(string(f2.Out), string(first.Out), "second call", "first call")),
						map[string]any{"sub": "repeat", "schema": path, "seq": []string{op.Name, op.Name}})
				case o.ErrNil != first.ErrNil || (o.Panic != "") != (first.Panic != ""):
					res.report("C14|maporder|"+op.Name+"|error-presence-depends-on-map-iteration-order",
						fmt.Sprintf("%s on %s: map iteration start 0 gives status %s (%q), start %d gives %s (%q); reproduced twice each", op.Name, base, first.status(), first.ErrText+first.Panic, r, o.status(), o.ErrText+o.Panic), c)
				default:
					res.report("C14|maporder|"+op.Name+"|output-depends-on-map-iteration-order",
						fmt.Sprintf("%s on %s: map iteration start %d yields %d bytes (sha %s), start 0 yields %d bytes (sha %s), reproduced twice each; first difference at %s",
							op.Name, base, r, len(o.Out), o.hash(), len(first.Out), first.hash(), firstDiffL(string(o.Out), string(first.Out), fmt.Sprintf("start %d", r), "start 0")), c)
				}
			}
			res.Outcomes[op.Name+" | "+base+" | "+first.status()]++
			if u.Dev > 0 && !reported {
				mapOrderDeviations(u, res, sc, op, path, base, first)
			}
		}
	}
	return res
}

// errClass is what two error texts have in common: the words that differ are replaced by "_".
func errClass(a, b string) string {
	wa, wb := strings.Fields(a), strings.Fields(b)
	if len(wa) != len(wb) {
		if len(wa) > 4 {
			wa = wa[:4]
		}
		return strings.Join(wa, "-") + "..."
	}
	for i := range wa {
		if wa[i] != wb[i] {
			wa[i] = "_"
		}
	}
	return strings.Join(wa, "-")
}

// mapOrderDeviations: every uniform start b in 0..7 combined with ONE deviation - the k-th map iteration begun by the
// call (parse included) starts at v instead of b - for every k the call reaches and every v below u.Dev.
func mapOrderDeviations(u unit, res *result, sc *schema, op opDef, path, base string, first obs) {
	run := func(b, k, v int) (obs, int) {
		setMapIter(uintptr(b + 1))
		setMapDev(uintptr(k), uintptr(v))
		defer setMapIter(0)
		var o obs
		if op.Kind == "read" || op.Kind == "format" {
			o = callSafe(op, nil, sc)
		} else {
			f, err := sc.load()
			if err != nil {
				return obs{ErrText: "ReadFile: " + err.Error()}, int(mapIterCount())
			}
			o = callSafe(op, &f, sc)
		}
		return o, int(mapIterCount())
	}
	for b := 0; b < 8; b++ {
		_, K := run(b, 0, 0)
		res.Info["map_iterations_per_call(max)"] = max(res.Info["map_iterations_per_call(max)"], K)
		if u.DevCap > 0 && K > u.DevCap {
			K = u.DevCap
			res.Info["deviation_positions_capped: "+op.Name+" on "+base]++
		}
		for k := 1; k <= K; k++ {
			for v := 0; v < u.Dev; v++ {
				if v == b {
					continue
				}
				o, _ := run(b, k, v)
				res.Evaluations++
				res.Info["one_deviation_runs"]++
				if o.sameResult(first) {
					if o.ErrText != first.ErrText {
						res.report("C14|maporder-error-text|"+errClass(first.ErrText, o.ErrText)+"|"+op.Name,
							fmt.Sprintf("%s on %s fails under every map iteration order, but with different error texts: uniform start 0 gives %q; start %d with the %d-th iteration starting at %d gives %q", op.Name, base, first.ErrText, b, k, v, o.ErrText),
							map[string]any{"sub": "maporder", "schema": path, "ops": []string{op.Name}, "r": []int{0, b}, "dev": []int{k, v}})
					}
					continue
				}
				o2, n2 := run(b, k, v)
				f2, nf := run(0, 0, 0)
				c := map[string]any{"sub": "maporder", "schema": path, "ops": []string{op.Name}, "r": []int{0, b}, "dev": []int{k, v}}
				switch {
				case !o2.sameResult(o) || !f2.sameResult(first):
					res.report("C14|repeat|"+op.Name+"|fresh-copy-result-not-reproducible",
						fmt.Sprintf("%s on %s: repeating the call on a freshly parsed copy under the SAME forced map iteration starts gives a different result (start %d, iteration %d of %d at %d: %s %q then %s %q; uniform start 0, %d iterations: %s %q then %s %q)",
							op.Name, base, b, k, n2, v, o.status(), o.ErrText, o2.status(), o2.ErrText, nf, first.status(), first.ErrText, f2.status(), f2.ErrText),
						map[string]any{"sub": "repeat", "schema": path, "seq": []string{op.Name, op.Name}})
				case o.ErrNil != first.ErrNil || (o.Panic != "") != (first.Panic != ""):
					res.report("C14|maporder|"+op.Name+"|error-presence-depends-on-map-iteration-order",
						fmt.Sprintf("%s on %s: uniform map iteration start 0 gives status %s (%q); start %d with the %d-th iteration of the call starting at %d instead gives %s (%q); reproduced twice each", op.Name, base, first.status(), first.ErrText+first.Panic, b, k, v, o.status(), o.ErrText+o.Panic), c)
				default:
					res.report("C14|maporder|"+op.Name+"|output-depends-on-map-iteration-order",
						fmt.Sprintf("%s on %s: start %d with the %d-th iteration starting at %d yields %d bytes (sha %s), uniform start 0 yields %d bytes (sha %s), reproduced twice each; first difference at %s",
							op.Name, base, b, k, v, len(o.Out), o.hash(), len(first.Out), first.hash(), firstDiffL(string(o.Out), string(first.Out), "deviating", "start 0")), c)
				}
				return
			}
		}
	}
}

// ---------------------------------------------------------------- repetition / aliasing

func repeat(u unit) *result {
	res := &result{Unit: u, Outcomes: map[string]int{}, Info: map[string]int{}}
	setMapIter(1)
	defer setMapIter(0)
	for _, path := range u.Schemas {
		sc := loadSchema(path)
		base := path[strings.LastIndex(path, "/")+1:]
		f0, err := sc.load()
		if err != nil {
			res.Info["schemas_rejected_by_ReadFile"]++
			continue
		}
		snap := stateOf(&f0)
		// the reference result of every operation comes from a FRESH PROCESS that does nothing else: state that survives
		// from one call to the next inside a process (a lazily filled table, a cached option) cannot leak into it
		solo := map[string]obs{}
		for _, n := range u.Ops {
			o, err := soloFresh(u, path, n)
			if err != nil {
				res.Error = err.Error()
				return res
			}
			solo[n] = o
		}
		var seq []string
		var rec func()
		rec = func() {
			if len(seq) > 0 {
				res.Schedules++
				f, _ := sc.load()
				prev := snap
				for i, n := range seq {
					o := callSafe(opByName(n), &f, sc)
					res.Evaluations++
					s := solo[n]
					c := map[string]any{"sub": "repeat", "schema": path, "seq": append([]string(nil), seq[:i+1]...)}
					where := fmt.Sprintf("call %d of the sequence %v on one File value (%s)", i+1, seq[:i+1], base)
					if !o.sameResult(s) {
						kind := "output-differs-from-solo"
						if o.ErrNil != s.ErrNil || (o.Panic != "") != (s.Panic != "") {
							kind = "error-status-differs-from-solo"
						}
						res.report("C14|repeat|"+strings.Join(seq[:i+1], ",")+"|"+kind,
							fmt.Sprintf("%s: status %s %q, %d bytes (sha %s); the same call on a fresh copy: status %s %q, %d bytes (sha %s); first difference at %s",
								where, o.status(), o.ErrText+o.Panic, len(o.Out), o.hash(), s.status(), s.ErrText+s.Panic, len(s.Out), s.hash(), firstDiff(string(o.Out), string(s.Out))), c)
					} else if o.ErrText != s.ErrText {
						res.Info["error_text_differs_from_solo(informational)"]++
					}
					now := stateOf(&f)
					vis, hid := prev.diff(now)
					for _, fld := range vis {
						res.report("C14|alias|"+n+"|file-visible-mutated|"+fld,
							fmt.Sprintf("%s changed the caller's File.%s: before %s, after %s", where, fld, short(prev.Vis[fld], 300), short(now.Vis[fld], 300)), c)
					}
					for _, fld := range hid {
						res.report("C14|alias|"+n+"|hidden-capacity-written|"+fld,
							fmt.Sprintf("%s wrote into the spare capacity of the caller's File.%s (elements between len and cap of the caller's backing array): before %s, after %s",
								where, fld, short(prev.Full[fld], 300), short(now.Full[fld], 400)), c)
					}
					res.Outcomes[fmt.Sprintf("%s | %s | vis=%v hid=%v", n, o.status(), vis, hid)]++
					prev = now
				}
			}
			if len(seq) == u.MaxLen {
				return
			}
			for _, n := range u.Ops {
				seq = append(seq, n)
				rec()
				seq = seq[:len(seq)-1]
			}
		}
		rec()
	}
	return res
}

// importEdit: Generate's result is a function of the File AND of the imported files as they are on disk at the time of
// the call. For every generating operation: call it, edit an imported file, call it again in this same process, and
// compare with a fresh process that only ever saw the edited files. Edits: same size with the modification time put
// back (what cp -p, rsync -t, tar or a build that normalises timestamps produce), same size, and grown by a comment.
func importEdit(u unit) *result {
	res := &result{Unit: u, Outcomes: map[string]int{}, Info: map[string]int{}}
	setMapIter(1)
	defer setMapIter(0)
	srcDir := filepath.Dir(u.Schema)
	ents, err := os.ReadDir(srcDir)
	if err != nil {
		fatal("importedit: %v", err)
	}
	for _, variant := range []string{"same-size-same-mtime", "same-size", "grown"} {
		for _, n := range u.Ops {
			op := opByName(n)
			if op.Kind != "gen" {
				continue
			}
			dir, err := os.MkdirTemp(filepath.Dir(srcDir), "importedit-")
			if err != nil {
				fatal("importedit: %v", err)
			}
			edited := 0
			type fileState struct {
				path string
				text []byte
				mt   time.Time
			}
			var imps []fileState
			for _, e := range ents {
				b, err := os.ReadFile(filepath.Join(srcDir, e.Name()))
				if err != nil {
					continue
				}
				dst := filepath.Join(dir, e.Name())
				os.WriteFile(dst, b, 0o644)
				old := time.Now().Add(-48 * time.Hour).Truncate(time.Second)
				os.Chtimes(dst, old, old)
				if e.Name() != filepath.Base(u.Schema) {
					imps = append(imps, fileState{dst, b, old})
				}
			}
			main := filepath.Join(dir, filepath.Base(u.Schema))
			sc := loadSchema(main)
			f1, err := sc.load()
			if err != nil {
				fatal("importedit: %v", err)
			}
			o1 := callSafe(op, &f1, sc)
			for _, im := range imps {
				t := string(im.text)
				// same-length edits: the last letter of the package path, of the first struct field, of the first enum option
				nt := regexp.MustCompile(`(go_package = "[^"]*)[a-z]"`).ReplaceAllString(t, `${1}q"`)
				nt = regexp.MustCompile(`(struct \w+ \{ \w+ )\w(;)`).ReplaceAllString(nt, `${1}z${2}`)
				nt = regexp.MustCompile(`(enum \w+ \{ )\w`).ReplaceAllString(nt, `${1}Z`)
				if variant == "grown" {
					nt += "// one more line\nstruct ZzAdded { int32 v; }\n"
				}
				if nt == t || (variant != "grown" && len(nt) != len(t)) {
					continue
				}
				edited++
				os.WriteFile(im.path, []byte(nt), 0o644)
				if variant == "same-size-same-mtime" {
					os.Chtimes(im.path, im.mt, im.mt)
				}
			}
			if edited == 0 {
				res.Info["importedit_no_edit_possible: "+n]++
				os.RemoveAll(dir)
				continue
			}
			f2, err := sc.load()
			if err != nil {
				fatal("importedit: %v", err)
			}
			o2 := callSafe(op, &f2, sc)
			ref, err := soloFresh(u, main, n)
			if err != nil {
				res.Error = err.Error()
				os.RemoveAll(dir)
				return res
			}
			res.Evaluations += 3
			res.Schedules++
			if ref.sameResult(o1) {
				res.Info["importedit_edit_does_not_change_the_output(vacuous): "+n+" "+variant]++
			}
			if !o2.sameResult(ref) {
				res.report("C14|import-edit|"+n+"|"+variant+"|stale-result",
					fmt.Sprintf("%s on %s: after an imported file was edited (%s) a second call in the same process returns status %s, %d bytes (sha %s); a fresh process given the same files returns status %s, %d bytes (sha %s); first difference at %s; the first call had returned sha %s",
						n, filepath.Base(u.Schema), variant, o2.status(), len(o2.Out), o2.hash(), ref.status(), len(ref.Out), ref.hash(), firstDiffL(string(o2.Out), string(ref.Out), "second call", "fresh process"), o1.hash()),
					map[string]any{"sub": "importedit", "schema": u.Schema, "ops": []string{n}, "variant": variant})
			}
			res.Outcomes["import-edit | "+n+" | "+variant+" | "+o2.status()]++
			os.RemoveAll(dir)
		}
	}
	return res
}

// soloFresh runs one operation on one schema in a new process of this same binary and returns what it observed.
func soloFresh(u unit, path, op string) (obs, error) {
	su := unit{Mode: "solo1", Schemas: []string{path}, Ops: []string{op}, Sites: u.Sites}
	b, _ := json.Marshal(su)
	fh, err := os.CreateTemp("", "c14-solo-*.json")
	if err != nil {
		return obs{}, err
	}
	defer os.Remove(fh.Name())
	fh.Write(b)
	fh.Close()
	cmd := exec.Command(os.Args[0], "-unit", fh.Name())
	var stdout, stderr bytes.Buffer
	cmd.Stdout, cmd.Stderr = &stdout, &stderr
	if err := cmd.Run(); err != nil {
		return obs{}, fmt.Errorf("fresh-process run of %s on %s failed: %v: %s", op, path, err, short(stderr.String(), 500))
	}
	var o obs
	if err := json.Unmarshal(stdout.Bytes(), &o); err != nil {
		return obs{}, fmt.Errorf("fresh-process run of %s: unreadable result: %v", op, err)
	}
	return o, nil
}

// solo1 is the body of that fresh process.
func solo1(u unit) {
	setMapIter(1)
	sc := loadSchema(u.Schemas[0])
	f, err := sc.load()
	if err != nil {
		fatal("solo1: %v", err)
	}
	o := callSafe(opByName(u.Ops[0]), &f, sc)
	out, _ := json.Marshal(o)
	os.Stdout.Write(out)
}

// ---------------------------------------------------------------- free-running race pass

func race(u unit) *result {
	res := &result{Unit: u, Outcomes: map[string]int{}, Info: map[string]int{}}
	sc := loadSchema(u.Schema)
	var defs []opDef
	for _, n := range u.Ops {
		defs = append(defs, opByName(n))
	}
	// The first concurrent iteration runs COLD: nothing of package bebop has run in this process yet, so state that is
	// built lazily on first use (tables grown on demand, caches) is built while the goroutines race for it. The solo
	// references are therefore computed after the first iteration, not before.
	var solo []obs
	var firstOuts []obs
	for it := 0; it < u.Iters; it++ {
		if it == 1 {
			for i := range defs {
				f, err := sc.load()
				if err != nil {
					fatal("schema: %v", err)
				}
				solo = append(solo, callSafe(defs[i], &f, sc))
			}
			for i := range defs {
				if !firstOuts[i].sameResult(solo[i]) {
					res.Info["free_running_result_differs_from_solo: "+u.Ops[i]]++
				}
			}
		}
		shared, _ := sc.load()
		outs := make([]obs, len(defs))
		start := make(chan struct{})
		var wg sync.WaitGroup
		for i := range defs {
			i := i
			wg.Add(1)
			go func() {
				defer wg.Done()
				<-start
				outs[i] = callSafe(defs[i], &shared, sc)
			}()
		}
		close(start)
		wg.Wait()
		res.Schedules++
		if it == 0 {
			firstOuts = outs
			continue
		}
		for i := range defs {
			if !outs[i].sameResult(solo[i]) {
				res.Info["free_running_result_differs_from_solo: "+u.Ops[i]]++
			}
		}
	}
	return res
}

// ---------------------------------------------------------------- replay

func replay(u unit) (*result, bool) {
	res := &result{Unit: u, Outcomes: map[string]int{}, Info: map[string]int{}}
	switch {
	case len(u.Seq) > 0:
		// run exactly the sequence
		sc := loadSchema(u.Schema)
		setMapIter(1)
		f, err := sc.load()
		if err != nil {
			fatal("schema: %v", err)
		}
		prev := stateOf(&f)
		bad := false
		for i, n := range u.Seq {
			fs, _ := sc.load()
			s := callSafe(opByName(n), &fs, sc)
			o := callSafe(opByName(n), &f, sc)
			now := stateOf(&f)
			vis, hid := prev.diff(now)
			fmt.Printf("call %d %s: status %s, %d bytes sha %s (solo: %s, %d bytes sha %s); File fields visibly changed %v, spare capacity written %v\n",
				i+1, n, o.status(), len(o.Out), o.hash(), s.status(), len(s.Out), s.hash(), vis, hid)
			for _, fld := range hid {
				fmt.Printf("  %s before: %s\n  %s after:  %s\n", fld, short(prev.Full[fld], 400), fld, short(now.Full[fld], 400))
			}
			if !o.sameResult(s) || len(vis)+len(hid) > 0 {
				bad = true
			}
			prev = now
		}
		return res, bad
	case len(u.R) == 2:
		sc := loadSchema(u.Schema)
		op := opByName(u.Ops[0])
		var os2 []obs
		for i, r := range u.R {
			setMapIter(uintptr(r + 1))
			if i == 1 && len(u.DevAt) == 2 {
				setMapDev(uintptr(u.DevAt[0]), uintptr(u.DevAt[1]))
			}
			var o obs
			if op.Kind == "read" || op.Kind == "format" {
				o = callSafe(op, nil, sc)
			} else {
				f, err := sc.load()
				if err != nil {
					fatal("schema: %v", err)
				}
				o = callSafe(op, &f, sc)
			}
			setMapIter(0)
			dv := ""
			if i == 1 && len(u.DevAt) == 2 {
				dv = fmt.Sprintf(" (iteration %d of the call starting at %d instead)", u.DevAt[0], u.DevAt[1])
			}
			fmt.Printf("%s with map iteration start %d%s: status %s %q, %d bytes sha %s\n", op.Name, r, dv, o.status(), o.ErrText+o.Panic, len(o.Out), o.hash())
			os2 = append(os2, o)
		}
		bad := !os2[0].sameResult(os2[1]) || os2[0].ErrText != os2[1].ErrText
		if bad {
			fmt.Printf("first difference at %s\n", firstDiffL(string(os2[1].Out), string(os2[0].Out), fmt.Sprintf("start %d", u.R[1]), fmt.Sprintf("start %d", u.R[0])))
		}
		return res, bad
	default:
		setMapIter(1)
		runtime.GOMAXPROCS(1)
		e := newExplorer(u)
		if e.unstable != "" {
			fmt.Println("VIOLATION (repeatability): " + e.unstable)
			return res, true
		}
		p := dense(u.Choices, u.NChoices)
		e.shared, _ = e.sc.load()
		r := sched.Execute(e.bodies(), sched.Config{Prefix: p, LSites: u.LSites, RecordSteps: true})
		if r.Broken != "" {
			fatal("replay: %s", r.Broken)
		}
		v := e.judge(r)
		fmt.Printf("operations %v, %d yields, %d choice points, %d preemptions\nschedule: %s\noutcome: %s\n", u.Ops, r.NSteps, len(r.Trace), r.Preemptions, e.describe(r), v.key)
		for i, s := range v.sigs {
			fmt.Printf("VIOLATION %s\n  %s\n", s, v.msgs[i])
		}
		return res, len(v.sigs) > 0
	}
}

func main() {
	unitPath := flag.String("unit", "", "unit of work (JSON file)")
	flag.Parse()
	b, err := os.ReadFile(*unitPath)
	if err != nil {
		fatal("unit: %v", err)
	}
	var u unit
	if err := json.Unmarshal(b, &u); err != nil {
		fatal("unit: %v", err)
	}
	loadSites(u.Sites)
	if pf := os.Getenv("C14_CPUPROFILE"); pf != "" {
		fh, err := os.Create(pf)
		if err == nil {
			pprof.StartCPUProfile(fh)
			defer pprof.StopCPUProfile()
		}
	}
	t0 := time.Now()
	var res *result
	switch u.Mode {
	case "solo1":
		solo1(u)
		return
	case "probe":
		res = probe(u)
	case "explore":
		res = explore(u)
	case "maporder":
		res = mapOrder(u)
	case "repeat":
		res = repeat(u)
	case "importedit":
		res = importEdit(u)
		if os.Getenv("C14_REPLAY") != "" {
			for _, v := range res.Violations {
				fmt.Printf("VIOLATION %s\n  %s\n", v.Sig, v.Msg)
			}
			if len(res.Violations) > 0 {
				os.Exit(1)
			}
			fmt.Println("import-edit: second calls equal fresh-process results")
			return
		}
	case "race":
		res = race(u)
	case "replay":
		_, bad := replay(u)
		if bad {
			pprof.StopCPUProfile()
			os.Exit(1)
		}
		return
	default:
		fatal("unknown mode %q", u.Mode)
	}
	res.Seconds = time.Since(t0).Seconds()
	out, _ := json.Marshal(res)
	os.Stdout.Write(out)
	os.Stdout.Write([]byte("\n"))
}
