//go:build !c14seam

package main

// Built without the runtime overlay (race pass, plain builds): no control over map iteration.
func setMapIter(v uintptr) {}

func setMapDev(at, val uintptr) {}
func mapIterCount() uintptr     { return 0 }

const haveSeam = false
