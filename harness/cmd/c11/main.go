// C11 — the parsed File says exactly what the schema text says.
// Bounded-exhaustive: every alphabet definition × every layout against an independent expected AST;
// every definition sequence up to length 2 (quick) / 3 (thorough) for context independence; every
// sequence × layout for layout invariance. All on the real ReadFile from /repo's working tree.
package main

import (
	"encoding/json"
	"flag"
	"fmt"
	"os"
	"strings"
	"sync/atomic"

	"github.com/200sc/bebop"
	"verif/textgen"
	"verif/vlib"
)

type parsed struct {
	ok    bool
	err   string
	canon string // with comments
	bare  string // without comments
	panic string
}

func parse(text string) (p parsed) {
	defer func() {
		if r := recover(); r != nil {
			p.panic = fmt.Sprint(r)
		}
	}()
	f, _, err := bebop.ReadFile(strings.NewReader(text))
	if err != nil {
		p.err = err.Error()
		return
	}
	p.ok = true
	p.canon = textgen.Canon(f, textgen.CanonOpt{})
	p.bare = textgen.Canon(f, textgen.CanonOpt{NoComments: true})
	return
}

func firstDiffLine(a, b string) string {
	la, lb := strings.Split(a, "\n"), strings.Split(b, "\n")
	for i := 0; i < len(la) || i < len(lb); i++ {
		x, y := "", ""
		if i < len(la) {
			x = la[i]
		}
		if i < len(lb) {
			y = lb[i]
		}
		if x != y {
			return fmt.Sprintf("got:  %s\nwant: %s", vlib.Short(x, 400), vlib.Short(y, 400))
		}
	}
	return ""
}

// aspect names which part of a definition line differs (for signatures).
func aspect(got, want string) string {
	la, lb := strings.Split(got, "\n"), strings.Split(want, "\n")
	if len(la) != len(lb) {
		return "definition-count"
	}
	for i := range la {
		if la[i] != lb[i] {
			g, w := la[i], lb[i]
			switch {
			case strip(g, "doc=") == strip(w, "doc="):
				return "comment"
			case strings.Contains(w, " op=") && strip(g, "op=") == strip(w, "op="):
				return "opcode"
			case strings.HasPrefix(w, "enum "):
				return "enum-values"
			}
			return strings.SplitN(w, " ", 2)[0] + "-content"
		}
	}
	return "none"
}

// strip removes the values of key=... tokens so that two lines can be compared modulo that attribute.
func strip(s, key string) string {
	var out strings.Builder
	for {
		i := strings.Index(s, key)
		if i < 0 {
			out.WriteString(s)
			return out.String()
		}
		out.WriteString(s[:i])
		rest := s[i+len(key):]
		if strings.HasPrefix(rest, "\"") {
			// quoted value
			j := 1
			for j < len(rest) {
				if rest[j] == '\\' {
					j += 2
					continue
				}
				if rest[j] == '"' {
					break
				}
				j++
			}
			if j+1 <= len(rest) {
				s = rest[min(j+1, len(rest)):]
			} else {
				s = ""
			}
		} else {
			j := strings.IndexAny(rest, " ]}")
			if j < 0 {
				j = len(rest)
			}
			s = rest[j:]
		}
	}
}

func labels(defs []*textgen.Def) string {
	var l []string
	for _, d := range defs {
		l = append(l, d.Label)
	}
	return strings.Join(l, ">")
}

func main() {
	prop := flag.String("property", "C11", "")
	replay := flag.String("replay", "", "")
	flag.Parse()
	run := vlib.NewRun(*prop, "model_checking")
	if *replay != "" {
		doReplay(*replay)
		return
	}
	var states, trans int64
	outcomes := vlib.NewCounter()

	judge := func(defs []*textgen.Def, l textgen.Layout, phase string) {
		text := textgen.Render(defs, l)
		p := parse(text)
		atomic.AddInt64(&states, 1)
		atomic.AddInt64(&trans, 1)
		c := map[string]any{"schema": text, "layout": l.Name, "definitions": labels(defs), "phase": phase}
		lab := labels(defs)
		if p.panic != "" {
			run.Report(fmt.Sprintf("C11|%s|panic|%s|layout=%s", phase, lab, l.Name), "ReadFile panicked: "+p.panic, c)
			return
		}
		if !p.ok {
			outcomes.Add("rejected")
			if l.Required {
				run.Report(fmt.Sprintf("C11|%s|rejected|%s|layout=%s", phase, lab, l.Name),
					fmt.Sprintf("well-formed schema in a required layout (%s) was rejected: %s\n%s", l.Name, p.err, vlib.Short(text, 600)), c)
			}
			return
		}
		want := textgen.Expect(defs)
		got, exp := p.canon, textgen.Canon(want, textgen.CanonOpt{})
		if l.OneLine || l.BlankAfterAttr {
			// member/field doc comments are not rendered on one-line bodies, and a comment separated from what it annotates
			// by an attribute AND an empty line is not "directly above" it: compare without comments
			got, exp = p.bare, textgen.Canon(want, textgen.CanonOpt{NoComments: true})
		}
		outcomes.Add(got)
		if got != exp {
			c["got"] = got
			c["want"] = exp
			run.Report(fmt.Sprintf("C11|%s|differs|%s|%s|layout=%s", phase, aspect(got, exp), lab, l.Name),
				fmt.Sprintf("ReadFile reports something the text does not say (layout %s):\n%s\n--- schema ---\n%s", l.Name, firstDiffLine(got, exp), vlib.Short(text, 600)), c)
		}
	}

	alpha := textgen.Alphabet(0)
	// 1. every single definition × every layout against the expected AST
	type job struct {
		defs  []*textgen.Def
		l     textgen.Layout
		phase string
	}
	var jobs []job
	for _, d := range alpha {
		for _, l := range textgen.Layouts {
			jobs = append(jobs, job{[]*textgen.Def{d}, l, "single"})
		}
	}
	for _, d := range textgen.PrecedenceEnums(0) {
		for _, l := range textgen.Layouts {
			jobs = append(jobs, job{[]*textgen.Def{d}, l, "precedence"})
		}
	}
	// 1b. long doc comments: a line comment may be longer than any reader buffer (4096 is bufio's default, 65536 bufio.Scanner's)
	for _, d := range alpha {
		if d.Kind == textgen.Import || d.DocBlock {
			continue
		}
		for _, n := range []int{4000, 4090, 4092, 4093, 4094, 4095, 4096, 4097, 4100, 5000, 8190, 8200, 65530, 65536, 70000} {
			if n > 5000 && d.Kind != textgen.Struct && d.Kind != textgen.Const {
				continue
			}
			ld := *d
			ld.Label = d.Label + fmt.Sprintf("+doc%d", n)
			ld.Doc = []string{" " + strings.Repeat("x", n-1)}
			for _, li := range []int{0, 4} { // canonical and CRLF
				jobs = append(jobs, job{[]*textgen.Def{&ld, textgen.Alphabet(1)[0]}, textgen.Layouts[li], "long-doc"})
			}
		}
	}
	// 2. context independence: all sequences of length 2 (quick) and 3 (thorough) in the canonical layout,
	//    and all sequences of length 2 in every layout (layout invariance on non-initial parser states)
	a0, a1, a2 := textgen.Alphabet(0), textgen.Alphabet(1), textgen.Alphabet(2)
	for _, d0 := range a0 {
		for _, d1 := range a1 {
			for li, l := range textgen.Layouts {
				ph := "sequence"
				if li > 0 {
					ph = "sequence-layout"
				}
				jobs = append(jobs, job{[]*textgen.Def{d0, d1}, l, ph})
			}
		}
	}
	if run.Thorough() {
		for _, d0 := range a0 {
			for _, d1 := range a1 {
				for _, d2 := range a2 {
					jobs = append(jobs, job{[]*textgen.Def{d0, d1, d2}, textgen.Layouts[0], "sequence"})
					jobs = append(jobs, job{[]*textgen.Def{d0, d1, d2}, textgen.Layouts[4], "sequence-layout"})
				}
			}
		}
	} else {
		// quick: triples over the attribute-carrying subset (where pending-attribute state lives)
		pick := func(a []*textgen.Def) []*textgen.Def {
			var out []*textgen.Def
			for _, d := range a {
				switch d.Label {
				case "enum", "struct", "message", "union", "const-int", "flags", "struct-readonly", "struct-opcode-int", "struct-doc-dep-tags", "message-opcode", "union-opcode-doc-dep", "enum-deprecated-doc", "import":
					out = append(out, d)
				}
			}
			return out
		}
		for _, d0 := range pick(a0) {
			for _, d1 := range pick(a1) {
				for _, d2 := range pick(a2) {
					jobs = append(jobs, job{[]*textgen.Def{d0, d1, d2}, textgen.Layouts[0], "sequence"})
				}
			}
		}
	}
	vlib.ParallelFor(len(jobs), func(i int) { judge(jobs[i].defs, jobs[i].l, jobs[i].phase) })

	// 3. all of testdata/base must parse identically under CRLF conversion and with trailing blanks removed/added
	base := vlib.RepoDir() + "/testdata/base"
	ents, _ := os.ReadDir(base)
	nfiles := 0
	for _, e := range ents {
		if !strings.HasSuffix(e.Name(), ".bop") {
			continue
		}
		b, err := os.ReadFile(base + "/" + e.Name())
		if err != nil {
			continue
		}
		orig := parse(string(b))
		if !orig.ok {
			continue
		}
		nfiles++
		variants := map[string]string{
			"crlf":                 strings.ReplaceAll(strings.ReplaceAll(string(b), "\r\n", "\n"), "\n", "\r\n"),
			"final-newline":        strings.TrimRight(string(b), "\n") + "\n",
			"leading-blank":        "\n\n" + string(b),
			"tabs-to-spaces":       strings.ReplaceAll(string(b), "\t", "    "),
			"block-comment-at-eof": strings.TrimRight(string(b), "\n") + "\n/* the end */",
			"line-comment-at-eof":  strings.TrimRight(string(b), "\n") + "\n// the end",
			"no-final-newline":     strings.TrimRight(string(b), "\n \t"),
		}
		for name, text := range variants {
			states++
			trans++
			v := parse(text)
			c := map[string]any{"file": "testdata/base/" + e.Name(), "variant": name, "schema": text}
			if !v.ok {
				run.Report("C11|testdata-layout|rejected|variant="+name, fmt.Sprintf("%s parses, its %s variant is rejected: %s %s", e.Name(), name, v.err, v.panic), c)
			} else if v.bare != orig.bare {
				run.Report("C11|testdata-layout|differs|variant="+name, fmt.Sprintf("%s: the %s variant parses to a different File:\n%s", e.Name(), name, firstDiffLine(v.bare, orig.bare)), c)
			}
		}
	}

	// 4. comments trailing a field / member / const on its own line annotate nothing that follows: every alphabet definition
	// (followed by a second one) with one of four trailing-comment forms after every ';' that ends a line must parse to the
	// File, doc comments included, that the text without them parses to
	trailers := []string{" // t1", " /* t2 */", " /* t3 */ // t4", " /* t5 */ /* t6 */ // t7"}
	for di, d := range a0 {
		text := textgen.Render([]*textgen.Def{d, a1[(di+1)%len(a1)]}, textgen.Layouts[0])
		orig := parse(text)
		if !orig.ok {
			continue
		}
		for ti, tr := range trailers {
			states++
			trans++
			vt := strings.ReplaceAll(text, ";\n", ";"+tr+"\n")
			if vt == text {
				continue
			}
			v := parse(vt)
			c := map[string]any{"schema": vt, "definitions": d.Label, "phase": "trailing-comments", "trailer": tr}
			switch {
			case v.panic != "":
				run.Report(fmt.Sprintf("C11|trailing-comments|form=%d|panic|%s", ti, d.Label), "ReadFile panicked: "+v.panic, c)
			case !v.ok:
				run.Report(fmt.Sprintf("C11|trailing-comments|form=%d|rejected|%s", ti, d.Label), "a comment trailing a line is rejected: "+v.err, c)
			case v.canon != orig.canon:
				run.Report(fmt.Sprintf("C11|trailing-comments|form=%d|differs|%s|%s", ti, aspect(v.canon, orig.canon), d.Label),
					"comments trailing a field, member or const changed what the File states (a trailing comment belongs to its own line, not to the next definition):\n"+firstDiffLine(v.canon, orig.canon), c)
			}
			outcomes.Add("trail" + fmt.Sprint(v.ok))
		}
	}

	run.Sample(map[string]any{"layout": "canonical", "schema": textgen.Render([]*textgen.Def{a0[10], a1[16]}, textgen.Layouts[0])})
	run.Sample(map[string]any{"layout": "crlf-tight-postfix", "schema": textgen.Render([]*textgen.Def{a0[17]}, textgen.Layouts[13])})
	run.Coverage["states"] = states
	run.Coverage["transitions"] = trans
	run.Coverage["traces_validated_against_impl"] = trans
	run.Coverage["evaluations"] = states
	run.Coverage["distinct_nontrivial"] = outcomes.Distinct()
	run.Coverage["alphabet_definitions"] = len(alpha)
	run.Coverage["layouts"] = len(textgen.Layouts)
	run.Coverage["testdata_files_revariants"] = nfiles
	run.Coverage["rule"] = "state = (definition sequence, layout) text parsed by the real ReadFile; alphabet of 34 definitions (every construct incl. typed/flags enums, opcodes, readonly, deprecations, doc comments, tags, nested types, consts of every literal form, imports) × 14 layouts; all sequences of length 2 in every layout, length 3 in the canonical layout (quick: attribute-carrying subset; thorough: all); oracle = independent expected-AST builder compared through a canonical printer; distinct = distinct canonical Files observed"
	run.Assume = []string{
		"comment attachment is asserted only for comments directly above what they annotate",
		"only layouts used by the repository's own schemas (plus CRLF) are required to be accepted; others only have to denote the same File if accepted",
		"[flags] expressions that mix operators without parentheses are judged by C-family precedence and reported under their own signature",
	}
	run.Finish()
}

func doReplay(path string) {
	b, err := os.ReadFile(path)
	if err != nil {
		vlib.Fatal("replay: %v", err)
	}
	var v struct {
		Signature string         `json:"signature"`
		Case      map[string]any `json:"case"`
	}
	if json.Unmarshal(b, &v) != nil {
		vlib.Fatal("replay: bad file")
	}
	text, _ := v.Case["schema"].(string)
	p := parse(text)
	fmt.Printf("schema:\n%s\n--- ReadFile: ok=%v err=%q panic=%q\n%s\n", text, p.ok, p.err, p.panic, p.canon)
	if want, ok := v.Case["want"].(string); ok {
		fmt.Printf("--- expected:\n%s\n", want)
		if p.ok && (p.canon == want || p.bare == want) {
			fmt.Println("no longer violates")
			os.Exit(0)
		}
		fmt.Printf("VIOLATION property=C11 replay=%s\n", path)
		os.Exit(1)
	}
	if !p.ok {
		fmt.Printf("VIOLATION property=C11 replay=%s\n", path)
		os.Exit(1)
	}
	os.Exit(0)
}
