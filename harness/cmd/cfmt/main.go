// C16 (formatting preserves meaning) and C17 (formatting is idempotent).
// Bounded-exhaustive over every accepted text of the C11 enumeration (definition sequences × layouts)
// plus the repository's own schemas, on the real Format and ReadFile.
package main

import (
	"bytes"
	"encoding/json"
	"flag"
	"fmt"
	"os"
	"strings"
	"sync/atomic"
	"time"

	"github.com/200sc/bebop"
	"verif/textgen"
	"verif/vlib"
)

type fres struct {
	out     string
	err     string
	panic   string
	timeout bool
}

func format(text string) fres {
	ch := make(chan fres, 1)
	go func() {
		var r fres
		defer func() {
			if p := recover(); p != nil {
				r.panic = fmt.Sprint(p)
			}
			ch <- r
		}()
		var buf bytes.Buffer
		if err := bebop.Format(strings.NewReader(text), &buf); err != nil {
			r.err = err.Error()
		}
		r.out = buf.String()
	}()
	select {
	case r := <-ch:
		return r
	case <-time.After(20 * time.Second):
		return fres{timeout: true}
	}
}

type pres struct {
	ok   bool
	err  string
	bare string
}

func parse(text string) (p pres) {
	defer func() {
		if r := recover(); r != nil {
			p.err = "panic: " + fmt.Sprint(r)
		}
	}()
	f, _, err := bebop.ReadFile(strings.NewReader(text))
	if err != nil {
		p.err = err.Error()
		return
	}
	p.ok = true
	p.bare = textgen.Canon(f, textgen.CanonOpt{NoComments: true})
	return
}

func firstDiffLine(a, b string) string {
	la, lb := strings.Split(a, "\n"), strings.Split(b, "\n")
	for i := 0; i < len(la) || i < len(lb); i++ {
		x, y := "", ""
		if i < len(la) {
			x = la[i]
		}
		if i < len(lb) {
			y = lb[i]
		}
		if x != y {
			return fmt.Sprintf("after:  %s\nbefore: %s", vlib.Short(x, 300), vlib.Short(y, 300))
		}
	}
	return ""
}

func kindOf(line string) string { return strings.SplitN(line, " ", 2)[0] }

func main() {
	prop := flag.String("property", "C16", "")
	replay := flag.String("replay", "", "")
	flag.Parse()
	run := vlib.NewRun(*prop, "model_checking")
	idem := *prop == "C17"
	var states, trans, accepted int64
	outcomes := vlib.NewCounter()

	judge := func(text, label, layout, origin string) {
		atomic.AddInt64(&states, 1)
		before := parse(text)
		if !before.ok {
			return // the properties quantify over accepted texts only
		}
		atomic.AddInt64(&accepted, 1)
		c := map[string]any{"schema": text, "definitions": label, "layout": layout, "origin": origin}
		f1 := format(text)
		atomic.AddInt64(&trans, 1)
		sig := func(kind string) string {
			return fmt.Sprintf("%s|%s|%s|%s|layout=%s", *prop, origin, kind, label, layout)
		}
		switch {
		case f1.timeout:
			run.Report(sig("hang"), "Format did not return within 20 s", c)
			return
		case f1.panic != "":
			run.Report(sig("panic"), "Format panicked: "+f1.panic, c)
			return
		case f1.err != "":
			run.Report(sig("error"), "Format returned an error for an accepted schema: "+f1.err, c)
			return
		}
		c["formatted"] = f1.out
		if idem {
			f2 := format(f1.out)
			atomic.AddInt64(&trans, 1)
			outcomes.Add(f1.out)
			if f2.timeout || f2.panic != "" || f2.err != "" {
				run.Report(sig("second-format-fails"), fmt.Sprintf("formatting the formatter's own output failed: timeout=%v panic=%q err=%q", f2.timeout, f2.panic, f2.err), c)
				return
			}
			if f2.out != f1.out {
				c["formatted_twice"] = f2.out
				run.Report(sig("not-idempotent"), fmt.Sprintf("Format(Format(x)) != Format(x):\n--- once ---\n%s\n--- twice ---\n%s", vlib.Short(f1.out, 500), vlib.Short(f2.out, 500)), c)
			}
			return
		}
		after := parse(f1.out)
		atomic.AddInt64(&trans, 1)
		outcomes.Add(after.bare)
		if !after.ok {
			run.Report(sig("output-rejected"), fmt.Sprintf("Format's output no longer parses: %s\n--- input ---\n%s\n--- output ---\n%s", after.err, vlib.Short(text, 500), vlib.Short(f1.out, 500)), c)
			return
		}
		if after.bare != before.bare {
			run.Report(sig("meaning-changed"), fmt.Sprintf("Format changed the schema:\n%s\n--- input ---\n%s\n--- output ---\n%s", firstDiffLine(after.bare, before.bare), vlib.Short(text, 500), vlib.Short(f1.out, 500)), c)
		}
	}

	if *replay != "" {
		b, err := os.ReadFile(*replay)
		if err != nil {
			vlib.Fatal("replay: %v", err)
		}
		var v struct {
			Case map[string]any `json:"case"`
		}
		json.Unmarshal(b, &v)
		text, _ := v.Case["schema"].(string)
		judge(text, fmt.Sprint(v.Case["definitions"]), fmt.Sprint(v.Case["layout"]), fmt.Sprint(v.Case["origin"]))
		f := format(text)
		fmt.Printf("--- input ---\n%s\n--- Format (err=%q panic=%q) ---\n%s\n", text, f.err, f.panic, f.out)
		run.Coverage["states"], run.Coverage["transitions"], run.Coverage["traces_validated_against_impl"] = 1, 1, 1
		run.Coverage["evaluations"], run.Coverage["distinct_nontrivial"] = 1, 2
		run.Sample(map[string]any{"replay": *replay})
		run.Finish()
	}

	type job struct{ text, label, layout, origin string }
	var jobs []job
	lab := func(defs []*textgen.Def) string {
		var l []string
		for _, d := range defs {
			l = append(l, d.Label)
		}
		return strings.Join(l, ">")
	}
	a0, a1, a2 := textgen.Alphabet(0), textgen.Alphabet(1), textgen.Alphabet(2)
	for _, d := range a0 {
		for _, l := range textgen.Layouts {
			jobs = append(jobs, job{textgen.Render([]*textgen.Def{d}, l), d.Label, l.Name, "single"})
		}
	}
	for _, d := range textgen.PrecedenceEnums(0) {
		jobs = append(jobs, job{textgen.Render([]*textgen.Def{d}, textgen.Layouts[0]), d.Label, "canonical", "single"})
	}
	// sequences: the formatter carries state between definitions (pending readonly, blank line before next record)
	seqLayouts := []textgen.Layout{textgen.Layouts[0], textgen.Layouts[2], textgen.Layouts[4], textgen.Layouts[9], textgen.Layouts[len(textgen.Layouts)-1]}
	if run.Thorough() {
		seqLayouts = textgen.Layouts
	}
	for _, d0 := range a0 {
		for _, d1 := range a1 {
			for _, l := range seqLayouts {
				defs := []*textgen.Def{d0, d1}
				jobs = append(jobs, job{textgen.Render(defs, l), lab(defs), l.Name, "sequence"})
			}
		}
	}
	if run.Thorough() {
		for _, d0 := range a0 {
			for _, d1 := range a1 {
				for _, d2 := range a2 {
					defs := []*textgen.Def{d0, d1, d2}
					jobs = append(jobs, job{textgen.Render(defs, textgen.Layouts[0]), lab(defs), "canonical", "sequence"})
				}
			}
		}
	}
	// comment placements: end-of-line comments after fields, comments between definitions and at file end
	for _, d := range a0 {
		base := textgen.Render([]*textgen.Def{d}, textgen.Layouts[0])
		jobs = append(jobs, job{"// leading comment\n" + base, d.Label, "canonical", "comment-before"})
		jobs = append(jobs, job{base + "// trailing comment\n", d.Label, "canonical", "comment-after"})
		jobs = append(jobs, job{base + "/* trailing block */\n", d.Label, "canonical", "block-comment-after"})
		jobs = append(jobs, job{strings.Replace(base, ";\n", "; // eol comment\n", 1), d.Label, "canonical", "eol-comment"})
		jobs = append(jobs, job{strings.Replace(base, ";\n", "; /* eol block */\n", 1), d.Label, "canonical", "eol-block-comment"})
	}
	// comments between an attribute and what it annotates, whitespace after comments, odd line ends inside comments
	for _, d := range a0 {
		base := textgen.Render([]*textgen.Def{d}, textgen.Layouts[0])
		for _, attr := range []string{"[flags]\n", ")]\n"} {
			if i := strings.Index(base, attr); i >= 0 {
				cut := i + len(attr)
				jobs = append(jobs, job{base[:cut] + "// between attribute and definition\n" + base[cut:], d.Label, "canonical", "comment-after-attribute"})
				jobs = append(jobs, job{base[:cut] + "/* between attribute and definition */\n" + base[cut:], d.Label, "canonical", "block-comment-after-attribute"})
			}
		}
		jobs = append(jobs, job{strings.Replace(base, ";\n", "; /* eol block */\t\n/* next */\n", 1), d.Label, "canonical", "eol-block-comment-tab"})
		jobs = append(jobs, job{strings.Replace(base, ";\n", "; // eol comment \t \n", 1), d.Label, "canonical", "eol-comment-trailing-blanks"})
		jobs = append(jobs, job{"// leading comment\r\r\n" + base, d.Label, "canonical", "comment-cr-cr-lf"})
		jobs = append(jobs, job{"/* block\r\r\ncomment */\n" + base, d.Label, "canonical", "block-comment-cr-cr-lf"})
		jobs = append(jobs, job{base + "\n\n\n// far trailing comment", d.Label, "canonical", "comment-at-eof-no-newline"})
	}
	// what follows a commented definition: the formatter decides line breaks from the previous and the next token
	followers := []struct{ name, text string }{
		{"import", "import \"zq_follow.bop\"\n"}, {"const", "const int32 zqFollow = 7;\n"}, {"struct", "struct ZqFollow {\n    int32 x;\n}\n"},
		{"flags-enum", "[flags]\nenum ZqFollowF {\n    A = 1;\n}\n"}, {"opcode-message", "[opcode(9)]\nmessage ZqFollowM {\n    1 -> int32 x;\n}\n"}, {"line-comment", "// another comment\n"}}
	for _, d := range a0 {
		base := textgen.Render([]*textgen.Def{d}, textgen.Layouts[0])
		// the last ";" or "}" of the definition gets the end-of-line comment (consts and one-line definitions end in ";")
		last := strings.LastIndexAny(strings.TrimRight(base, "\n"), ";}")
		if last < 0 {
			last = len(strings.TrimRight(base, "\n")) - 1 // imports end with the path
		}
		for _, fo := range followers {
			for _, pl := range []struct{ name, text string }{
				{"eol-comment-at-end", base[:last+1] + " // eol comment\n"}, {"eol-block-comment-at-end", base[:last+1] + " /* eol block */\n"},
				{"comment-after", base + "// trailing comment\n"}, {"block-comment-after", base + "/* trailing block */\n"}, {"plain", base}} {
				jobs = append(jobs, job{pl.text + fo.text, d.Label + ">" + fo.name, "canonical", pl.name + "-then-" + fo.name})
				jobs = append(jobs, job{fo.text + pl.text, fo.name + ">" + d.Label, "canonical", fo.name + "-then-" + pl.name})
			}
		}
	}
	// comments longer than any reader buffer (bufio: 4096, bufio.Scanner: 65536), before, inside and between definitions
	for di, d := range a0 {
		base := textgen.Render([]*textgen.Def{d}, textgen.Layouts[0])
		next := textgen.Render([]*textgen.Def{a1[0], a2[1]}, textgen.Layouts[0])
		for _, n := range []int{4000, 4093, 4094, 4095, 4096, 4097, 5000, 8200, 65534, 65536, 70000} {
			if n > 5000 && di > 8 {
				continue
			}
			long := "// " + strings.Repeat("c", n-3) + "\n"
			jobs = append(jobs, job{long + base + next, d.Label, "canonical", fmt.Sprintf("long-comment-%d-before", n)})
			jobs = append(jobs, job{base + long + next, d.Label, "canonical", fmt.Sprintf("long-comment-%d-between", n)})
			if i := strings.Index(base, ";\n"); i >= 0 && strings.Contains(base, "{") {
				jobs = append(jobs, job{base[:i+2] + long + base[i+2:] + next, d.Label, "canonical", fmt.Sprintf("long-comment-%d-inside", n)})
			}
			jobs = append(jobs, job{"/* " + strings.Repeat("b", n) + " */\n" + base + next, d.Label, "canonical", fmt.Sprintf("long-block-comment-%d-before", n)})
		}
	}
	// everything C10's acceptance search finds acceptable: all lexeme strings up to length 3 from two start states, and every
	// lexeme (thorough: every pair) between a top-level attribute / doc comment and the definition it annotates
	for _, t := range textgen.LexemeStrings(3) {
		jobs = append(jobs, job{t, "lexemes", "as-is", "lexeme-string"})
	}
	for _, t := range textgen.AttributeInterleavings(run.Thorough()) {
		jobs = append(jobs, job{t, "attribute-interleaving", "as-is", "attribute-interleaving"})
	}
	// string literals and block comments that span lines, with blanks before the line breaks (what is inside a token is
	// not the formatter's to change), at top level and inside union branches (re-indented bodies)
	for _, t := range []struct{ name, text string }{
		{"multi-line-string-trailing-blank", "const string zqBanner = \"first line, \nsecond line\t\nthird\";\nstruct ZqAfter {\n    int32 x;\n}\n"},
		{"multi-line-deprecation", "message ZqM {\n    [deprecated(\"line one \nline two\")]\n    1 -> int32 x;\n    2 -> string s;\n}\n"},
		{"multi-line-comment-in-union-branch", "union ZqU {\n    1 -> struct ZqA {\n        /* line one\n           line two */\n        int32 x;\n    }\n    2 -> message ZqB {\n        /* l1\n\tl2 \n  l3 */\n        1 -> int32 y;\n        [deprecated(\"two\nlines\")]\n        2 -> string z;\n    }\n}\n"},
		{"multi-line-comment-in-struct", "struct ZqS {\n    /* a\n       b */\n    int32 x; /* c\n d */\n    string y;\n}\n"},
		{"zero-padded-indices", "message ZpM {\n    001 -> int32 a;\n    007 -> int32 b;\n    009 -> int32 c;\n    010 -> int32 d;\n    064 -> int32 e;\n    100 -> int32 f;\n    0255 -> int32 g;\n}\nunion ZpU {\n    008 -> struct ZpA {\n        int32 x;\n    }\n    010 -> struct ZpB {\n        int32 y;\n    }\n    0077 -> message ZpC {\n        01 -> int32 z;\n        017 -> int32 w;\n    }\n}\n"},
		{"javadoc-comment-in-struct", "struct ZjS {\n\t/**\n\t * The horizontal position.\n\t */\n\tint32 x;\n    /*\n     * spaces\n     */\n\tint32 y; /* eol\n\t * star */\n\tint32 z;\n}\n"},
		{"javadoc-comment-in-message", "message ZjM {\n\t/**\n\t * doc of a\n\t */\n\t1 -> int32 a;\n  /*\n   * doc of b\n   */\n\t2 -> string b;\n}\n"},
		{"javadoc-comment-in-enum", "enum ZjE {\n\t/**\n\t * doc of A\n\t */\n\tA = 1;\n  /*\n   * doc of B\n   */\n\tB = 2;\n}\n"},
		{"javadoc-comment-in-union", "union ZjU {\n\t/**\n\t * first branch\n\t */\n\t1 -> struct ZjA {\n\t\t/**\n\t\t * inside a branch struct\n\t\t */\n\t\tint32 x;\n\t}\n  /*\n   * second branch\n   */\n\t2 -> message ZjB {\n\t\t/**\n\t\t * inside a branch message\n\t\t */\n\t\t1 -> int32 y;\n\t}\n}\n"},
		{"javadoc-comment-top-level", "/**\n * doc of the struct\n */\nstruct ZjT {\n\tint32 x;\n}\n/*\n\t* tab then star\n \t * blank tab blank star\n*/\nconst int32 zjK = 1;\n"},
		{"field-then-block-then-line-comment", "struct ZqT {\n    int32 timeout; /* milliseconds */ // since v2\n    [deprecated(\"x\")] int32 old; // gone\n    string s; /* a */ /* b */\n}\n"},
	} {
		jobs = append(jobs, job{t.text, t.name, "as-is", "multi-line-token"})
	}
	// every keyword of the language in every position where an identifier is expected (whatever ReadFile accepts of these,
	// Format has to keep), with ordinary neighbours before and after
	for _, kw := range []string{"readonly", "message", "struct", "enum", "deprecated", "opcode", "map", "array", "union", "const", "inf", "nan", "true", "false", "import", "flags"} {
		for _, t := range []struct{ pos, text string }{
			{"enum-option", "enum ZkE {\n    text = 1;\n    " + kw + " = 2;\n    blob = 4;\n}\n"},
			{"enum-option-deprecated", "enum ZkD : uint8 {\n    first = 1;\n    [deprecated(\"old\")]\n    " + kw + " = 2;\n    last = 3;\n}\n"},
			{"flags-option", "[flags]\nenum ZkF {\n    a = 1;\n    " + kw + " = 2;\n    c = a | 4;\n}\n"},
			{"struct-field-name", "struct ZkS {\n    int32 before;\n    int32 " + kw + ";\n    string after;\n}\n"},
			{"message-field-name", "message ZkM {\n    1 -> int32 before;\n    2 -> string " + kw + ";\n    3 -> bool after;\n}\n"},
			{"struct-field-type", "struct ZkT {\n    int32 before;\n    " + kw + " x;\n    string after;\n}\n"},
			{"definition-name", "struct " + kw + " {\n    int32 x;\n}\nstruct ZkAfter {\n    int32 y;\n}\n"},
			{"const-name", "const int32 " + kw + " = 3;\nconst int32 zkAfter = 4;\n"},
			{"union-branch-name", "union ZkU {\n    1 -> struct " + kw + " {\n        int32 x;\n    }\n    2 -> struct ZkB {\n        int32 y;\n    }\n}\n"},
		} {
			jobs = append(jobs, job{t.text, "keyword-" + kw + "-as-" + t.pos, "as-is", "keyword-as-identifier"})
		}
	}
	// files longer than a reader buffer, written compactly
	for _, n := range []int{60, 120, 1200} {
		jobs = append(jobs, job{textgen.CompactLarge(n), fmt.Sprintf("compact-%d-definitions", n), "one-definition-per-line", "large-file"})
	}
	// the repository's own schemas
	dir := vlib.RepoDir() + "/testdata/base"
	ents, _ := os.ReadDir(dir)
	for _, e := range ents {
		if strings.HasSuffix(e.Name(), ".bop") {
			if b, err := os.ReadFile(dir + "/" + e.Name()); err == nil {
				jobs = append(jobs, job{string(b), "testdata/base/" + e.Name(), "as-is", "testdata"})
			}
		}
	}
	vlib.ParallelFor(len(jobs), func(i int) { judge(jobs[i].text, jobs[i].label, jobs[i].layout, jobs[i].origin) })

	run.Sample(map[string]any{"input": jobs[0].text, "formatted": format(jobs[0].text).out})
	run.Sample(map[string]any{"input": jobs[len(a0)*len(textgen.Layouts)+40].text})
	run.Coverage["states"] = states
	run.Coverage["transitions"] = trans
	run.Coverage["traces_validated_against_impl"] = trans
	run.Coverage["evaluations"] = states
	run.Coverage["accepted_texts"] = accepted
	run.Coverage["distinct_nontrivial"] = outcomes.Distinct()
	run.Coverage["rule"] = "state = one schema text accepted by ReadFile (34-definition alphabet × 14 layouts, all sequences of length 2 (thorough: 3), five comment placements, testdata/base); transitions = Format / ReadFile calls; C16 oracle: ReadFile(Format(x)) equals ReadFile(x) modulo comments under a canonical printer; C17 oracle: Format(Format(x)) == Format(x) bytewise; distinct = distinct formatted outputs / resulting Files"
	run.Assume = []string{"texts rejected by ReadFile are outside the quantifier", "comment attachment after formatting is not compared (the property exempts it)"}
	run.Finish()
}
