// C20 — iohelp primitives are exact inverses and never return stale data as valid.
// Bounded-exhaustive, in-process, on the real iohelp package from /repo's working tree.
package main

import (
	"bytes"
	"encoding/binary"
	"errors"
	"flag"
	"fmt"
	"io"
	"math"
	"time"

	"github.com/200sc/bebop/iohelp"
	"verif/vlib"
)

type prim struct {
	name        string
	w           int
	writeBytes  func(b []byte, v uint64)
	readBytes   func(b []byte) uint64
	writeStream func(w *iohelp.ErrorWriter, v uint64)
	readStream  func(r *iohelp.ErrorReader) uint64
}

func b2u(b bool) uint64 {
	if b {
		return 1
	}
	return 0
}

var prims = []prim{
	{"Bool", 1,
		func(b []byte, v uint64) { iohelp.WriteBoolBytes(b, v == 1) },
		func(b []byte) uint64 { return b2u(iohelp.ReadBoolBytes(b)) },
		func(w *iohelp.ErrorWriter, v uint64) { iohelp.WriteBool(w, v == 1) },
		func(r *iohelp.ErrorReader) uint64 { return b2u(iohelp.ReadBool(r)) }},
	{"Byte", 1,
		func(b []byte, v uint64) { iohelp.WriteByteBytes(b, byte(v)) },
		func(b []byte) uint64 { return uint64(iohelp.ReadByteBytes(b)) },
		func(w *iohelp.ErrorWriter, v uint64) { iohelp.WriteByte(w, byte(v)) },
		func(r *iohelp.ErrorReader) uint64 { return uint64(iohelp.ReadByte(r)) }},
	{"Uint8", 1,
		func(b []byte, v uint64) { iohelp.WriteUint8Bytes(b, uint8(v)) },
		func(b []byte) uint64 { return uint64(iohelp.ReadUint8Bytes(b)) },
		func(w *iohelp.ErrorWriter, v uint64) { iohelp.WriteUint8(w, uint8(v)) },
		func(r *iohelp.ErrorReader) uint64 { return uint64(iohelp.ReadUint8(r)) }},
	{"Uint16", 2,
		func(b []byte, v uint64) { iohelp.WriteUint16Bytes(b, uint16(v)) },
		func(b []byte) uint64 { return uint64(iohelp.ReadUint16Bytes(b)) },
		func(w *iohelp.ErrorWriter, v uint64) { iohelp.WriteUint16(w, uint16(v)) },
		func(r *iohelp.ErrorReader) uint64 { return uint64(iohelp.ReadUint16(r)) }},
	{"Int16", 2,
		func(b []byte, v uint64) { iohelp.WriteInt16Bytes(b, int16(v)) },
		func(b []byte) uint64 { return uint64(uint16(iohelp.ReadInt16Bytes(b))) },
		func(w *iohelp.ErrorWriter, v uint64) { iohelp.WriteInt16(w, int16(v)) },
		func(r *iohelp.ErrorReader) uint64 { return uint64(uint16(iohelp.ReadInt16(r))) }},
	{"Uint32", 4,
		func(b []byte, v uint64) { iohelp.WriteUint32Bytes(b, uint32(v)) },
		func(b []byte) uint64 { return uint64(iohelp.ReadUint32Bytes(b)) },
		func(w *iohelp.ErrorWriter, v uint64) { iohelp.WriteUint32(w, uint32(v)) },
		func(r *iohelp.ErrorReader) uint64 { return uint64(iohelp.ReadUint32(r)) }},
	{"Int32", 4,
		func(b []byte, v uint64) { iohelp.WriteInt32Bytes(b, int32(v)) },
		func(b []byte) uint64 { return uint64(uint32(iohelp.ReadInt32Bytes(b))) },
		func(w *iohelp.ErrorWriter, v uint64) { iohelp.WriteInt32(w, int32(v)) },
		func(r *iohelp.ErrorReader) uint64 { return uint64(uint32(iohelp.ReadInt32(r))) }},
	{"Uint64", 8,
		func(b []byte, v uint64) { iohelp.WriteUint64Bytes(b, v) },
		func(b []byte) uint64 { return iohelp.ReadUint64Bytes(b) },
		func(w *iohelp.ErrorWriter, v uint64) { iohelp.WriteUint64(w, v) },
		func(r *iohelp.ErrorReader) uint64 { return iohelp.ReadUint64(r) }},
	{"Int64", 8,
		func(b []byte, v uint64) { iohelp.WriteInt64Bytes(b, int64(v)) },
		func(b []byte) uint64 { return uint64(iohelp.ReadInt64Bytes(b)) },
		func(w *iohelp.ErrorWriter, v uint64) { iohelp.WriteInt64(w, int64(v)) },
		func(r *iohelp.ErrorReader) uint64 { return uint64(iohelp.ReadInt64(r)) }},
	{"Float32", 4,
		func(b []byte, v uint64) { iohelp.WriteFloat32Bytes(b, math.Float32frombits(uint32(v))) },
		func(b []byte) uint64 { return uint64(math.Float32bits(iohelp.ReadFloat32Bytes(b))) },
		func(w *iohelp.ErrorWriter, v uint64) { iohelp.WriteFloat32(w, math.Float32frombits(uint32(v))) },
		func(r *iohelp.ErrorReader) uint64 { return uint64(math.Float32bits(iohelp.ReadFloat32(r))) }},
	{"Float64", 8,
		func(b []byte, v uint64) { iohelp.WriteFloat64Bytes(b, math.Float64frombits(v)) },
		func(b []byte) uint64 { return math.Float64bits(iohelp.ReadFloat64Bytes(b)) },
		func(w *iohelp.ErrorWriter, v uint64) { iohelp.WriteFloat64(w, math.Float64frombits(v)) },
		func(r *iohelp.ErrorReader) uint64 { return math.Float64bits(iohelp.ReadFloat64(r)) }},
}

// refLE is the reference layout: little-endian, w bytes (encoding/binary only).
func refLE(v uint64, w int) []byte {
	b := make([]byte, 8)
	binary.LittleEndian.PutUint64(b, v)
	return b[:w]
}

var lanes = []byte{0x00, 0x01, 0x7f, 0x80, 0xff}

func values(p prim, thorough bool) []uint64 {
	var out []uint64
	switch {
	case p.name == "Bool":
		return []uint64{0, 1}
	case p.w == 1:
		for i := 0; i < 256; i++ {
			out = append(out, uint64(i))
		}
	case p.w == 2:
		for i := 0; i < 65536; i++ {
			out = append(out, uint64(i))
		}
	default:
		// every value whose bytes are drawn from the lane alphabet (5^w), w=8 only in thorough (390625),
		// quick: 8-byte values use lanes {00,01,80,ff} (65536) – any lane swap or byte-order error still shows.
		ls := lanes
		if p.w == 8 && !thorough {
			ls = []byte{0x00, 0x01, 0x80, 0xff}
		}
		n := 1
		for i := 0; i < p.w; i++ {
			n *= len(ls)
		}
		for i := 0; i < n; i++ {
			var v uint64
			k := i
			for j := 0; j < p.w; j++ {
				v |= uint64(ls[k%len(ls)]) << (8 * j)
				k /= len(ls)
			}
			out = append(out, v)
		}
		for bit := 0; bit < 8*p.w; bit++ {
			out = append(out, uint64(1)<<bit, ^(uint64(1)<<bit)&(^uint64(0)>>(64-8*p.w)))
		}
		// byte-distinct patterns and float specials
		out = append(out, 0x0807060504030201&(^uint64(0)>>(64-8*p.w)))
		if p.name == "Float32" {
			out = append(out, 0x7fc00000, 0x7f800001, 0xffc12345, 0x7f800000, 0xff800000, 0x80000000)
		}
		if p.name == "Float64" {
			out = append(out, 0x7ff8000000000000, 0x7ff0000000000001, 0xfff8123456789abc, 0x7ff0000000000000, 0xfff0000000000000, 0x8000000000000000)
		}
	}
	return out
}

func catch(f func()) (panicked bool, what string) {
	defer func() {
		if r := recover(); r != nil {
			panicked = true
			what = fmt.Sprint(r)
		}
	}()
	f()
	return
}

// faultReader delivers data then fails; style 0: (0,err) after data, style 1: last bytes together with err.
type faultReader struct {
	data  []byte
	pos   int
	err   error
	style int
	calls int
}

func (f *faultReader) Read(p []byte) (int, error) {
	f.calls++
	if f.calls > 10000 {
		panic("runaway reads")
	}
	if len(p) == 0 {
		return 0, nil
	}
	n := copy(p, f.data[f.pos:])
	f.pos += n
	if f.pos >= len(f.data) {
		if f.style == 1 || n == 0 {
			return n, f.err
		}
	}
	return n, nil
}

var errSentinel = errors.New("injected read failure")

// chunkedReader serves data in chunks of a fixed size (0: as much as asked for, -2: half of what is asked for), EOF at the end.
type chunkedReader struct {
	data   []byte
	pos    int
	chunk  int
	endErr error // returned at the end of data (nil: io.EOF)
}

func (c *chunkedReader) Read(p []byte) (int, error) {
	if len(p) == 0 {
		return 0, nil
	}
	if c.pos >= len(c.data) {
		if c.endErr != nil {
			return 0, c.endErr
		}
		return 0, io.EOF
	}
	n := len(p)
	switch {
	case c.chunk == -2:
		n = (n + 1) / 2
	case c.chunk > 0 && n > c.chunk:
		n = c.chunk
	}
	n = copy(p[:n], c.data[c.pos:])
	c.pos += n
	return n, nil
}

// byteChunked adds io.ByteReader (as bytes.Reader, bufio.Reader have it).
type byteChunked struct{ *chunkedReader }

func (b byteChunked) ReadByte() (byte, error) {
	if b.pos >= len(b.data) {
		if b.endErr != nil {
			return 0, b.endErr
		}
		return 0, io.EOF
	}
	b.pos++
	return b.data[b.pos-1], nil
}

func u32le(v uint32) []byte { return []byte{byte(v), byte(v >> 8), byte(v >> 16), byte(v >> 24)} }

func main() {
	prop := flag.String("property", "C20", "")
	flag.String("replay", "", "")
	flag.Parse()
	run := vlib.NewRun(*prop, "model_checking")
	states, trans := 0, 0
	outcomes := vlib.NewCounter()

	// 1+2: inverse, layout, slice<->stream agreement for every value of the bounded domain.
	for _, p := range prims {
		vals := values(p, run.Thorough())
		for _, v := range vals {
			states++
			ref := refLE(v, p.w)
			if p.name == "Bool" {
				ref = []byte{byte(v)}
			}
			c := map[string]any{"prim": p.name, "value_bits": fmt.Sprintf("%#x", v)}
			// slice write into a guarded buffer
			big := bytes.Repeat([]byte{0xEE}, p.w+16)
			buf := big[8 : 8+p.w : 8+p.w]
			if pk, what := catch(func() { p.writeBytes(buf, v) }); pk {
				run.Report("C20|write-bytes|panic|"+p.name, "Write"+p.name+"Bytes panicked on an exact-width buffer: "+what, c)
				continue
			}
			trans++
			if !bytes.Equal(buf, ref) {
				run.Report("C20|layout|slice|"+p.name, fmt.Sprintf("Write%sBytes(%#x) wrote %x, reference little-endian layout is %x", p.name, v, buf, ref), c)
			}
			if !bytes.Equal(big[:8], bytes.Repeat([]byte{0xEE}, 8)) || !bytes.Equal(big[8+p.w:], bytes.Repeat([]byte{0xEE}, 8)) {
				run.Report("C20|guard|write|"+p.name, "Write"+p.name+"Bytes wrote outside the destination slice", c)
			}
			// stream write
			var sink bytes.Buffer
			ew := iohelp.NewErrorWriter(&sink)
			p.writeStream(ew, v)
			trans++
			if ew.Err != nil || !bytes.Equal(sink.Bytes(), ref) {
				run.Report("C20|layout|stream|"+p.name, fmt.Sprintf("Write%s(%#x) emitted %x (err %v), reference is %x", p.name, v, sink.Bytes(), ew.Err, ref), c)
			}
			// slice read of the reference bytes
			rb := append([]byte{}, ref...)
			got := p.readBytes(rb[:p.w:p.w])
			trans++
			if got != v {
				run.Report("C20|inverse|slice|"+p.name, fmt.Sprintf("Read%sBytes(%x) = %#x, want %#x", p.name, ref, got, v), c)
			}
			// stream read
			er := iohelp.NewErrorReader(bytes.NewReader(ref))
			gs := p.readStream(er)
			trans++
			if gs != v || er.Err != nil {
				run.Report("C20|inverse|stream|"+p.name, fmt.Sprintf("Read%s over %x = %#x (err %v), want %#x", p.name, ref, gs, er.Err, v), c)
			}
			outcomes.Add(p.name + fmt.Sprintf("%x", ref))
		}
		run.Sample(map[string]any{"prim": p.name, "values_enumerated": len(vals), "first": fmt.Sprintf("%#x", vals[0]), "last": fmt.Sprintf("%#x", vals[len(vals)-1])})
	}

	// 2b: slice <-> stream agreement on every WIRE byte of the one-byte types (a bool has 256 encodings, not 2)
	for _, p := range prims {
		if p.w != 1 {
			continue
		}
		for b := 0; b < 256; b++ {
			states++
			wire := []byte{byte(b)}
			gb := p.readBytes(wire[:1:1])
			er := iohelp.NewErrorReader(bytes.NewReader(wire))
			gs := p.readStream(er)
			trans += 2
			if gb != gs || er.Err != nil {
				run.Report("C20|agreement|wire-byte|"+p.name, fmt.Sprintf("wire byte %#02x: Read%sBytes = %#x, Read%s (stream) = %#x (err %v)", b, p.name, gb, p.name, gs, er.Err),
					map[string]any{"prim": p.name, "wire_byte": b})
			}
		}
	}

	// 3: buffer lengths around the width: a too-short slice must panic (bounds probe), never be read/written silently.
	for _, p := range prims {
		for n := 0; n <= p.w+2; n++ {
			states++
			big := bytes.Repeat([]byte{0xEE}, n+16)
			buf := big[8 : 8+n : 8+n]
			c := map[string]any{"prim": p.name, "buffer_len": n, "width": p.w}
			v := uint64(0x1122334455667788) & (^uint64(0) >> (64 - 8*p.w))
			if p.name == "Bool" {
				v = 1
			}
			pk, _ := catch(func() { p.writeBytes(buf, v) })
			trans++
			guardsOK := bytes.Equal(big[:8], bytes.Repeat([]byte{0xEE}, 8)) && bytes.Equal(big[8+n:], bytes.Repeat([]byte{0xEE}, 8))
			if !guardsOK {
				run.Report("C20|bounds|write-oob|"+p.name, fmt.Sprintf("Write%sBytes with a %d-byte slice modified memory outside it", p.name, n), c)
			}
			if n < p.w && !pk {
				run.Report("C20|bounds|write-silent|"+p.name, fmt.Sprintf("Write%sBytes accepted a %d-byte slice (needs %d) without panicking", p.name, n, p.w), c)
			}
			if n >= p.w && pk {
				run.Report("C20|bounds|write-spurious-panic|"+p.name, fmt.Sprintf("Write%sBytes panicked on a %d-byte slice (needs %d)", p.name, n, p.w), c)
			}
			pk, _ = catch(func() { _ = p.readBytes(buf) })
			trans++
			if n < p.w && !pk {
				run.Report("C20|bounds|read-silent|"+p.name, fmt.Sprintf("Read%sBytes read %d bytes from a %d-byte slice without panicking", p.name, p.w, n), c)
			}
			if n >= p.w && pk {
				run.Report("C20|bounds|read-spurious-panic|"+p.name, fmt.Sprintf("Read%sBytes panicked on a %d-byte slice (needs %d)", p.name, n, p.w), c)
			}
		}
	}

	// 3b: every string of one byte (256) and of two bytes (65 536): all five readers return exactly the bytes written
	for n := 1; n <= 2; n++ {
		for v := 0; v < 1<<(8*n); v++ {
			states++
			payload := []byte{byte(v)}
			if n == 2 {
				payload = []byte{byte(v), byte(v >> 8)}
			}
			want := string(payload)
			enc := append(refLE(uint64(n), 4), payload...)
			enc = enc[:len(enc):len(enc)]
			bad := func(name, got string, err error) {
				run.Report("C20|string|inverse-short|"+name, fmt.Sprintf("%s over the %d-byte string % x returned (% x, %v)", name, n, payload, got, err), map[string]any{"string_bytes": fmt.Sprintf("% x", payload)})
			}
			if got, err := iohelp.ReadStringBytes(enc); got != want || err != nil {
				bad("ReadStringBytes", got, err)
			}
			if got, err := iohelp.ReadStringBytesSharedMemory(enc); got != want || err != nil {
				bad("ReadStringBytesSharedMemory", got, err)
			}
			if got := iohelp.MustReadStringBytes(enc); got != want {
				bad("MustReadStringBytes", got, nil)
			}
			if got := iohelp.MustReadStringBytesSharedMemory(enc); got != want {
				bad("MustReadStringBytesSharedMemory", got, nil)
			}
			er := iohelp.NewErrorReader(bytes.NewReader(enc))
			if got := iohelp.ReadString(er); got != want || er.Err != nil {
				bad("ReadString", got, er.Err)
			}
			trans += 5
		}
	}

	// 4: GUID layout/inverse: unit vectors, 00..0f and the documented .NET example.
	guids := [][16]byte{}
	for i := 0; i < 16; i++ {
		var g [16]byte
		g[i] = 0xff
		guids = append(guids, g)
	}
	guids = append(guids, [16]byte{0, 1, 2, 3, 4, 5, 6, 7, 8, 9, 10, 11, 12, 13, 14, 15},
		[16]byte{0x00, 0x11, 0x22, 0x33, 0x44, 0x55, 0x66, 0x77, 0x88, 0x99, 0xaa, 0xbb, 0xcc, 0xdd, 0xee, 0xff})
	perm := [16]int{3, 2, 1, 0, 5, 4, 7, 6, 8, 9, 10, 11, 12, 13, 14, 15} // Guid.ToByteArray field order
	for _, g := range guids {
		states++
		var ref [16]byte
		for i := range ref {
			ref[i] = g[perm[i]]
		}
		c := map[string]any{"prim": "GUID", "guid": fmt.Sprintf("%x", g)}
		buf := make([]byte, 16)
		iohelp.WriteGUIDBytes(buf, g)
		var sink bytes.Buffer
		ew := iohelp.NewErrorWriter(&sink)
		iohelp.WriteGUID(ew, g)
		trans += 2
		if !bytes.Equal(buf, ref[:]) || !bytes.Equal(sink.Bytes(), ref[:]) {
			run.Report("C20|layout|GUID", fmt.Sprintf("GUID %x written as %x (slice) / %x (stream), reference field-swapped layout is %x", g, buf, sink.Bytes(), ref), c)
		}
		if got := iohelp.ReadGUIDBytes(ref[:]); got != g {
			run.Report("C20|inverse|slice|GUID", fmt.Sprintf("ReadGUIDBytes(%x) = %x want %x", ref, got, g), c)
		}
		er := iohelp.NewErrorReader(bytes.NewReader(ref[:]))
		if got := iohelp.ReadGUID(er); got != g || er.Err != nil {
			run.Report("C20|inverse|stream|GUID", fmt.Sprintf("ReadGUID over %x = %x (err %v) want %x", ref, got, er.Err, g), c)
		}
		trans += 2
		outcomes.Add("guid" + fmt.Sprintf("%x", ref))
	}
	run.Sample(map[string]any{"prim": "GUID", "example": "00112233-4455-6677-8899-aabbccddeeff <-> 33221100554477668899aabbccddeeff"})
	for n := 0; n < 18; n++ {
		states++
		big := bytes.Repeat([]byte{0xEE}, n+16)
		buf := big[8 : 8+n : 8+n]
		c := map[string]any{"prim": "GUID", "buffer_len": n}
		pk, _ := catch(func() { iohelp.WriteGUIDBytes(buf, guids[16]) })
		if !bytes.Equal(big[:8], bytes.Repeat([]byte{0xEE}, 8)) || !bytes.Equal(big[8+n:], bytes.Repeat([]byte{0xEE}, 8)) {
			run.Report("C20|bounds|write-oob|GUID", "WriteGUIDBytes modified memory outside its slice", c)
		}
		if n < 16 && !pk {
			run.Report("C20|bounds|write-silent|GUID", fmt.Sprintf("WriteGUIDBytes accepted a %d-byte slice", n), c)
		}
		if n < 16 && pk && !bytes.Equal(buf, bytes.Repeat([]byte{0xEE}, n)) {
			run.Report("C20|bounds|write-partial|GUID", fmt.Sprintf("WriteGUIDBytes partially wrote a too-short %d-byte slice before failing", n), c)
		}
		pk, _ = catch(func() { _ = iohelp.ReadGUIDBytes(buf) })
		if n < 16 && !pk {
			run.Report("C20|bounds|read-silent|GUID", fmt.Sprintf("ReadGUIDBytes read a %d-byte slice without panicking", n), c)
		}
		trans += 2
	}

	// 5: dates: tick 0 <-> zero time; otherwise 100ns ticks since the Unix epoch, UTC.
	ticks := []int64{0, 1, -1, 10, 9999999, 10000000, 0x0102030405060708, -0x0102030405060708, math.MaxInt64 / 100, math.MinInt64 / 100, 16094592000000000, 253402300799 * 10000000}
	for _, tk := range ticks {
		states++
		c := map[string]any{"prim": "Date", "ticks": tk}
		b := refLE(uint64(tk), 8)
		got := iohelp.ReadDateBytes(b)
		er := iohelp.NewErrorReader(bytes.NewReader(b))
		gs := iohelp.ReadDate(er)
		trans += 2
		if tk == 0 {
			if !got.IsZero() || !gs.IsZero() {
				run.Report("C20|date|tick0", fmt.Sprintf("tick 0 decodes to %v / %v, want the zero time", got, gs), c)
			}
		} else {
			for _, g := range []time.Time{got, gs} {
				if g.IsZero() || g.UnixNano() != tk*100 || g.Location() != time.UTC {
					run.Report("C20|date|ticks", fmt.Sprintf("ticks %d decode to %v (UnixNano %d, loc %v); want UnixNano %d in UTC", tk, g, g.UnixNano(), g.Location(), tk*100), c)
				}
			}
		}
		if !got.Equal(gs) || er.Err != nil {
			run.Report("C20|date|agree", "ReadDate and ReadDateBytes disagree", c)
		}
		outcomes.Add(fmt.Sprint("date", got.UnixNano()))
	}

	// 6: strings
	strs := []string{"", "a", "hello", "h\x00llo", "héllo wörld ☃", "\xff\xfe invalid utf8 \x80", string(bytes.Repeat([]byte("0123456789"), 30)), string(bytes.Repeat([]byte{0xA5}, 70000))}
	for _, s := range strs {
		states++
		enc := append(refLE(uint64(len(s)), 4), s...)
		c := map[string]any{"prim": "String", "len": len(s)}
		for name, f := range map[string]func([]byte) (string, error){"ReadStringBytes": iohelp.ReadStringBytes, "ReadStringBytesSharedMemory": iohelp.ReadStringBytesSharedMemory} {
			// exact, with trailing data, and every short length around the boundaries
			for _, extra := range []int{0, 1, 5} {
				in := append(append([]byte{}, enc...), bytes.Repeat([]byte{0x77}, extra)...)
				got, err := f(in)
				trans++
				if err != nil || got != s {
					run.Report("C20|string|inverse|"+name, fmt.Sprintf("%s on a valid %d-byte string (+%d trailing) returned (%q, %v)", name, len(s), extra, vlib.Short(got, 40), err), c)
				}
			}
			cuts := map[int]bool{}
			for k := 0; k < len(enc) && k < 12; k++ {
				cuts[k] = true
			}
			for k := len(enc) - 3; k < len(enc); k++ {
				if k >= 0 {
					cuts[k] = true
				}
			}
			for k := range cuts {
				// once with capacity == length (an over-read panics), once with the rest of the encoding and guard bytes
				// as spare capacity behind the slice (a receive buffer cut to what arrived): nothing beyond len may be read
				for _, spare := range []bool{false, true} {
					states++
					big := append(append([]byte{}, enc...), 0xEE, 0xEE, 0xEE, 0xEE)
					in := big[:k:k]
					if spare {
						in = big[:k]
					}
					var got string
					var err error
					pk, what := catch(func() { got, err = f(in) })
					trans++
					sfx := map[bool]string{false: "", true: " with spare capacity behind it"}[spare]
					if pk {
						run.Report("C20|string|short-panic|"+name, fmt.Sprintf("%s panicked on a %d-byte prefix of a %d-byte encoding%s: %s", name, k, len(enc), sfx, what), c)
					} else if err == nil {
						run.Report("C20|string|short-noerror|"+name, fmt.Sprintf("%s returned (%q, nil) for a %d-byte prefix of a %d-byte encoding%s", name, vlib.Short(got, 20), k, len(enc), sfx), c)
					}
				}
			}
		}
		// corrupt huge lengths
		for _, ln := range []uint32{0x7fffffff, 0x80000000, 0xffffffff, 0xfffffffc, uint32(len(s)) + 1} {
			states++
			in := append(refLE(uint64(ln), 4), s...)
			for name, f := range map[string]func([]byte) (string, error){"ReadStringBytes": iohelp.ReadStringBytes, "ReadStringBytesSharedMemory": iohelp.ReadStringBytesSharedMemory} {
				var err error
				pk, what := catch(func() { _, err = f(in) })
				trans++
				if pk {
					run.Report("C20|string|length-panic|"+name, fmt.Sprintf("%s panicked on declared length %#x with %d payload bytes: %s", name, ln, len(s), what), c)
				} else if err == nil {
					run.Report("C20|string|length-noerror|"+name, fmt.Sprintf("%s accepted declared length %#x with only %d payload bytes", name, ln, len(s)), c)
				}
			}
		}
		if got := iohelp.MustReadStringBytes(enc); got != s {
			run.Report("C20|string|inverse|MustReadStringBytes", "MustReadStringBytes mismatch", c)
		}
		if got := iohelp.MustReadStringBytesSharedMemory(enc); got != s {
			run.Report("C20|string|inverse|MustReadStringBytesSharedMemory", "MustReadStringBytesSharedMemory mismatch", c)
		}
		er := iohelp.NewErrorReader(bytes.NewReader(enc))
		if got := iohelp.ReadString(er); got != s || er.Err != nil {
			run.Report("C20|string|inverse|ReadString", fmt.Sprintf("ReadString returned (%q, %v)", vlib.Short(got, 40), er.Err), c)
		}
		trans += 3
		outcomes.Add("str" + fmt.Sprint(len(s)))
	}
	run.Sample(map[string]any{"prim": "String", "lengths": []int{0, 1, 5, 5, 17, 19, 300, 70000}, "cuts": "every prefix length <12 and the last 3", "corrupt_lengths": "0x7fffffff 0x80000000 0xffffffff 0xfffffffc len+1"})

	// 6b: stream reads of strings / byte runs around the pre-allocation threshold, under every uniform chunking and
	// through readers with and without io.ByteReader: exact value, no error, exactly 4+n (or n) bytes consumed.
	for _, n := range []int{0, 1, 2, 7, 8, 9, 4095, 4096, 4097, 8191, 8192, 8193, 12289, 70000} {
		payload := make([]byte, n)
		for i := range payload {
			payload[i] = byte(i*7 + 3)
		}
		enc := append(u32le(uint32(n)), payload...)
		enc = append(enc, 0xEE, 0xEE, 0xEE, 0xEE, 0xEE, 0xEE, 0xEE, 0xEE) // guard bytes that must stay unread
		for _, chunk := range []int{0, 1, 7, 4096, -2} {                  // 0 = everything asked for, -2 = half of what is asked for
			for _, byteReader := range []bool{false, true} {
				states++
				c := map[string]any{"prim": "String", "length": n, "chunk": chunk, "reader_offers_ReadByte": byteReader}
				mk := func() (*chunkedReader, io.Reader) {
					cr := &chunkedReader{data: enc, chunk: chunk}
					if byteReader {
						return cr, byteChunked{cr}
					}
					return cr, cr
				}
				cr, src := mk()
				er := iohelp.NewErrorReader(src)
				var got string
				if pk, what := catch(func() { got = iohelp.ReadString(er) }); pk {
					run.Report("C20|stream-chunked|panic|ReadString", "ReadString panicked: "+what, c)
				} else if er.Err != nil || got != string(payload) {
					run.Report("C20|stream-chunked|inverse|ReadString", fmt.Sprintf("ReadString of a %d-byte string read in chunks of %d returned %d bytes, err %v", n, chunk, len(got), er.Err), c)
				} else if cr.pos != 4+n {
					run.Report("C20|stream-chunked|consumed|ReadString", fmt.Sprintf("ReadString of a %d-byte string consumed %d bytes of the stream (want %d)", n, cr.pos, 4+n), c)
				}
				cr, src = mk()
				cr.pos = 4
				er = iohelp.NewErrorReader(src)
				var gb []byte
				if pk, what := catch(func() { gb = iohelp.ReadBytes(er, uint32(n)) }); pk {
					run.Report("C20|stream-chunked|panic|ReadBytes", "ReadBytes panicked: "+what, c)
				} else if er.Err != nil || !bytes.Equal(gb, payload) {
					run.Report("C20|stream-chunked|inverse|ReadBytes", fmt.Sprintf("ReadBytes(%d) read in chunks of %d returned %d bytes, err %v", n, chunk, len(gb), er.Err), c)
				} else if cr.pos != 4+n {
					run.Report("C20|stream-chunked|consumed|ReadBytes", fmt.Sprintf("ReadBytes(%d) consumed %d bytes of the stream", n, cr.pos-4), c)
				}
				// the same stream cut short: the failure has to be reflected in the reader's error state, for every length
				// class (below / at / above the pre-allocation threshold) and both end-of-data styles
				for _, cut := range []int{0, 3, 4, 4 + n/2, 4 + n - 1} {
					if cut < 0 || cut >= 4+n {
						continue
					}
					for _, e := range []error{io.EOF, errSentinel} {
						cr := &chunkedReader{data: enc[:cut], chunk: chunk, endErr: e}
						var src io.Reader = cr
						if byteReader {
							src = byteChunked{cr}
						}
						er := iohelp.NewErrorReader(src)
						var got string
						cc := map[string]any{"prim": "String", "length": n, "chunk": chunk, "reader_offers_ReadByte": byteReader, "stream_cut_at": cut, "end": e.Error()}
						if pk, what := catch(func() { got = iohelp.ReadString(er) }); pk {
							run.Report("C20|stream-truncated|panic|ReadString", "ReadString panicked on a truncated stream: "+what, cc)
						} else if er.Err == nil {
							run.Report("C20|stream-truncated|no-latch|ReadString", fmt.Sprintf("ReadString of a %d-byte string whose stream ends after %d of %d bytes (%v) returned %d bytes and left ErrorReader.Err nil", n, cut, 4+n, e, len(got)), cc)
						}
						trans++
					}
				}
				trans += 2
				outcomes.Add(fmt.Sprintf("chunked%d/%d/%v", n, chunk, byteReader))
			}
		}
	}

	// 7: stream reads that fail: error latched, and the result does not depend on what an earlier read left behind.
	type sreader struct {
		name string
		w    int
		read func(r *iohelp.ErrorReader) string
	}
	srs := []sreader{}
	for _, p := range prims {
		p := p
		srs = append(srs, sreader{p.name, p.w, func(r *iohelp.ErrorReader) string { return fmt.Sprintf("%#x", p.readStream(r)) }})
	}
	srs = append(srs,
		sreader{"GUID", 16, func(r *iohelp.ErrorReader) string { return fmt.Sprintf("%x", iohelp.ReadGUID(r)) }},
		sreader{"Date", 8, func(r *iohelp.ErrorReader) string { return fmt.Sprint(iohelp.ReadDate(r).UnixNano()) }},
		sreader{"String", 4 + 6, func(r *iohelp.ErrorReader) string {
			s := iohelp.ReadString(r)
			return fmt.Sprintf("len=%d %q", len(s), vlib.Short(s, 24))
		}},
	)
	fresh := []byte{0x06, 0x00, 0x00, 0x00, 0x11, 0x22, 0x33, 0x44, 0x55, 0x66, 0x77, 0x88, 0x99, 0xaa, 0xbb, 0xcc}
	// primings differ from each other in every byte position, yet keep a stale u32 count survivable (<= 16 MiB):
	// today's ReadString allocates whatever the stale scratch says.
	primings := [][]byte{{0, 0, 0, 0, 0, 0, 0, 0}, {1, 1, 1, 0, 1, 1, 1, 0}, {0x11, 0x22, 0x13, 0, 0x15, 0x26, 0x17, 0}, {0x21, 0x12, 0x23, 0, 0x25, 0x16, 0x27, 0}, {0, 0, 0, 1, 0, 0, 0, 1}}
	for _, sr := range srs {
		for k := 0; k < sr.w; k++ { // bytes delivered before the failure
			for style := 0; style < 2; style++ {
				for ei, e := range []error{io.EOF, io.ErrUnexpectedEOF, errSentinel} {
					states++
					results := []string{}
					c := map[string]any{"reader": "Read" + sr.name, "fresh_bytes_before_failure": k, "style": style, "error": e.Error()}
					for _, pr := range primings {
						data := append(append([]byte{}, pr...), fresh[:k]...)
						fr := &faultReader{data: data, err: e, style: style}
						er := iohelp.NewErrorReader(fr)
						_ = iohelp.ReadUint64(er) // priming read fills the whole scratch
						if er.Err != nil {
							// all eight bytes of the priming value were delivered (possibly together with the error that belongs to
							// what follows): a complete read is not a failed read
							run.Report("C20|stream|complete-read-reported-as-failed|Uint64", fmt.Sprintf("ReadUint64 received all 8 bytes but latched %v", er.Err), c)
							continue
						}
						var res string
						pk, what := catch(func() { res = sr.read(er) })
						trans++
						if pk {
							run.Report("C20|stream-fail|panic|"+sr.name, fmt.Sprintf("Read%s panicked after a short read (%d of %d bytes): %s", sr.name, k, sr.w, what), c)
							continue
						}
						if er.Err == nil {
							run.Report("C20|stream-fail|no-latch|"+sr.name, fmt.Sprintf("Read%s got only %d of %d bytes then %v, but ErrorReader.Err is nil", sr.name, k, sr.w, e), c)
						}
						results = append(results, res)
					}
					for ri := 1; ri < len(results); ri++ {
						res := results[ri]
						if res != results[0] {
							run.Report("C20|stream-fail|stale|"+sr.name, fmt.Sprintf("Read%s after a failed read (%d of %d fresh bytes) returned %v depending on what the previous read left in the scratch buffer (5 different primings)", sr.name, k, sr.w, results), c)
							break
						}
					}
					if ei == 0 && style == 0 && len(results) > 0 {
						outcomes.Add("fail" + sr.name + results[0])
					}
				}
			}
		}
	}
	// 7b: reads AFTER a failed read: for every pair (A fails after k fresh bytes, then B is read) the value B
	// returns must not depend on what the priming read left in the scratch buffer either.
	big := sreader{"String>4096", 4 + 5000, func(r *iohelp.ErrorReader) string {
		s := iohelp.ReadString(r)
		return fmt.Sprintf("len=%d", len(s))
	}}
	firsts := append(append([]sreader{}, srs...), big)
	bigFresh := append([]byte{0x88, 0x13, 0x00, 0x00}, bytes.Repeat([]byte{0x41}, 5000)...) // announces 5000 bytes
	for _, a := range firsts {
		ks := []int{0, 1, a.w / 2, a.w - 1}
		if a.w > 16 {
			ks = []int{0, 3, 4, 5, 100, 4095 + 4, 4096 + 4, 4999 + 4}
		}
		for _, k := range ks {
			if k < 0 || k >= a.w {
				continue
			}
			for _, b := range srs {
				states++
				var results []string
				c := map[string]any{"first_read": "Read" + a.name, "fresh_bytes_before_failure": k, "second_read": "Read" + b.name}
				for _, pr := range primings {
					src := fresh
					if a.w > 16 {
						src = bigFresh
					}
					data := append(append([]byte{}, pr...), src[:k]...)
					fr := &faultReader{data: data, err: io.EOF, style: 0}
					er := iohelp.NewErrorReader(fr)
					_ = iohelp.ReadUint64(er)
					var res string
					pk, what := catch(func() { _ = a.read(er); res = b.read(er) })
					trans += 2
					if pk {
						run.Report("C20|stream-fail|panic-after-failure|"+a.name+">"+b.name, "panicked reading after a failed read: "+what, c)
						continue
					}
					if er.Err == nil {
						run.Report("C20|stream-fail|no-latch|"+a.name, fmt.Sprintf("Read%s got %d of %d bytes, ErrorReader.Err is nil after a following Read%s", a.name, k, a.w, b.name), c)
					}
					results = append(results, res)
				}
				for _, res := range results[1:] {
					if res != results[0] {
						run.Report("C20|stream-fail|stale-after-failure|"+a.name+">"+b.name, fmt.Sprintf("after Read%s failed (%d of %d fresh bytes), the next Read%s returned %v depending on what an earlier successful read left in the scratch buffer", a.name, k, a.w, b.name, results), c)
						break
					}
				}
			}
		}
	}
	run.Sample(map[string]any{"stream_failure": "for each Read*: every k<width fresh bytes then {EOF,ErrUnexpectedEOF,custom} delivered as (0,err) or (n,err), under 5 different scratch primings"})

	// 8: writer failures are latched
	for _, p := range prims {
		states++
		fw := &failWriter{}
		ew := iohelp.NewErrorWriter(fw)
		p.writeStream(ew, 1)
		trans++
		if ew.Err == nil {
			run.Report("C20|write-fail|no-latch|"+p.name, "Write"+p.name+" on a failing writer left ErrorWriter.Err nil", map[string]any{"prim": p.name})
		}
	}

	run.Coverage["states"] = states
	run.Coverage["transitions"] = trans
	run.Coverage["traces_validated_against_impl"] = trans
	run.Coverage["evaluations"] = states
	run.Coverage["distinct_nontrivial"] = outcomes.Distinct()
	run.Coverage["rule"] = "state = one (primitive, value | buffer length | fault point x error style) case; enumerated exhaustively: all 8/16-bit values, all 32-bit values over byte lanes {00,01,7f,80,ff}, 64-bit over lanes {00,01,80,ff} (quick) / {00,01,7f,80,ff} (thorough), all single-bit patterns, buffer lengths 0..w+2, every failure offset; distinct = distinct reference encodings / failure results observed"
	run.Coverage["explanation"] = "every call is executed on the real iohelp package; reference layout from encoding/binary"
	run.Assume = []string{"little-endian host (amd64), as the package itself assumes", "dates restricted to |ticks| <= MaxInt64/100 (UnixNano range)"}
	run.Finish()
}

type failWriter struct{}

func (failWriter) Write(p []byte) (int, error) { return 0, errSentinel }
